"""C10 - rank- and PIT-based forecast diagnostics depend only on ranks, stay in range."""
import math
import re
from fractions import Fraction as Fr

import numpy as np

from harness import common as cm

PID = "C10"
HEADER = ("From Coq Require Import ZArith List PrimFloat.\n"
          "From Hy Require Import Base.Num Gen.ConstsC10 Model.Dscore.")

CMP_TOL = 1e-8          # comparator tolerance of c_dscore.c (the model reads it from the source)


# ----------------------------------------------------------------------------
# Coq terms

def fl(x):
    return cm.coq_float(x)


def flist(xs):
    return cm.coq_flist(xs)


def fmat(rows):
    return "[" + "; ".join(flist(r) for r in rows) + "]"


def blist(bs):
    return "[" + "; ".join(cm.coq_bool(b) for b in bs) + "]"


# ----------------------------------------------------------------------------
# generators (inside the property's quantifier: finite values that are exactly
# tied or separated by much more than the tolerances)

def lattice_values(rng, count, step, lo, hi, ties):
    """`count` values k*step, k integer in [lo, hi]; `ties` in [0,1] shrinks the
    range of k so that equal values become frequent."""
    span = max(1, int((hi - lo) * (1.0 - ties)))
    base = rng.randint(lo, hi - span) if hi - span > lo else lo
    return [(base + rng.randint(0, span)) * step for _ in range(count)]


def gen_ensembles(rng, n, m, mode=None):
    """n ensembles of m members."""
    mode = mode or rng.choice(["ties", "ties", "heavy", "spread", "identical", "ordered", "blocks"])
    step = rng.choice([1.0, 0.5, 0.25, 0.125, 0.01])
    if mode == "heavy":
        sim = [[rng.randint(0, 2) * step for _ in range(m)] for _ in range(n)]
    elif mode == "ties":
        sim = [lattice_values(rng, m, step, -8, 8, rng.choice([0.0, 0.5])) for _ in range(n)]
    elif mode == "spread":
        ks = rng.sample(range(-4000, 4000), n * m)
        sim = [[ks[i * m + j] * step for j in range(m)] for i in range(n)]
    elif mode == "identical":
        base = lattice_values(rng, m, step, -5, 5, 0.3)
        sim = []
        for i in range(n):
            r = rng.random()
            if r < 0.6:
                row = list(base)
                rng.shuffle(row)
            else:
                row = lattice_values(rng, m, step, -5, 5, 0.3)
            sim.append(row)
    elif mode == "ordered":
        # ensembles completely separated from each other, in random order
        order = list(range(n))
        rng.shuffle(order)
        sim = [None] * n
        for pos, i in enumerate(order):
            sim[i] = [(pos * (m + 2) + rng.randint(0, m)) * step for _ in range(m)]
    else:  # blocks: two groups of ensembles sharing values
        sim = []
        for i in range(n):
            off = rng.choice([0, 0, 1, 3])
            sim.append([(off + rng.randint(0, 3)) * step for _ in range(m)])
    return sim, mode


def separated(values, tol):
    """every two values equal or farther apart than tol"""
    v = sorted(set(values))
    return all(b - a > tol for a, b in zip(v, v[1:]))


MAPS = {
    "exp": lambda v: math.exp(v / 8.0),
    "arctan": lambda v: math.atan(v / 4.0),
    "cubic": lambda v: v * v * v + v,
    "affine": lambda v: 3.5 * v - 7.25,
}


# ----------------------------------------------------------------------------
# independent oracles (exact rationals; no use of the Coq model)

def wm_F(e1, e2):
    """Weigel and Mason (2011), eq. (1) with mid-ranks = pairwise comparison."""
    m = len(e1)
    tot = Fr(0)
    for a in e1:
        fa = Fr(a)
        for b in e2:
            fb = Fr(b)
            if fa > fb:
                tot += 1
            elif fa == fb:
                tot += Fr(1, 2)
    return tot / (m * m)


def wm_ranks(sim):
    n = len(sim)
    F = {}
    ranks = [Fr(1)] * n
    for i in range(n):
        for j in range(n):
            if i == j:
                continue
            f = wm_F(sim[i], sim[j])
            F[(i, j)] = f
            ranks[i] += 1 if f > Fr(1, 2) else (Fr(1, 2) if f == Fr(1, 2) else 0)
    return F, ranks


def cvm_exact(data):
    n = len(data)
    xs = sorted(Fr(x) for x in data)
    return Fr(1, 12 * n) + sum((Fr(2 * i - 1, 2 * n) - x) ** 2 for i, x in enumerate(xs, 1))


def ad_textbook(data):
    n = len(data)
    xs = sorted(data)
    terms = [(2 * i - 1) * (math.log(xs[i - 1]) + math.log1p(-xs[n - i])) for i in range(1, n + 1)]
    return -n - math.fsum(terms) / n


# ----------------------------------------------------------------------------


# ----------------------------------------------------------------------------
# E3: the real-number model of the Anderson-Darling statistic / p-value against the
# implementation's output, one `interval` goal per point

def _ad_branch_margins(n, a):
    """Mirror of AnDarl.c (used ONLY to keep E3 points away from the branch
    thresholds of AD(n,z), where interval arithmetic cannot decide the branch)."""
    z = a
    if abs(z - 2.0) < 1e-2 or z <= 1e-3 or z > 30:
        return False
    if z < 2.0:
        x = math.exp(-1.2337141 / z) / math.sqrt(z) * (2.00012 + (.247105 - (.0649821 - (.0347962 - (
            .011672 - .00168691 * z) * z) * z) * z) * z)
    else:
        x = math.exp(-math.exp(1.0776 - (2.30695 - (.43424 - (.082433 - (.008056 - .0003146 * z) * z) * z) * z) * z))
    c = .01265 + .1757 / n
    if abs(x - 0.8) < 1e-3 or abs(x - c) < 1e-4 * 1 or x < 1e-12:
        return False
    return True


def _q(v):
    f = Fr(v)
    return f"({f.numerator} / {f.denominator})" if f.denominator != 1 else f"({f.numerator})"


E3_HEADER = ("From Coq Require Import Reals List ZArith.\nFrom Interval Require Import Tactic.\n"
             "From Hy Require Import Base.Num Gen.ConstsC10 Model.Dscore Proofs.DscoreADProofs.\n"
             "Import ListNotations. Open Scope R_scope.\n")


def e3_text(xs, a, p):
    ta = 1e-12 * max(1.0, abs(a))
    return (E3_HEADER +
            f"Example e3_stat : Rabs (ad_stat_sorted [{'; '.join(_q(v) for v in xs)}] - {_q(a)}) <= {_q(ta)}.\n"
            "Proof. ad_stat_e3. Qed.\n"
            f"Example e3_pvalue : forall z, {_q(a)} - {_q(ta)} <= z <= {_q(a)} + {_q(ta)} -> "
            f"Rabs (ad_pvalue {len(xs)} z - {_q(p)}) <= 1 / 1000000000.\n"
            "Proof. ad_pvalue_e3. Qed.\n")


def run_e3(points):
    """points: list of (sorted sample, statistic, p-value).  Returns list of (index, ok, log)."""
    from concurrent.futures import ThreadPoolExecutor
    d = cm.scratch() / "e3_C10"
    d.mkdir(exist_ok=True)
    files = []
    for k, (xs, a, p) in enumerate(points):
        f = d / f"E3_C10_{k}.v"
        f.write_text(e3_text(xs, a, p))
        files.append((k, f))

    def one(kf):
        k, f = kf
        rc, out = cm.coqc_file(f, timeout=600)
        return k, rc == 0, out[-1500:]
    with ThreadPoolExecutor(max_workers=cm.NCPU) as ex:
        return list(ex.map(one, files))


class Recorder:
    """Records the arrays numpy.random.uniform hands to metrics.pit (the jitter)."""

    def __init__(self, seed):
        self.state = np.random.RandomState(seed)
        self.calls = []

    def __enter__(self):
        self.orig = np.random.uniform
        rec = self

        def uniform(low=0.0, high=1.0, size=None):
            out = rec.state.uniform(low, high, size)
            rec.calls.append((float(low), float(high), np.array(out, copy=True)))
            return out
        np.random.uniform = uniform
        return self

    def __exit__(self, *a):
        np.random.uniform = self.orig

    def jitters(self, nforc, nens):
        """(dobs, dens) by shape; None when the calls are not the two expected ones."""
        dobs = [c for c in self.calls if c[2].shape == (nforc,)]
        dens = [c for c in self.calls if c[2].shape == (nforc, nens)]
        if len(dobs) != 1 or len(dens) != 1 or len(self.calls) != 2:
            return None
        return dobs[0][2], dens[0][2]


def run(ctx):
    ctx.rule = (
        "one PRNG; ensrank/dscore: n 1..12 forecasts x m 1..8 members (thorough n..30, m..24) on lattices "
        "(steps 1..0.01) with heavy ties inside and across ensembles, identical / separated / block ensembles, "
        "eps 1e-9..1e-3, error codes; monotone maps exp/arctan/cubic/affine, member permutations; "
        "pit: 1..8 rows x 1..24 members, random False/True with recorded jitter, cst in [0,0.5] (and above the cap), "
        "censor thresholds with members at/below/above, NaN rows; CvM/AD: samples of 1..400 values in (0,1) "
        "(uniform, beta-like, regular grids, clustered, duplicates, shuffled), rejection of values outside [0,1] / NaN; "
        "alpha CV/KS/AD; non-trivial = distinct (kind, size class, branch) signature")
    ctx.trusted = cm.STD_TRUST + [
        "glibc qsort is a stable merge sort (c_dscore.c relies on it); modelled as a stable insertion sort, "
        "identical on inputs for which the tolerance comparator is a total preorder (the property's hypothesis)",
        "numpy argsort/sort/sum/dot/interp/corrcoef, scipy percentileofscore/kstest: modelled by their documented "
        "formulas; quantities passing through numpy reductions are compared with tolerance 1e-12",
        "coq-interval (E3 check of the Anderson-Darling statistic and p-value against the real-number model)",
        "libm log/exp/sqrt within a few ulp",
    ]
    ctx.tested_not_proved = [
        "binary64 rounding of the real-number identities (F, D, CvM, AD statistics) - tested with exact rational / "
        "fsum oracles at 1e-9",
        "argsort tie-breaking for tied observations / tied single-member forecasts (numpy's unstable sort): only "
        "range and invariance are tested there",
        "Kolmogorov-Smirnov p-value of alpha(type='KS') comes from scipy: range tested",
        "np.interp on the shipped table stays in [0,1] in binary64 (proved over the reals; table range checked "
        "inside Coq by vm_compute)",
    ]
    # Proofs/DscoreADProofs.v (interval arithmetic: the pinned p-value exceeds 1; E3 tactics) is built as
    # an extra target: it is outside the closure of Props/C10.v (see the comment there)
    proved = cm.prove_with_kernels(ctx, ["c_ensrank"], extra_targets=["Proofs/DscoreADProofs.vo"])
    ctx.obligation("Proofs/DscoreADProofs.v:ad_pvalue_noclip_refuted (interval arithmetic; extra target, "
                   "compiled by coqc, outside the coqchk closure)", proved)
    cm.use_impl()
    import c_hydrodiy_stat
    from hydrodiy.stat import metrics

    rng = ctx.rng
    terms, replays = [], []
    orc_fail = set()
    thorough = ctx.thorough

    def add(term, replay, sig):
        terms.append(term)
        replays.append(replay)
        ctx.count(sig)
        if len(terms) % 97 == 1:
            ctx.sample(replay, limit=8)
        return len(terms) - 1

    def fail(idx, key, what, replay=None):
        if idx is not None:
            orc_fail.add(idx)
        ctx.failure(key, replay if replay is not None else replays[idx], what)

    # ------------------------------------------------------------------
    # 1. ensrank kernel: correspondence + Weigel-Mason oracle
    def call_ensrank(eps, sim):
        a = np.ascontiguousarray(np.array(sim, dtype=np.float64).reshape(len(sim), len(sim[0]) if sim else 0))
        n = a.shape[0]
        fm = np.zeros((n, n), dtype=np.float64)
        rk = np.zeros(n, dtype=np.float64)
        cm.mark({"call": "c_hydrodiy_stat.ensrank", "eps": eps, "sim": sim})
        code = int(c_hydrodiy_stat.ensrank(float(eps), a, fm, rk))
        return code, fm, rk

    def do_ensrank(eps, sim, mode):
        n = len(sim)
        m = len(sim[0]) if sim else 0
        code, fm, rk = call_ensrank(eps, sim)
        fs = [float(fm[i, j]) for i in range(n) for j in range(i + 1, n)] if code == 0 else []
        ranks = [float(x) for x in rk] if code == 0 else []
        idx = add(f"CEns {fl(eps)} {fmat(sim)} {cm.coq_z(code)} {flist(fs)} {flist(ranks)}",
                  {"call": "c_hydrodiy_stat.ensrank", "eps": eps, "sim": sim, "code": code,
                   "fmat_upper": fs, "ranks": ranks},
                  ("ensrank", min(n, 4), min(m, 4), mode, code))
        if math.isnan(eps):
            return
        if code != 0 or n == 0 or m == 0:
            if eps >= 1e-20 and n > 0 and m > 0:
                fail(idx, "C10/ensrank/valid-input-rejected", f"ensrank returned {code} for eps={eps}, {n}x{m}")
            return
        F, wr = wm_ranks(sim)
        for i in range(n):
            for j in range(i + 1, n):
                if abs(Fr(float(fm[i, j])) - F[(i, j)]) > Fr(1, 10 ** 9):
                    fail(idx, "C10/ensrank/fmat-not-midrank",
                         f"fmat[{i},{j}]={float(fm[i, j])!r}, pairwise mid-rank comparison gives {float(F[(i, j)])!r} "
                         f"(ensembles {sim[i]} / {sim[j]}, eps={eps})")
                    return
        if any(Fr(float(a)) != b for a, b in zip(rk, wr)):
            fail(idx, "C10/ensrank/ranks-not-weigel-mason",
                 f"ranks={ranks}, Weigel-Mason ranks={[float(x) for x in wr]} (eps={eps}, sim={sim})")

    def do_large(m):
        """two ensembles of m members whose comparison is one half-step 1/(2 m^2) below a tie"""
        sim = [[0.0] * (m - 1) + [1.0], [0.0] * (m - 1) + [2.0]]
        code, fm, rk = call_ensrank(1e-6, sim)
        ctx.count(("ensrank-large-ensemble", m))
        rp = {"call": "c_hydrodiy_stat.ensrank", "eps": 1e-6, "m": m,
              "sim_recipe": "sim = [[0.0]*(m-1)+[1.0], [0.0]*(m-1)+[2.0]]"}
        # exact pairwise comparison: the (m-1)^2 tied pairs count 1/2, the m-1 pairs (1 vs 0) count 1
        Fx = (Fr((m - 1) * (m - 1), 2) + (m - 1)) / (m * m)
        want = [Fr(1), Fr(2)]
        if code != 0 or abs(Fr(float(fm[0, 1])) - Fx) > Fr(1, 10 ** 12):
            fail(None, "C10/ensrank/fmat-not-midrank",
                 f"{m} members: return code {code}, fmat[0,1]={float(fm[0, 1])!r}, exact {float(Fx)!r}", rp)
        elif [Fr(float(v)) for v in rk] != want:
            key = "C10/ensrank/ranks-not-weigel-mason" + ("/ensemble-of-7072-or-more" if m >= 7072 else "")
            fail(None, key,
                 f"{m} members: ranks {[float(v) for v in rk]}, Weigel-Mason ranks {[float(v) for v in want]} "
                 f"(F = 1/2 - 1/(2 m^2) = {float(fm[0, 1])!r})", dict(rp, ranks=[float(v) for v in rk]))

    nmax, mmax = (30, 24) if thorough else (12, 8)

    # ------------------------------------------------------------------
    # 0. replays of the recorded (repaired) findings and of corpus/C10, first
    import json
    kf = cm.VERIF / "known_findings.d" / "C10.json"
    stored = [f["replay"] for f in json.loads(kf.read_text())["findings"]] if kf.exists() else []
    stored += cm.load_corpus(PID)
    for rp in stored:
        ctx.count(("stored-replay", rp.get("call")))
        try:
            if rp["call"] == "c_hydrodiy_stat.ensrank" and "m" in rp:
                do_large(int(rp["m"]))
            elif rp["call"] == "c_hydrodiy_stat.ensrank":
                do_ensrank(rp["eps"], rp["sim"], "stored")
            elif rp["call"] == "metrics.anderson_darling_test":
                a, pa = metrics.anderson_darling_test(np.array(rp["data"], dtype=np.float64))
                if not (0.0 <= float(pa) <= 1.0):
                    fail(None, "C10/ad/pvalue-out-of-range",
                         f"AD p-value {float(pa)!r} (n={len(rp['data'])}, statistic {float(a)!r})",
                         dict(rp, stat=float(a), pvalue=float(pa)))
            elif rp["call"] == "metrics.pit":
                pits, _ = metrics.pit(np.array(rp["obs"]), np.array(rp["ens"]), random=rp["random"],
                                      cst=rp["cst"], censor=rp["censor"])
                if not all(0.0 <= float(v) <= 1.0 for v in pits):
                    fail(None, "C10/pit/out-of-range",
                         f"PIT={[float(v) for v in pits]!r} not in [0,1] (random={rp['random']}, "
                         f"{len(rp['ens'][0])} members)", rp)
            elif rp["call"] == "metrics.dscore" and rp.get("map") in MAPS:
                d1 = float(metrics.dscore(np.array(rp["obs"]), np.array(rp["sim"]), eps=rp["eps"]))
                gs = [[MAPS[rp["map"]](v) for v in row] for row in rp["sim"]]
                d2 = float(metrics.dscore(np.array(rp["obs"]), np.array(gs), eps=rp["eps"]))
                if not abs(d1 - d2) <= 1e-12:
                    fail(None, "C10/dscore/forecast-rescaling",
                         f"dscore changes from {d1!r} to {d2!r} under the increasing map {rp['map']} "
                         "of the forecasts", rp)
        except (KeyError, TypeError, ValueError) as e:
            ctx.notes.setdefault("stored_replay_errors", []).append(f"{rp.get('call')}: {e}")
    for it in range(ctx.scale(260, 4000)):
        n = rng.choice([1, 2, 2, 3, 4, rng.randint(2, nmax)])
        m = rng.choice([1, 1, 2, 3, rng.randint(1, mmax)])
        sim, mode = gen_ensembles(rng, n, m)
        eps = rng.choice([1e-6, 1e-6, 1e-9, 1e-8, 1e-4, 1e-3, 1e-19])
        r = rng.random()
        if r < 0.08:
            # a coarse tie tolerance on coarse data (lattice step 8)
            eps = rng.choice([2.0, 1.0, 1.5])
            sim = [[v * 800.0 for v in row] for row in sim]
            mode += "+eps>=1"
        elif r < 0.14:
            # large magnitudes (exact scaling: ties stay ties)
            sim = [[v * 2.0 ** 62 for v in row] for row in sim]
            mode += "+large"
        do_ensrank(eps, sim, mode)
    # very large ensembles: the smallest gap of F from 1/2 is 1/(2 m^2)
    # 46341 = first m with m*(m+1) > INT_MAX: an integer rank-sum formula overflows there (seeded C10-m1)
    for m in (7071, 7072, 9973, 46340, 46341, 65537):
        do_large(m)
    # error paths of the kernel
    for eps, sim in [(1e-21, [[1.0, 2.0], [2.0, 3.0]]), (0.0, [[1.0], [2.0]]), (-1.0, [[1.0], [2.0]]),
                     (1e-6, [[], [], []]), (1e-6, []), (float("nan"), [[1.0, 2.0], [0.0, 1.0]])]:
        do_ensrank(eps, sim, "error")

    # ------------------------------------------------------------------
    # 2. dscore: correspondence (distinct observations) + range / extremes / invariances
    def call_dscore(obs, sim, eps):
        cm.mark({"call": "metrics.dscore", "obs": obs, "sim": sim, "eps": eps})
        with np.errstate(all="ignore"):
            return float(metrics.dscore(np.array(obs, dtype=np.float64),
                                        np.array(sim, dtype=np.float64), eps=eps))

    def franks_constant(sim, eps):
        """True when every forecast gets the same rank (the correlation is then undefined)."""
        if len(sim[0]) == 1:
            return False
        _, wr = wm_ranks(sim)
        return len(set(wr)) == 1

    for it in range(ctx.scale(220, 3500)):
        n = rng.choice([2, 2, 3, 4, 5, rng.randint(2, nmax)])
        m = rng.choice([1, 2, 3, rng.randint(1, mmax)])
        sim, mode = gen_ensembles(rng, n, m)
        tied_obs = rng.random() < 0.25
        if tied_obs:
            obs = [rng.randint(0, max(1, n // 2)) * 0.5 for _ in range(n)]
        else:
            obs = [k * 0.25 for k in rng.sample(range(-60, 60), n)]
        eps = rng.choice([1e-6, 1e-6, 1e-8, 1e-4])
        single_tied = (m == 1 and len(set(r[0] for r in sim)) < n)
        if m == 1 and rng.random() < 0.5:
            # single-member forecasts without ties
            ks = rng.sample(range(-50, 50), n)
            sim = [[k * 0.5] for k in ks]
            single_tied = False
        extreme = None
        r = rng.random()
        if not tied_obs and r < 0.2:
            # forecasts ordering the observations perfectly / inversely
            sign = 1 if r < 0.1 else -1
            order = sorted(range(n), key=lambda i: sign * obs[i])
            sim = [None] * n
            for pos, i in enumerate(order):
                sim[i] = [(pos * (m + 1) + rng.randint(0, m)) * 0.5 for _ in range(m)]
            extreme = sign
            single_tied = False
        d = call_dscore(obs, sim, eps)
        replay = {"call": "metrics.dscore", "obs": obs, "sim": sim, "eps": eps, "D": d}
        const = franks_constant(sim, eps)
        if not tied_obs and not single_tied:
            idx = add(f"CDscore {fl(eps)} {flist(obs)} {fmat(sim)} {fl(d)}", replay,
                      ("dscore", min(n, 4), min(m, 3), mode, extreme, const))
        else:
            idx = None
            ctx.count(("dscore-oracle-only", min(n, 4), min(m, 3), tied_obs, single_tied))
        if const:
            continue            # all forecasts tied: the rank correlation is undefined (0/0)
        if not (0.0 <= d <= 1.0):
            fail(idx, "C10/dscore/out-of-range", f"dscore={d!r} not in [0,1] (obs={obs}, sim={sim})", replay)
            continue
        if extreme == 1 and abs(d - 1.0) > 1e-9:
            fail(idx, "C10/dscore/perfect-order-not-one", f"dscore={d!r} for perfectly ordered forecasts", replay)
        if extreme == -1 and abs(d) > 1e-9:
            fail(idx, "C10/dscore/inverse-order-not-zero", f"dscore={d!r} for inversely ordered forecasts", replay)
        # invariances
        allv = [v for row in sim for v in row]
        tol = 10 * max(eps, CMP_TOL)
        for name, g in MAPS.items():
            if rng.random() < 0.5:
                continue
            gs = [[g(v) for v in row] for row in sim]
            if separated([v for row in gs for v in row], tol) and \
                    len(set(v for row in gs for v in row)) == len(set(allv)):
                d2 = call_dscore(obs, gs, eps)
                if not abs(d2 - d) <= 1e-12:
                    fail(idx, "C10/dscore/forecast-rescaling",
                         f"dscore changes from {d!r} to {d2!r} under the increasing map {name} of the forecasts",
                         dict(replay, map=name))
            go = [g(v) for v in obs]
            if len(set(go)) == len(set(obs)):
                d3 = call_dscore(go, sim, eps)
                if not abs(d3 - d) <= 1e-12:
                    fail(idx, "C10/dscore/observation-rescaling",
                         f"dscore changes from {d!r} to {d3!r} under the increasing map {name} of the observations",
                         dict(replay, map=name))
        if m > 1:
            ps = []
            for row in sim:
                row = list(row)
                rng.shuffle(row)
                ps.append(row)
            d4 = call_dscore(obs, ps, eps)
            if not abs(d4 - d) <= 1e-12:
                fail(idx, "C10/dscore/member-permutation",
                     f"dscore changes from {d!r} to {d4!r} when ensemble members are permuted",
                     dict(replay, permuted=ps))

    # ------------------------------------------------------------------
    # 3. pit: correspondence with recorded jitter + range / monotonicity / pseudo flag
    def call_pit(obs, ens, random, cst, censor, seed):
        cm.mark({"call": "metrics.pit", "obs": obs, "ens": ens, "random": random, "cst": cst, "censor": censor})
        with Recorder(seed) as rec:
            try:
                with np.errstate(all="ignore"):
                    pits, sudo = metrics.pit(np.array(obs, dtype=np.float64),
                                             np.array(ens, dtype=np.float64).reshape(len(obs), -1),
                                             random=random, cst=cst, censor=censor)
                out = ([float(x) for x in pits], [bool(x) for x in sudo])
            except ValueError:
                out = None
        return out, rec

    mpit = 24
    for it in range(ctx.scale(260, 4000)):
        n = rng.choice([1, 2, 3, rng.randint(1, 8)])
        m = rng.choice([1, 2, 3, 11, 22, rng.randint(1, mpit)])
        random = rng.random() < 0.5
        cst = rng.choice([0.3, 0.0, 0.5, 0.25, round(rng.uniform(0, 0.5), 3)])
        above_cap = rng.random() < 0.05
        if above_cap:
            cst = rng.choice([0.5000001, 0.8, 2.0])
        censor = rng.choice([0.0, 0.0, 1.0, -2.5, 10.0, 0.5])
        step = rng.choice([1.0, 0.5, 0.25])
        obs, ens = [], []
        for i in range(n):
            kind = rng.choice(["mixed", "mixed", "censored", "allbelow", "allabove", "tiedobs"])
            o = censor + rng.randint(-3, 6) * step
            if kind == "censored":
                o = censor + rng.choice([0, 0, -1, -2]) * step
                row = [censor + rng.choice([0, 0, -1, 1, 2, 3]) * step for _ in range(m)]
            elif kind == "allbelow":
                row = [o - rng.randint(1, 5) * step for _ in range(m)]
            elif kind == "allabove":
                row = [o + rng.randint(1, 5) * step for _ in range(m)]
            elif kind == "tiedobs":
                row = [o + rng.choice([0, 0, -1, 1]) * step for _ in range(m)]
            else:
                row = [censor + rng.randint(-4, 8) * step for _ in range(m)]
            obs.append(o)
            ens.append(row)
        nan_mode = rng.random()
        has_nan = False
        if nan_mode < 0.08:
            obs[rng.randrange(n)] = float("nan")
            has_nan = True
        elif nan_mode < 0.14:
            ens[rng.randrange(n)] = [float("nan")] * m
            has_nan = True
        elif nan_mode < 0.18 and not random:
            ens[rng.randrange(n)][rng.randrange(m)] = float("nan")
            has_nan = True
        out, rec = call_pit(obs, ens, random, cst, censor, rng.randrange(2 ** 31))
        valid = [i for i in range(n) if not math.isnan(obs[i]) and not all(math.isnan(v) for v in ens[i])]
        nforc = len(valid)
        dobs, dens = [], []
        if random and out is not None:
            jit = rec.jitters(nforc, m)
            if jit is None:
                # the implementation no longer draws its jitter with numpy.random.uniform in two calls:
                # the count formula cannot be replayed; the oracle below still applies
                jit = (np.zeros(nforc), np.zeros((nforc, m)))
                ctx.notes["pit_jitter_not_recorded"] = ctx.notes.get("pit_jitter_not_recorded", 0) + 1
                replay_only = True
            else:
                replay_only = False
            dobs, dens = [float(x) for x in jit[0]], [[float(x) for x in r] for r in jit[1]]
        else:
            replay_only = False
        replay = {"call": "metrics.pit", "obs": obs, "ens": ens, "random": random, "cst": cst,
                  "censor": censor, "result": out}
        res = "None" if out is None else f"(Some ({flist(out[0])}, {blist(out[1])}))"
        idx = None
        if not replay_only:
            idx = add(f"CPit {cm.coq_bool(random)} {fl(cst)} {fl(censor)} {flist(obs)} {fmat(ens)} "
                      f"{flist(dobs)} {fmat(dens)} {res}", replay,
                      ("pit", random, min(n, 3), min(m, 3), m in (11, 22), has_nan, above_cap, out is None,
                       cst in (0.0, 0.5)))
        if out is None:
            if nforc > 0:
                fail(idx, "C10/pit/valid-input-rejected", "pit raised on valid data", replay)
            continue
        pits, sudo = out
        if len(pits) != nforc:
            fail(idx, "C10/pit/shape", f"{len(pits)} PIT values for {nforc} valid forecasts", replay)
            continue
        if above_cap:
            continue
        for k, i in enumerate(valid):
            row = ens[i]
            if any(math.isnan(v) for v in row):
                continue
            p = pits[k]
            if not (0.0 <= p <= 1.0):
                fail(idx, "C10/pit/out-of-range",
                     f"PIT={p!r} not in [0,1] (random={random}, obs={obs[i]}, {m} members, "
                     f"{sum(v < obs[i] for v in row)} below)", dict(replay, row=i))
                break
            want = (obs[i] <= censor) and any(v <= censor for v in row)
            if sudo[k] != want:
                fail(idx, "C10/pit/pseudo-flag",
                     f"pseudo flag={sudo[k]} but obs={obs[i]} and members {row} with censor={censor}",
                     dict(replay, row=i))
                break
        # strict increase with the number of members below the observation (rows of this call
        # whose members all differ from the observation)
        clean = [(sum(v < obs[i] for v in ens[i]), pits[k]) for k, i in enumerate(valid)
                 if not any(math.isnan(v) or v == obs[i] for v in ens[i])]
        for (c1, p1) in clean:
            for (c2, p2) in clean:
                if c1 < c2 and not p1 < p2 or (c1 == c2 and p1 != p2):
                    fail(idx, "C10/pit/not-increasing-in-count",
                         f"{c1} members below -> PIT {p1!r}, {c2} members below -> PIT {p2!r} "
                         f"(random={random}, cst={cst}, {m} members)", replay)
                    break
            else:
                continue
            break
    # the whole ladder 0..m members below, for every m up to 60 (implementation only)
    for m in range(1, ctx.scale(41, 121)):
        for random in (False, True):
            cst = rng.choice([0.3, 0.0, 0.5])
            obs = [0.5] * (m + 1)
            ens = [[0.0] * k + [1.0] * (m - k) for k in range(m + 1)]
            out, _ = call_pit(obs, ens, random, cst, 0.0, 1)
            ctx.count(("pit-ladder", random, min(m, 3)))
            replay = {"call": "metrics.pit", "obs": obs, "ens": ens, "random": random, "cst": cst, "censor": 0.0}
            if out is None:
                fail(None, "C10/pit/valid-input-rejected", "pit raised on valid data", replay)
                continue
            pits = out[0]
            if not all(0.0 <= p <= 1.0 for p in pits):
                k = [i for i, p in enumerate(pits) if not 0.0 <= p <= 1.0][0]
                fail(None, "C10/pit/out-of-range",
                     f"PIT={pits[k]!r} not in [0,1] (random={random}, {m} members, {k} below the observation)",
                     dict(replay, row=k, result=pits))
            elif not all(a < b for a, b in zip(pits, pits[1:])):
                fail(None, "C10/pit/not-increasing-in-count",
                     f"PIT ladder not strictly increasing for {m} members (random={random}): {pits}", replay)

    # ------------------------------------------------------------------
    # 4. uniformity statistics
    def gen_unit_sample(n):
        kind = rng.choice(["uniform", "uniform", "beta", "midpoints", "plotting", "cluster", "dups", "edge"])
        if kind == "uniform":
            x = [rng.random() for _ in range(n)]
        elif kind == "beta":
            a, b = rng.choice([(0.5, 0.5), (2, 5), (5, 1), (0.3, 3)])
            x = [rng.betavariate(a, b) for _ in range(n)]
        elif kind == "midpoints":
            x = [(i + 0.5) / n for i in range(n)]
            if rng.random() < 0.5:
                x = [min(max(v + rng.uniform(-0.2, 0.2) / n, 1e-9), 1 - 1e-9) for v in x]
        elif kind == "plotting":
            c = rng.choice([0.3, 0.0, 0.5])
            x = [(i + 1 - c) / (n + 1 - 2 * c) if c < 0.5 or n > 0 else 0.5 for i in range(n)]
            x = [(i + 0.5 - c) / (n + 1 - c) for i in range(1, n + 1)] if rng.random() < 0.5 else x
        elif kind == "cluster":
            c = rng.choice([0.5, 0.02, 0.98, 0.7])
            x = [min(max(c + rng.gauss(0, 0.01), 1e-6), 1 - 1e-6) for _ in range(n)]
        elif kind == "dups":
            vals = [rng.random() for _ in range(max(1, n // 3))]
            x = [rng.choice(vals) for _ in range(n)]
        else:
            x = [rng.choice([1e-12, 1e-6, 1 - 1e-9, rng.random()]) for _ in range(n)]
        x = [v for v in x if 0.0 < v < 1.0]
        while len(x) < n:
            x.append(rng.random())
        rng.shuffle(x)
        return x, kind

    nsamp_max = ctx.scale(400, 1200)
    e3_points, e3_replays, e3_max = [], [], ctx.scale(6, 40)
    table_ok = bool(np.all((metrics.CVM_TABLE >= 0) & (metrics.CVM_TABLE <= 1)))
    ctx.notes["cvm_table_in_unit_interval"] = table_ok
    for it in range(ctx.scale(150, 1500)):
        n = rng.choice([1, 2, 3, 5, 10, 12, 55, rng.randint(1, 40), rng.randint(1, nsamp_max)])
        x, kind = gen_unit_sample(n)
        arr = np.array(x, dtype=np.float64)
        cm.mark({"call": "metrics.cramer_von_mises_test", "data": x})
        stat, p = metrics.cramer_von_mises_test(arr.copy())
        stat, p = float(stat), float(p)
        replay = {"call": "metrics.cramer_von_mises_test", "data": x, "stat": stat, "pvalue": p}
        idx = None
        if n <= ctx.scale(120, 400):
            idx = add(f"CCvm {flist(x)} {fl(stat)} {fl(p)}", replay, ("cvm", kind, min(n, 6), n > 50))
        else:
            ctx.count(("cvm-oracle-only", kind))
        want = cvm_exact(x)
        if not abs(Fr(stat) - want) <= Fr(1, 10 ** 9) * max(1, want):
            fail(idx, "C10/cvm/statistic", f"CvM statistic {stat!r}, textbook formula {float(want)!r} (n={n})", replay)
        if not (0.0 <= p <= 1.0):
            fail(idx, "C10/cvm/pvalue-out-of-range", f"CvM p-value {p!r} (n={n}, statistic {stat!r})", replay)
        y = list(x)
        rng.shuffle(y)
        s2, p2 = metrics.cramer_von_mises_test(np.array(y))
        if not (abs(float(s2) - stat) <= 1e-12 * max(1, abs(stat)) and abs(float(p2) - p) <= 1e-9):
            fail(idx, "C10/cvm/order-dependent", f"CvM ({stat!r},{p!r}) becomes ({float(s2)!r},{float(p2)!r}) "
                 "after shuffling the sample", dict(replay, shuffled=y))
        # Anderson-Darling on the same sample
        cm.mark({"call": "metrics.anderson_darling_test", "data": x})
        try:
            a, pa = metrics.anderson_darling_test(arr.copy())
            a, pa = float(a), float(pa)
        except ValueError:
            a = pa = None
        areplay = {"call": "metrics.anderson_darling_test", "data": x, "stat": a, "pvalue": pa}
        aidx = None
        if n <= 60:
            aidx = add(f"CAdCheck {flist(x)} {cm.coq_bool(a is None)}", areplay, ("ad-ok", kind, min(n, 6)))
        else:
            ctx.count(("ad-oracle-only", kind))
        if a is None:
            fail(aidx, "C10/ad/valid-sample-rejected", f"anderson_darling_test raised on {n} values in (0,1)", areplay)
            continue
        if n <= 8 and len(e3_points) < e3_max and 1e-4 < min(x) and max(x) < 1 - 1e-4 \
                and _ad_branch_margins(n, a) and (1e-6 < pa < 1 - 1e-6 or pa in (0.0, 1.0)):
            e3_points.append((sorted(x), a, pa))
            e3_replays.append(areplay)
        wanta = ad_textbook(x)
        if not abs(a - wanta) <= 1e-9 * max(1.0, abs(wanta)):
            fail(aidx, "C10/ad/statistic", f"AD statistic {a!r}, textbook formula {wanta!r} (n={n})", areplay)
        if not (0.0 <= pa <= 1.0):
            fail(aidx, "C10/ad/pvalue-out-of-range", f"AD p-value {pa!r} (n={n}, statistic {a!r})", areplay)
        a2, pa2 = metrics.anderson_darling_test(np.array(y))
        if not (abs(float(a2) - a) <= 1e-12 * max(1, abs(a)) and abs(float(pa2) - pa) <= 1e-12):
            fail(aidx, "C10/ad/order-dependent", f"AD ({a!r},{pa!r}) becomes ({float(a2)!r},{float(pa2)!r}) "
                 "after shuffling the sample", dict(areplay, shuffled=y))
    # regular samples of every size (where the p-value approximation is at its edge)
    for n in range(1, ctx.scale(121, 401)):
        for x in ([(i + 0.5) / n for i in range(n)], [(i + 1.0) / (n + 1) for i in range(n)]):
            ctx.count(("ad-regular", min(n, 4)))
            try:
                a, pa = metrics.anderson_darling_test(np.array(x))
                a, pa = float(a), float(pa)
            except ValueError:
                fail(None, "C10/ad/valid-sample-rejected", f"anderson_darling_test raised on a regular sample n={n}",
                     {"call": "metrics.anderson_darling_test", "data": x})
                continue
            if not (0.0 <= pa <= 1.0):
                fail(None, "C10/ad/pvalue-out-of-range", f"AD p-value {pa!r} (regular sample, n={n}, statistic {a!r})",
                     {"call": "metrics.anderson_darling_test", "data": x, "stat": a, "pvalue": pa})
            s, p = metrics.cramer_von_mises_test(np.array(x))
            if not (0.0 <= float(p) <= 1.0):
                fail(None, "C10/cvm/pvalue-out-of-range", f"CvM p-value {float(p)!r} (regular sample, n={n})",
                     {"call": "metrics.cramer_von_mises_test", "data": x})
    # E3 always includes the ten mid-points (where the pinned p-value exceeds 1)
    x10 = [(i + 0.5) / 10 for i in range(10)]
    a10, p10 = metrics.anderson_darling_test(np.array(x10))
    e3_points.append((x10, float(a10), float(p10)))
    e3_replays.append({"call": "metrics.anderson_darling_test", "data": x10, "stat": float(a10),
                       "pvalue": float(p10)})
    # rejection by the Anderson-Darling test
    for it in range(ctx.scale(80, 600)):
        n = rng.choice([1, 2, 3, rng.randint(1, 40)])
        x, kind = gen_unit_sample(n)
        bad = rng.choice(["neg", "above", "nan", "negtiny", "abovetiny", "inf", "several"])
        pos = rng.randrange(n)
        if bad == "neg":
            x[pos] = -rng.random()
        elif bad == "above":
            x[pos] = 1.0 + rng.random()
        elif bad == "nan":
            x[pos] = float("nan")
        elif bad == "negtiny":
            x[pos] = -5e-324 if rng.random() < 0.5 else -1e-17
        elif bad == "abovetiny":
            x[pos] = 1.0000000000000002
        elif bad == "inf":
            x[pos] = rng.choice([float("inf"), float("-inf")])
        else:
            for _ in range(3):
                x[rng.randrange(n)] = rng.choice([float("nan"), -0.5, 1.5])
        cm.mark({"call": "metrics.anderson_darling_test", "data": x})
        try:
            with np.errstate(all="ignore"):
                r = metrics.anderson_darling_test(np.array(x))
            raised = False
        except ValueError:
            raised = True
        replay = {"call": "metrics.anderson_darling_test", "data": x, "raised": raised}
        idx = add(f"CAdCheck {flist(x)} {cm.coq_bool(raised)}", replay, ("ad-reject", bad, min(n, 4)))
        if not raised:
            fail(idx, "C10/ad/accepts-out-of-range",
                 f"anderson_darling_test accepted data outside [0,1] or NaN ({bad}) and returned {r}", replay)

    # ------------------------------------------------------------------
    # 5. alpha
    for it in range(ctx.scale(60, 600)):
        n = rng.choice([1, 2, 5, 10, rng.randint(1, 60)])
        m = rng.choice([1, 2, 5, rng.randint(1, 30)])
        step = 0.25
        style = rng.choice(["random", "reliable", "biased", "censored"])
        obs, ens = [], []
        for i in range(n):
            if style == "reliable":
                row = sorted(rng.sample(range(0, 4 * m + 4), m))
                row = [k * step for k in row]
                k = (i * (m + 1)) // max(n, 1) % (m + 1)
                o = (row[k - 1] + step / 2) if k > 0 else row[0] - step / 2
            elif style == "biased":
                row = [rng.randint(0, 20) * step for _ in range(m)]
                o = 30 * step
            elif style == "censored":
                row = [rng.choice([0, 0, 1, 2]) * step for _ in range(m)]
                o = rng.choice([0, 0, 1]) * step
            else:
                row = [rng.randint(-10, 10) * step for _ in range(m)]
                o = rng.randint(-10, 10) * step
            obs.append(o)
            ens.append(row)
        for typ in ("CV", "KS", "AD"):
            cm.mark({"call": "metrics.alpha", "obs": obs, "ens": ens, "type": typ})
            with Recorder(rng.randrange(2 ** 31)) as rec:
                try:
                    with np.errstate(all="ignore"):
                        st, pv, sudo = metrics.alpha(np.array(obs), np.array(ens).reshape(n, m), type=typ)
                    st, pv, sudo = float(st), float(pv), [bool(b) for b in sudo]
                    err = None
                except ValueError as e:
                    err = str(e)
            replay = {"call": "metrics.alpha", "obs": obs, "ens": ens, "type": typ}
            if err is not None:
                fail(None, f"C10/alpha/{typ}-raised", f"alpha(type={typ}) raised: {err}", replay)
                continue
            replay.update(stat=st, pvalue=pv)
            idx = None
            if typ == "CV":
                jit = rec.jitters(n, m)
                if jit is not None:
                    idx = add(f"CAlphaCV {flist(obs)} {fmat(ens)} {flist([float(v) for v in jit[0]])} "
                              f"{fmat([[float(v) for v in r] for r in jit[1]])} {fl(st)} {fl(pv)} {blist(sudo)}",
                              replay, ("alpha", style, min(n, 4), min(m, 3)))
            else:
                ctx.count(("alpha", typ, style))
            if not (0.0 <= pv <= 1.0):
                fail(idx, f"C10/alpha/{typ}-pvalue-out-of-range",
                     f"alpha(type={typ}) p-value {pv!r} (statistic {st!r}, {n} forecasts x {m} members)", replay)

    # ------------------------------------------------------------------
    bad, nshards, failed = cm.run_case_files(PID, HEADER, "dcase", "d_ok", terms, shard=60, max_bytes=200000)
    ctx.notes["correspondence_cases"] = len(terms)
    ctx.notes["correspondence_mismatches"] = len(bad)
    for k in range(nshards):
        ctx.obligation(f"Cases_{PID}_{k}.agree (model = implementation on the shard)", True)
    # E3: Anderson-Darling statistic and p-value against the real-number model
    e3_bad = []
    if proved:
        for k, ok, log in run_e3(e3_points):
            ctx.obligation(f"E3_C10_{k}: |ad_stat - A2| <= 1e-12, |ad_pvalue - p| <= 1e-9 (interval)", ok)
            ctx.count(("e3", len(e3_points[k][0])))
            if not ok:
                e3_bad.append((k, log))
    ctx.notes["e3_points"] = len(e3_points)
    ctx.notes["e3_failed"] = len(e3_bad)
    if e3_bad:
        k, log = e3_bad[0]
        out_of_range = not (0.0 <= e3_points[k][2] <= 1.0)
        ctx.failure("C10/correspondence-e3",
                    {"broken": "real-number model of AnDarl.c vs anderson_darling_test (interval)",
                     "n_failed": len(e3_bad), "first": e3_replays[k], "log": log},
                    f"the Anderson-Darling statistic / p-value of the implementation is not the model's "
                    f"on {len(e3_bad)} point(s)",
                    nofail=not (out_of_range or ctx.violation_count))
    cm.settle(ctx, proved, bad, failed, orc_fail, lambda i: replays[i],
              "Model/Dscore.v vs c_dscore.c / AnDarl.c / metrics.py")
    return ctx.finish()
