"""C10 - rank- and PIT-based forecast diagnostics depend only on ranks, stay in range."""
import math
import re
from fractions import Fraction as Fr

import numpy as np

from harness import common as cm

PID = "C10"
HEADER = ("From Coq Require Import ZArith List PrimFloat.\n"
          "From Hy Require Import Base.Num Gen.ConstsC10 Model.Dscore.")

CMP_TOL = 1e-8          # comparator tolerance of c_dscore.c (the model reads it from the source)


# ----------------------------------------------------------------------------
# Coq terms

def fl(x):
    return cm.coq_float(x)


def flist(xs):
    return cm.coq_flist(xs)


def fmat(rows):
    return "[" + "; ".join(flist(r) for r in rows) + "]"


def blist(bs):
    return "[" + "; ".join(cm.coq_bool(b) for b in bs) + "]"


# ----------------------------------------------------------------------------
# generators (inside the property's quantifier: finite values that are exactly
# tied or separated by much more than the tolerances)

def lattice_values(rng, count, step, lo, hi, ties):
    """`count` values k*step, k integer in [lo, hi]; `ties` in [0,1] shrinks the
    range of k so that equal values become frequent."""
    span = max(1, int((hi - lo) * (1.0 - ties)))
    base = rng.randint(lo, hi - span) if hi - span > lo else lo
    return [(base + rng.randint(0, span)) * step for _ in range(count)]


def gen_ensembles(rng, n, m, mode=None):
    """n ensembles of m members."""
    mode = mode or rng.choice(["ties", "ties", "heavy", "spread", "identical", "ordered", "blocks"])
    step = rng.choice([1.0, 0.5, 0.25, 0.125, 0.01])
    if mode == "heavy":
        sim = [[rng.randint(0, 2) * step for _ in range(m)] for _ in range(n)]
    elif mode == "ties":
        sim = [lattice_values(rng, m, step, -8, 8, rng.choice([0.0, 0.5])) for _ in range(n)]
    elif mode == "spread":
        ks = rng.sample(range(-4000, 4000), n * m)
        sim = [[ks[i * m + j] * step for j in range(m)] for i in range(n)]
    elif mode == "identical":
        base = lattice_values(rng, m, step, -5, 5, 0.3)
        sim = []
        for i in range(n):
            r = rng.random()
            if r < 0.6:
                row = list(base)
                rng.shuffle(row)
            else:
                row = lattice_values(rng, m, step, -5, 5, 0.3)
            sim.append(row)
    elif mode == "ordered":
        # ensembles completely separated from each other, in random order
        order = list(range(n))
        rng.shuffle(order)
        sim = [None] * n
        for pos, i in enumerate(order):
            sim[i] = [(pos * (m + 2) + rng.randint(0, m)) * step for _ in range(m)]
    else:  # blocks: two groups of ensembles sharing values
        sim = []
        for i in range(n):
            off = rng.choice([0, 0, 1, 3])
            sim.append([(off + rng.randint(0, 3)) * step for _ in range(m)])
    return sim, mode


def separated(values, tol):
    """every two values equal or farther apart than tol"""
    v = sorted(set(values))
    return all(b - a > tol for a, b in zip(v, v[1:]))


MAPS = {
    "exp": lambda v: math.exp(v / 8.0),
    "arctan": lambda v: math.atan(v / 4.0),
    "cubic": lambda v: v * v * v + v,
    "affine": lambda v: 3.5 * v - 7.25,
}


# ----------------------------------------------------------------------------
# independent oracles (exact rationals; no use of the Coq model)

def wm_F(e1, e2):
    """Weigel and Mason (2011), eq. (1) with mid-ranks = pairwise comparison."""
    m = len(e1)
    tot = Fr(0)
    for a in e1:
        fa = Fr(a)
        for b in e2:
            fb = Fr(b)
            if fa > fb:
                tot += 1
            elif fa == fb:
                tot += Fr(1, 2)
    return tot / (m * m)


def wm_ranks(sim):
    n = len(sim)
    F = {}
    ranks = [Fr(1)] * n
    for i in range(n):
        for j in range(n):
            if i == j:
                continue
            f = wm_F(sim[i], sim[j])
            F[(i, j)] = f
            ranks[i] += 1 if f > Fr(1, 2) else (Fr(1, 2) if f == Fr(1, 2) else 0)
    return F, ranks


def wm_ranks_fast(sim):
    """The same pairwise definition as wm_ranks for large sizes, counted on sorted copies (comparisons of
    binary64 values are exact): ({(i, j): 2 m^2 F_ij as an integer}, ranks)."""
    from bisect import bisect_left, bisect_right
    n, m = len(sim), len(sim[0])
    srt = [sorted(r) for r in sim]
    F2 = {}
    for i in range(n):
        for j in range(i + 1, n):
            sj = srt[j]
            tot2 = 0
            for a in sim[i]:
                lo, hi = bisect_left(sj, a), bisect_right(sj, a)
                tot2 += 2 * lo + (hi - lo)          # members of j below a count 1, equal to a count 1/2
            F2[(i, j)] = tot2
            F2[(j, i)] = 2 * m * m - tot2
    ranks = [Fr(1)] * n
    for (i, j), f2 in F2.items():
        ranks[i] += 1 if f2 > m * m else (Fr(1, 2) if f2 == m * m else 0)
    return F2, ranks


SMALL_SIZES = (1, 2, 3)
ENS_MODES = ["ties", "heavy", "spread", "identical", "ordered", "blocks"]


def cvm_exact(data):
    n = len(data)
    xs = sorted(Fr(x) for x in data)
    return Fr(1, 12 * n) + sum((Fr(2 * i - 1, 2 * n) - x) ** 2 for i, x in enumerate(xs, 1))


def ad_textbook(data):
    n = len(data)
    xs = sorted(data)
    terms = [(2 * i - 1) * (math.log(xs[i - 1]) + math.log1p(-xs[n - i])) for i in range(1, n + 1)]
    return -n - math.fsum(terms) / n


# ----------------------------------------------------------------------------
# every call of the implementation goes through `guarded`: an exception on an input inside the
# property's quantifier is a violation with a key of its own and the input in the replay
# (.../valid-input-rejected, .../valid-sample-rejected, .../<type>-raised), and the run continues

def guarded(f, *a, **k):
    """(result of f, None), or (None, 'ExceptionType: message') when the call raises"""
    try:
        with np.errstate(all="ignore"):
            return f(*a, **k), None
    except Exception as e:          # noqa: BLE001 - whatever the implementation raises
        return None, f"{type(e).__name__}: {str(e)[:160]}"


def two_floats(f, *a, **k):
    """the (statistic, p-value) pair returned by a uniformity test, as two Python floats"""
    s, p = f(*a, **k)
    return float(s), float(p)


# ----------------------------------------------------------------------------
# E3: the real-number model of the Anderson-Darling statistic / p-value against the
# implementation's output, one `interval` goal per point

def _ad_branch_margins(n, a):
    """Mirror of AnDarl.c (used ONLY to keep E3 points away from the branch
    thresholds of AD(n,z), where interval arithmetic cannot decide the branch)."""
    z = a
    if abs(z - 2.0) < 1e-2 or z <= 1e-3 or z > 30:
        return False
    if z < 2.0:
        x = math.exp(-1.2337141 / z) / math.sqrt(z) * (2.00012 + (.247105 - (.0649821 - (.0347962 - (
            .011672 - .00168691 * z) * z) * z) * z) * z)
    else:
        x = math.exp(-math.exp(1.0776 - (2.30695 - (.43424 - (.082433 - (.008056 - .0003146 * z) * z) * z) * z) * z))
    c = .01265 + .1757 / n
    if abs(x - 0.8) < 1e-3 or abs(x - c) < 1e-4 * 1 or x < 1e-12:
        return False
    return True


def _q(v):
    f = Fr(v)
    return f"({f.numerator} / {f.denominator})" if f.denominator != 1 else f"({f.numerator})"


E3_HEADER = ("From Coq Require Import Reals List ZArith.\nFrom Interval Require Import Tactic.\n"
             "From Hy Require Import Base.Num Gen.ConstsC10 Model.Dscore Proofs.DscoreADProofs.\n"
             "Import ListNotations. Open Scope R_scope.\n")


def e3_text(xs, a, p):
    ta = 1e-12 * max(1.0, abs(a))
    return (E3_HEADER +
            f"Example e3_stat : Rabs (ad_stat_sorted [{'; '.join(_q(v) for v in xs)}] - {_q(a)}) <= {_q(ta)}.\n"
            "Proof. ad_stat_e3. Qed.\n"
            f"Example e3_pvalue : forall z, {_q(a)} - {_q(ta)} <= z <= {_q(a)} + {_q(ta)} -> "
            f"Rabs (ad_pvalue {len(xs)} z - {_q(p)}) <= 1 / 1000000000.\n"
            "Proof. ad_pvalue_e3. Qed.\n")


def run_e3(points):
    """points: list of (sorted sample, statistic, p-value).  Returns list of (index, ok, log)."""
    from concurrent.futures import ThreadPoolExecutor
    d = cm.scratch() / "e3_C10"
    d.mkdir(exist_ok=True)
    files = []
    for k, (xs, a, p) in enumerate(points):
        f = d / f"E3_C10_{k}.v"
        f.write_text(e3_text(xs, a, p))
        files.append((k, f))

    def one(kf):
        k, f = kf
        rc, out = cm.coqc_file(f, timeout=600)
        return k, rc == 0, out[-1500:]
    with ThreadPoolExecutor(max_workers=cm.NCPU) as ex:
        return list(ex.map(one, files))


class Recorder:
    """Records the arrays numpy.random.uniform hands to metrics.pit (the jitter)."""

    def __init__(self, seed):
        self.state = np.random.RandomState(seed)
        self.calls = []

    def __enter__(self):
        self.orig = np.random.uniform
        rec = self

        def uniform(low=0.0, high=1.0, size=None):
            out = rec.state.uniform(low, high, size)
            rec.calls.append((float(low), float(high), np.array(out, copy=True)))
            return out
        np.random.uniform = uniform
        return self

    def __exit__(self, *a):
        np.random.uniform = self.orig

    def jitters(self, nforc, nens):
        """(dobs, dens) by shape; None when the calls are not the two expected ones."""
        dobs = [c for c in self.calls if c[2].shape == (nforc,)]
        dens = [c for c in self.calls if c[2].shape == (nforc, nens)]
        if len(dobs) != 1 or len(dens) != 1 or len(self.calls) != 2:
            return None
        return dobs[0][2], dens[0][2]


# ----------------------------------------------------------------------------
# stored representations and object histories
#
# The property quantifies over VALUES (forecasts, observations, samples, thresholds); how the
# caller holds them - dtype, byte order, memory layout, container, pandas index - and which
# calls were made before on the same objects or on the module are not part of it.  The classes
# below hold the same values another way / take caller-owned objects through sequences of
# calls and assert the clauses of the property (never more) on the values held.

INDEX_KINDS = ["default", "dates", "dates-tz", "dates-s", "text", "shuffled", "duplicates", "float"]

CAST_DTYPES = {"float32": np.float32, "float16": np.float16, "longdouble": np.longdouble,
               "bigendian": ">f8", "bigendian-f4": ">f4", "int64": np.int64, "int32": np.int32,
               "int16": np.int16, "bool": np.bool_, "object": object}

VEC_KINDS = (["strided", "reversed", "column-C", "column-F", "readonly", "offset", "masked", "list", "tuple",
              "list-np"] + list(CAST_DTYPES) + ["series:" + k for k in INDEX_KINDS])
# 2-D: kinds whose first axis is the slowest-varying one in memory ...
MAT_KINDS_C = (["wide-slice", "rows-strided", "reversed", "reversed-rows", "reversed-cols", "readonly", "offset",
                "masked", "nested-list", "tuple", "list-of-arrays"] + list(CAST_DTYPES))
# ... and kinds for which it is not (Fortran order, transposed views, DataFrames)
MAT_KINDS_F = ["fortran", "transposed-view", "fortran-slice", "fortran-float32", "fortran-readonly"] + \
              ["dataframe:" + k for k in INDEX_KINDS]


def make_index(rng, kind, n):
    import pandas as pd
    if kind == "dates":
        return pd.date_range("2001-01-01", periods=n, freq="D")[::-1]
    if kind == "dates-tz":
        return pd.date_range("2001-03-20", periods=n, freq="h", tz="Australia/Sydney")
    if kind == "dates-s":
        return pd.date_range("1999-12-31", periods=n, freq="MS").as_unit("s")
    if kind == "text":
        return pd.Index([f"s{(5 * i + 2) % (n + 3)}" for i in range(n)])
    if kind == "shuffled":
        ix = list(range(n))
        rng.shuffle(ix)
        return pd.Index(ix)
    if kind == "duplicates":
        return pd.Index([i // 2 for i in range(n)] if rng.random() < 0.5 else [0] * n)
    if kind == "float":
        return pd.Index([0.5 * i - 1.0 for i in range(n)])
    return None


def _cast(a, kind):
    """(array of dtype `kind`, float64 values it holds) or None when the dtype cannot hold finite values"""
    if kind in ("int64", "int32", "int16", "bool") and not bool(np.all(np.abs(a) < 3e4)):
        return None
    with np.errstate(all="ignore"):
        obj = a.astype(CAST_DTYPES[kind])
        held = np.array(obj, dtype=np.float64)
    if not bool(np.all(np.isfinite(held))):
        return None
    return obj, held


def vec_repr(rng, vals, kind):
    """the finite float64 vector `vals` held another way: (object, list of the values held) or None"""
    import pandas as pd
    a = np.array(vals, dtype=np.float64)
    n = len(a)
    same = [float(v) for v in a]
    if kind in CAST_DTYPES:
        r = _cast(a, kind)
        return None if r is None else (r[0], [float(v) for v in r[1]])
    if kind == "strided":
        k = rng.choice([2, 3, 7])
        big = np.full(n * k, rng.choice([1e300, -7.0, 0.5]))
        off = rng.randrange(k)
        big[off::k] = a
        return big[off::k], same
    if kind == "reversed":
        return np.ascontiguousarray(a[::-1])[::-1], same
    if kind in ("column-C", "column-F"):
        m = np.full((n, 3), rng.choice([-1e300, 3.0, 0.25]), order="C" if kind == "column-C" else "F")
        j = rng.randrange(3)
        m[:, j] = a
        return m[:, j], same
    if kind == "offset":
        big = np.full(n + 5, -3.0)
        big[2:2 + n] = a
        return big[2:2 + n], same
    if kind == "readonly":
        a.setflags(write=False)
        return a, same
    if kind == "masked":
        return np.ma.array(a), same
    if kind == "list":
        return same, same
    if kind == "tuple":
        return tuple(same), same
    if kind == "list-np":
        return list(a), same
    if kind.startswith("series:"):
        return pd.Series(a, index=make_index(rng, kind[7:], n), name=rng.choice([None, "q", 0])), same
    raise KeyError(kind)


def mat_repr(rng, rows, kind):
    """the finite n x p float64 table `rows` held another way: (object, rows held) or None"""
    import pandas as pd
    m = np.array(rows, dtype=np.float64)
    n, p = m.shape
    same = [[float(v) for v in r] for r in m]
    if kind in CAST_DTYPES:
        r = _cast(m, kind)
        return None if r is None else (r[0], [[float(v) for v in row] for row in r[1]])
    if kind == "wide-slice":
        w = np.full((n, p + 2), rng.choice([1e300, -2.0]))
        w[:, 1:p + 1] = m
        return w[:, 1:p + 1], same
    if kind == "rows-strided":
        w = np.full((2 * n, p), rng.choice([-5.0, 1e300]))
        w[::2] = m
        return w[::2], same
    if kind == "reversed":
        return np.ascontiguousarray(m[::-1, ::-1])[::-1, ::-1], same
    if kind == "reversed-rows":
        return np.ascontiguousarray(m[::-1])[::-1], same
    if kind == "reversed-cols":
        return np.ascontiguousarray(m[:, ::-1])[:, ::-1], same
    if kind == "offset":
        w = np.full((n + 3, p), 9.0)
        w[1:1 + n] = m
        return w[1:1 + n], same
    if kind == "readonly":
        m.setflags(write=False)
        return m, same
    if kind == "masked":
        return np.ma.array(m), same
    if kind == "nested-list":
        return same, same
    if kind == "tuple":
        return tuple(tuple(r) for r in same), same
    if kind == "list-of-arrays":
        return [np.array(r) for r in same], same
    if kind == "fortran":
        return np.asfortranarray(m), same
    if kind == "transposed-view":
        return np.ascontiguousarray(m.T).T, same
    if kind == "fortran-slice":
        w = np.full((n + 2, p + 1), -4.0, order="F")
        w[1:1 + n, :p] = m
        return w[1:1 + n, :p], same
    if kind == "fortran-float32":
        r = _cast(m, "float32")
        return None if r is None else (np.asfortranarray(r[0]), [[float(v) for v in row] for row in r[1]])
    if kind == "fortran-readonly":
        f = np.asfortranarray(m)
        f.setflags(write=False)
        return f, same
    if kind.startswith("dataframe:"):
        return pd.DataFrame(np.asfortranarray(m), index=make_index(rng, kind[10:], n),
                            columns=[f"m{j}" for j in range(p)]), same
    raise KeyError(kind)


def scalar_repr(rng, v):
    """the tolerance / plotting constant / threshold `v` as another scalar object holding the same
    binary64 value (numpy.float32 scalars are NOT in this class: see notes, float32 threshold)"""
    kind = rng.choice(["float", "np.float64", "0-d", "int"])
    if kind == "int" and float(v) == int(v):
        return int(v), "int"
    if kind == "np.float64":
        return np.float64(v), kind
    if kind == "0-d":
        return np.array(float(v)), "0-d array"
    return float(v), "float"


def d_exact(obs, sim, franks=None):
    """The score from the property's definition: (Pearson correlation of the observation ranks with
    the Weigel-Mason forecast ranks + 1) / 2.  None when it is not determined by the property: tied
    observations / tied single-member forecasts (argsort tie-breaking) or all forecasts tied (0/0)."""
    n, m = len(obs), len(sim[0])
    if len(set(obs)) < n:
        return None
    if m == 1:
        col = [r[0] for r in sim]
        if len(set(col)) < n:
            return None
        sc = sorted(col)
        fr = [Fr(sc.index(v)) for v in col]
    else:
        fr = franks if franks is not None else wm_ranks(sim)[1]
    so = sorted(obs)
    orr = [Fr(so.index(v)) for v in obs]
    mo, mf = sum(orr) / n, sum(fr) / n
    sxy = sum((a - mo) * (b - mf) for a, b in zip(orr, fr))
    sxx = sum((a - mo) ** 2 for a in orr)
    syy = sum((b - mf) ** 2 for b in fr)
    if sxx == 0 or syy == 0:
        return None
    return (float(sxy) / math.sqrt(float(sxx * syy)) + 1.0) / 2.0


class PitLadder:
    """PIT as a function of the number of members below the observation, pooled over calls with the
    same ensemble size and options: strictly increasing (equal counts -> equal values)."""

    def __init__(self):
        self.seen = {}

    def add(self, m, random, cst, count, p):
        """None, or a text when (count, p) contradicts an earlier pair"""
        d = self.seen.setdefault((m, bool(random), min(0.5, float(cst)) if random else None), {})
        for c2, p2 in d.items():
            if (c2 < count and not p2 < p) or (c2 > count and not p2 > p) or \
                    (c2 == count and abs(p2 - p) > 1e-12):
                return (f"{count} members below the observation -> PIT {p!r}, but {c2} members below -> "
                        f"PIT {p2!r} in an earlier call ({m} members, random={random})")
        d.setdefault(count, p)
        return None


def pit_clauses(obs, ens, censor, random, cst, out, ladder):
    """The clauses of the property on one result (pits, flags) of metrics.pit for the finite values
    `obs` / `ens`: (key suffix, text) of the first clause that fails, or None."""
    pits, sudo = out
    n, m = len(obs), len(ens[0])
    if len(pits) != n or len(sudo) != n:
        return "shape", f"{len(pits)} PIT values / {len(sudo)} flags for {n} valid forecasts"
    for i in range(n):
        p = pits[i]
        if not (0.0 <= p <= 1.0):
            return "out-of-range", (f"PIT={p!r} not in [0,1] (random={random}, obs={obs[i]}, members {ens[i]})")
        want = (obs[i] <= censor) and any(v <= censor for v in ens[i])
        if bool(sudo[i]) != want:
            return "pseudo-flag", (f"pseudo flag={bool(sudo[i])} but obs={obs[i]} and members {ens[i]} "
                                   f"with censor={censor}")
    if float(cst) > 0.5:
        return None
    for i in range(n):
        if any(v == obs[i] for v in ens[i]):
            continue
        msg = ladder.add(m, random, cst, sum(v < obs[i] for v in ens[i]), pits[i])
        if msg:
            return "not-increasing-in-count", msg
    return None


def representation_and_history_checks(ctx, metrics, c_hydrodiy_stat, fail, gen_unit_sample):
    """Section 6 of the check (see the comment above INDEX_KINDS)."""
    rng = ctx.rng
    # whatever the implementation raises (AssertionError of the kernel wrappers, ZeroDivisionError,
    # FloatingPointError, OverflowError, MemoryError ... included): judged at the call site, the run continues
    TOLERATED = (Exception,)
    notes = ctx.notes

    def note(name, example):
        d = notes.setdefault(name, {"count": 0, "first": example})
        d["count"] += 1

    def is_ndarray(x):
        return type(x) is np.ndarray

    def quiet(f, *a, **k):
        # numpy.random.uniform (the jitter of pit) is drawn from a seeded stream: the run is reproducible
        with Recorder(rng.randrange(2 ** 31)), np.errstate(all="ignore"):
            return f(*a, **k)

    def finite_unit(vals):
        return all(0.0 < v < 1.0 for v in vals)

    # --------------------------------------------------------------
    # 6.1 dscore: representations
    def judge_dscore(d, obs, sim):
        """(key suffix, text) or None: the clauses on the score `d` of the values obs / sim"""
        if len(sim[0]) > 1 and len(set(wm_ranks(sim)[1])) == 1:
            return None                      # all forecasts tied: 0/0
        want = d_exact(obs, sim)
        if not (0.0 <= d <= 1.0):
            return "out-of-range", f"dscore={d!r} not in [0,1]"
        if want is not None and not abs(d - want) <= 1e-9:
            return "not-the-rank-correlation", (f"dscore={d!r}, but (correlation of the observation ranks with the "
                                                f"Weigel-Mason forecast ranks + 1)/2 = {want!r}")
        return None

    def gen_dscore_values(n, m):
        if m == 1 and rng.random() < 0.6:
            sim = [[k * 0.5] for k in rng.sample(range(-50, 50), n)]
        else:
            sim, _ = gen_ensembles(rng, n, m)
        if rng.random() < 0.15:
            obs = [rng.randint(0, max(1, n // 2)) * 0.5 for _ in range(n)]
        else:
            obs = [k * 0.25 for k in rng.sample(range(-60, 60), n)]
        return obs, sim

    for it in range(ctx.scale(160, 1600)):
        n = rng.choice([2, 3, 4, 5, rng.randint(2, 8)])
        m = rng.choice([1, 2, 3, rng.randint(1, 6)])
        obs, sim = gen_dscore_values(n, m)
        eps = rng.choice([1e-6, 1e-6, 1e-8, 1e-4])
        ko = rng.choice(VEC_KINDS)
        ks = rng.choice(MAT_KINDS_C + MAT_KINDS_C + MAT_KINDS_F)
        ro, rs = vec_repr(rng, obs, ko), mat_repr(rng, sim, ks)
        if ro is None or rs is None:
            continue
        (oobj, oheld), (sobj, sheld) = ro, rs
        if not separated([v for r in sheld for v in r], 10 * max(eps, CMP_TOL)):
            continue
        eobj, ekind = scalar_repr(rng, eps)
        flike = ks in MAT_KINDS_F and n > 1 and m > 1
        replay = {"call": "metrics.dscore", "obs": oheld, "sim": sheld, "eps": eps, "obs_held_as": ko,
                  "sim_held_as": ks, "eps_held_as": ekind, "input_class": "stored representation"}
        cm.mark(replay)
        ctx.count(("repr-dscore", ko.split(":")[0], ks.split(":")[0], min(m, 2)))
        try:
            d = float(quiet(metrics.dscore, oobj, sobj, eps=eobj))
        except TOLERATED as e:
            if flike and isinstance(e, ValueError):
                # forecasts whose first axis is not the slowest-varying one in memory: the code under
                # test hands `astype(float64)` (which keeps the layout) to a kernel wrapper that wants
                # C order and raises.  Reported as a defect of the pinned tree; a RETURNED score is
                # judged like any other.
                note("dscore_raises_on_forecasts_not_in_C_order", dict(replay, error=str(e)[:120]))
            elif is_ndarray(oobj) and is_ndarray(sobj):
                fail(None, "C10/dscore/valid-input-rejected",
                     f"dscore raised {type(e).__name__}: {str(e)[:120]} with obs held as {ko} and the forecasts "
                     f"as {ks} ({n} forecasts x {m} members)", replay)
            else:
                note("dscore_raises_on_containers", dict(replay, error=f"{type(e).__name__}: {str(e)[:120]}"))
            continue
        bad = judge_dscore(d, oheld, sheld)
        if bad:
            fail(None, "C10/dscore/depends-on-stored-representation",
                 f"{bad[1]} with obs held as {ko} and the forecasts as {ks} ({bad[0]})", dict(replay, D=d))

    # --------------------------------------------------------------
    # 6.2 pit / alpha: representations
    def gen_pit_values(n, m, censor):
        step = rng.choice([1.0, 0.5, 0.25])
        obs, ens = [], []
        for i in range(n):
            kind = rng.choice(["mixed", "mixed", "censored", "allbelow", "allabove", "tiedobs"])
            o = censor + rng.randint(-3, 6) * step
            if kind == "censored":
                o = censor + rng.choice([0, 0, -1, -2]) * step
                row = [censor + rng.choice([0, 0, -1, 1, 2, 3]) * step for _ in range(m)]
            elif kind == "allbelow":
                row = [o - rng.randint(1, 5) * step for _ in range(m)]
            elif kind == "allabove":
                row = [o + rng.randint(1, 5) * step for _ in range(m)]
            elif kind == "tiedobs":
                row = [o + rng.choice([0, 0, -1, 1]) * step for _ in range(m)]
            else:
                row = [censor + rng.randint(-4, 8) * step for _ in range(m)]
            obs.append(o)
            ens.append(row)
        return obs, ens

    ladder = PitLadder()
    for it in range(ctx.scale(200, 2000)):
        n = rng.choice([1, 2, 3, rng.randint(1, 8)])
        m = rng.choice([1, 2, 3, 11, rng.randint(1, 24)])
        random = rng.random() < 0.5
        cst = rng.choice([0.3, 0.0, 0.5, 0.25, round(rng.uniform(0, 0.5), 3)])
        censor = rng.choice([0.0, 0.0, 1.0, -2.5, 10.0, 0.5])
        obs, ens = gen_pit_values(n, m, censor)
        ko = rng.choice(VEC_KINDS + (["column-vector"] if n > 1 else ["scalar", "np-scalar", "0-d"]))
        ke = rng.choice(MAT_KINDS_C + MAT_KINDS_F + (["flat-list", "flat-array"] if n == 1 else []))
        if ko == "column-vector":
            ro = (np.array(obs).reshape(n, 1), list(obs))
        elif ko == "scalar":
            ro = (float(obs[0]), list(obs))
        elif ko == "np-scalar":
            ro = (np.float64(obs[0]), list(obs))
        elif ko == "0-d":
            ro = (np.array(obs[0]), list(obs))
        else:
            ro = vec_repr(rng, obs, ko)
        if ke == "flat-list":
            re_ = (list(ens[0]), [list(ens[0])])
        elif ke == "flat-array":
            re_ = (np.array(ens[0]), [list(ens[0])])
        else:
            re_ = mat_repr(rng, ens, ke)
        if ro is None or re_ is None:
            continue
        (oobj, oheld), (eobj, eheld) = ro, re_
        cobj, ckind = scalar_repr(rng, censor)
        tobj, tkind = scalar_repr(rng, cst)
        use_alpha = rng.random() < 0.2
        replay = {"call": "metrics.alpha" if use_alpha else "metrics.pit", "obs": oheld, "ens": eheld,
                  "obs_held_as": ko, "ens_held_as": ke, "input_class": "stored representation"}
        ctx.count(("repr-alpha" if use_alpha else "repr-pit", ko.split(":")[0], ke.split(":")[0], random))
        both_nd = is_ndarray(oobj) and is_ndarray(eobj)
        if use_alpha:
            typ = rng.choice(["CV", "KS", "AD"])
            replay["type"] = typ
            cm.mark(replay)
            try:
                st, pv, sudo = quiet(metrics.alpha, oobj, eobj, type=typ)
                pv, sudo = float(pv), [bool(b) for b in sudo]
            except TOLERATED as e:
                if both_nd:
                    fail(None, f"C10/alpha/{typ}-raised", f"alpha(type={typ}) raised {type(e).__name__}: "
                         f"{str(e)[:120]} with obs held as {ko} and the ensembles as {ke}", replay)
                else:
                    note("alpha_raises_on_containers", dict(replay, error=f"{type(e).__name__}: {str(e)[:120]}"))
                continue
            replay.update(pvalue=pv, flags=sudo)
            if not (0.0 <= pv <= 1.0):
                fail(None, f"C10/alpha/{typ}-pvalue-out-of-range",
                     f"alpha(type={typ}) p-value {pv!r} with obs held as {ko} and the ensembles as {ke}", replay)
            want = [(o <= 0.0) and any(v <= 0.0 for v in row) for o, row in zip(oheld, eheld)]
            if sudo != want:
                fail(None, "C10/alpha/pseudo-flag",
                     f"alpha returns the pseudo flags {sudo}, but the observation and at least one member are at "
                     f"or below 0 for {want} (obs held as {ko}, ensembles as {ke})", replay)
            continue
        replay.update(random=random, cst=cst, censor=censor, cst_held_as=tkind, censor_held_as=ckind)
        cm.mark(replay)
        try:
            pits, sudo = quiet(metrics.pit, oobj, eobj, random=random, cst=tobj, censor=cobj)
            out = ([float(v) for v in pits], [bool(b) for b in sudo])
        except TOLERATED as e:
            if both_nd:
                fail(None, "C10/pit/valid-input-rejected",
                     f"pit raised {type(e).__name__}: {str(e)[:120]} with obs held as {ko} and the ensembles "
                     f"as {ke} (cst as {tkind}, censor as {ckind})", replay)
            else:
                note("pit_raises_on_containers", dict(replay, error=f"{type(e).__name__}: {str(e)[:120]}"))
            continue
        replay["result"] = out
        bad = pit_clauses(oheld, eheld, censor, random, cst, out, ladder)
        if bad:
            fail(None, "C10/pit/" + bad[0], f"{bad[1]} - obs held as {ko}, ensembles as {ke}, cst as {tkind}, "
                 f"censor as {ckind}", replay)

    # a threshold given as a numpy.float32 scalar: `censor + 1e-10` is then rounded to binary32
    # (NEP 50) and equals censor.  Recorded, not asserted: reported as a defect of the pinned tree.
    try:
        _, sd = metrics.pit(np.array([1.0]), np.array([[1.0, 2.0]]), censor=np.float32(1.0))
        if not bool(sd[0]):
            note("pit_pseudo_flag_missed_with_float32_threshold",
                 {"call": "metrics.pit", "obs": [1.0], "ens": [[1.0, 2.0]], "censor": "numpy.float32(1.0)",
                  "flags": [bool(sd[0])], "expected": [True]})
    except TOLERATED:
        pass

    # --------------------------------------------------------------
    # 6.3 uniformity statistics: representations
    UNIT_KINDS = [k for k in VEC_KINDS if k not in ("int64", "int32", "int16", "bool")]
    for it in range(ctx.scale(120, 1200)):
        n = rng.choice([1, 2, 3, 5, 10, rng.randint(1, 40), rng.randint(1, 150)])
        x, skind = gen_unit_sample(n)
        k = rng.choice(UNIT_KINDS + (["scalar", "0-d"] if n == 1 else []))
        if k == "scalar":
            r = (float(x[0]), list(x))
        elif k == "0-d":
            r = (np.array(x[0]), list(x))
        else:
            r = vec_repr(rng, x, k)
        if r is None or not finite_unit(r[1]):
            continue
        obj, held = r
        ctx.count(("repr-unif", k.split(":")[0], min(n, 4)))
        nd = is_ndarray(obj) and obj.ndim == 1
        if nd or k.startswith("series:"):
            replay = {"call": "metrics.cramer_von_mises_test", "data": held, "held_as": k,
                      "input_class": "stored representation"}
            cm.mark(replay)
            try:
                stat, p = quiet(metrics.cramer_von_mises_test, obj)
                stat, p = float(stat), float(p)
            except TOLERATED as e:
                if nd:
                    fail(None, "C10/cvm/valid-sample-rejected", f"cramer_von_mises_test raised {type(e).__name__}: "
                         f"{str(e)[:120]} on {n} values in (0,1) held as {k}", replay)
                else:
                    note("cvm_raises_on_containers", dict(replay, error=f"{type(e).__name__}: {str(e)[:120]}"))
                stat = None
            if stat is not None:
                replay.update(stat=stat, pvalue=p)
                want = cvm_exact(held)
                if not abs(Fr(stat) - want) <= Fr(1, 10 ** 9) * max(1, want):
                    fail(None, "C10/cvm/statistic", f"CvM statistic {stat!r}, textbook formula {float(want)!r} "
                         f"(n={n}, sample held as {k})", replay)
                if not (0.0 <= p <= 1.0):
                    fail(None, "C10/cvm/pvalue-out-of-range", f"CvM p-value {p!r} (n={n}, sample held as {k})", replay)
        replay = {"call": "metrics.anderson_darling_test", "data": held, "held_as": k,
                  "input_class": "stored representation"}
        cm.mark(replay)
        try:
            a, pa = quiet(metrics.anderson_darling_test, obj)
            a, pa = float(a), float(pa)
        except TOLERATED as e:
            if nd:
                fail(None, "C10/ad/valid-sample-rejected", f"anderson_darling_test raised {type(e).__name__}: "
                     f"{str(e)[:120]} on {n} values in (0,1) held as {k}", replay)
            else:
                note("ad_raises_on_containers", dict(replay, error=f"{type(e).__name__}: {str(e)[:120]}"))
            continue
        replay.update(stat=a, pvalue=pa)
        wanta = ad_textbook(held)
        if not abs(a - wanta) <= 1e-9 * max(1.0, abs(wanta)):
            fail(None, "C10/ad/statistic", f"AD statistic {a!r}, textbook formula {wanta!r} (n={n}, sample held "
                 f"as {k})", replay)
        if not (0.0 <= pa <= 1.0):
            fail(None, "C10/ad/pvalue-out-of-range", f"AD p-value {pa!r} (n={n}, sample held as {k})", replay)

    # --------------------------------------------------------------
    # 6.4 ensrank: output arrays that are not fresh zeros (any content, used before, twice)
    for it in range(ctx.scale(60, 600)):
        n = rng.choice([1, 2, 3, 4, rng.randint(2, 8)])
        m = rng.choice([1, 2, 3, rng.randint(1, 6)])
        fmat_out = np.array([[rng.choice([0.0, -3.0, 7.5, float("nan"), 1e300]) for _ in range(n)] for _ in range(n)])
        ranks_out = np.array([rng.choice([0.0, 1.0, -2.0, float("nan"), 55.0]) for _ in range(n)])
        hist = []
        for rep in range(rng.choice([1, 2, 3])):
            sim, mode = gen_ensembles(rng, n, m)
            eps = rng.choice([1e-6, 1e-8, 1e-4])
            holder = rng.choice(["fresh", "offset", "readonly"])
            sobj = mat_repr(rng, sim, holder)[0] if holder != "fresh" else np.array(sim, dtype=np.float64)
            hist.append({"eps": eps, "sim": sim, "sim_held_as": holder})
            replay = {"call": "c_hydrodiy_stat.ensrank", "calls_on_the_same_output_arrays": list(hist),
                      "output_arrays": "not zero before the first call",
                      "input_class": "output arrays with earlier content"}
            cm.mark(replay)
            ctx.count(("ensrank-dirty-outputs", min(n, 3), min(m, 3), rep, holder))
            try:
                code = int(c_hydrodiy_stat.ensrank(float(eps), sobj, fmat_out, ranks_out))
            except TOLERATED as e:
                fail(None, "C10/ensrank/valid-input-rejected", f"ensrank raised {type(e).__name__}: {str(e)[:120]} "
                     f"(forecasts held as {holder})", replay)
                break
            if code != 0:
                fail(None, "C10/ensrank/valid-input-rejected", f"ensrank returned {code} for eps={eps}, {n}x{m}", replay)
                break
            F, wr = wm_ranks(sim)
            got = [float(v) for v in ranks_out]
            if any(math.isnan(a) or Fr(a) != b for a, b in zip(got, wr)):
                fail(None, "C10/ensrank/ranks-not-weigel-mason",
                     f"ranks={got}, Weigel-Mason ranks={[float(v) for v in wr]} when the output arrays held other "
                     f"values before the call (call {rep + 1} on the same arrays, sim={sim})",
                     dict(replay, ranks=got))
                break
            badf = [(i, j) for i in range(n) for j in range(i + 1, n)
                    if math.isnan(float(fmat_out[i, j])) or abs(Fr(float(fmat_out[i, j])) - F[(i, j)]) > Fr(1, 10 ** 9)]
            if badf:
                i, j = badf[0]
                fail(None, "C10/ensrank/fmat-not-midrank",
                     f"fmat[{i},{j}]={float(fmat_out[i, j])!r}, pairwise mid-rank comparison gives "
                     f"{float(F[(i, j)])!r} when the output arrays held other values before the call "
                     f"(call {rep + 1} on the same arrays)", replay)
                break

    # --------------------------------------------------------------
    # 6.5 histories: caller-owned arrays through sequences of calls.  Every call is judged against
    # the values the caller has written (tracked here, never read back from the arrays); every array
    # RETURNED by the library must keep the values it was returned with, whatever is called later.
    def run_dscore_session(sid):
        n = rng.choice([2, 3, 4, 5, rng.randint(2, 8)])
        m = rng.choice([1, 2, 3, rng.randint(1, 6)])
        O, S = np.zeros(n), np.zeros((n, m))
        cur = {}
        hist = []

        def write_obs(vals, op):
            O[...] = vals
            cur["obs"] = [float(v) for v in vals]
            hist.append({"op": op, "obs": cur["obs"]})

        def write_sim(rows, op):
            S[...] = rows
            cur["sim"] = [[float(v) for v in r] for r in rows]
            hist.append({"op": op, "sim": cur["sim"]})

        def new_obs():
            return [k * 0.25 for k in rng.sample(range(-40, 40), n)]

        def new_sim():
            if m == 1:
                return [[k * 0.5] for k in rng.sample(range(-50, 50), n)]
            return gen_ensembles(rng, n, m)[0]

        def call(oobj, sobj, obs, sim, op):
            eps = rng.choice([1e-6, 1e-6, 1e-8])
            hist.append({"op": op, "eps": eps})
            replay = {"call": "metrics.dscore", "history_on_the_same_arrays": list(hist), "obs": obs, "sim": sim,
                      "eps": eps, "input_class": "object history"}
            cm.mark(replay)
            ctx.count(("history-dscore", op, min(n, 3), min(m, 2)))
            try:
                d = float(quiet(metrics.dscore, oobj, sobj, eps=eps))
            except TOLERATED as e:
                fail(None, "C10/dscore/valid-input-rejected", f"dscore raised {type(e).__name__}: {str(e)[:120]} "
                     f"at step {len(hist)} ({op}) of a sequence of calls on the same arrays", replay)
                return False
            hist[-1]["D"] = d
            bad = judge_dscore(d, obs, sim)
            if bad:
                fail(None, "C10/dscore/depends-on-call-history",
                     f"{bad[1]} at step {len(hist)} ({op}) of a sequence of calls and in-place updates on the same "
                     f"arrays ({bad[0]}; current obs={obs}, sim={sim})", dict(replay, D=d))
                return False
            return True

        write_obs(new_obs(), "write-obs")
        write_sim(new_sim(), "write-sim")
        if not call(O, S, cur["obs"], cur["sim"], "call"):
            return
        for step in range(rng.randint(3, 9)):
            op = rng.choice(["call", "write-obs", "reverse-obs", "swap-two-obs", "write-sim", "map-sim", "other-sim",
                             "other-obs", "views", "obs-as-forecast", "shuffle-members"])
            if op == "write-obs":
                write_obs(new_obs(), op)
            elif op == "reverse-obs":
                write_obs(cur["obs"][::-1], op)
            elif op == "swap-two-obs":
                v = list(cur["obs"])
                i, j = rng.sample(range(n), 2)
                v[i], v[j] = v[j], v[i]
                write_obs(v, op)
            elif op == "write-sim":
                write_sim(new_sim(), op)
            elif op == "map-sim":
                name = rng.choice(sorted(MAPS))
                try:
                    rows = [[MAPS[name](v) for v in r] for r in cur["sim"]]
                except OverflowError:
                    continue
                flat = [v for r in rows for v in r]
                if not all(math.isfinite(v) for v in flat) or not separated(flat, 1e-4) or \
                        len(set(flat)) != len(set(v for r in cur["sim"] for v in r)):
                    continue
                write_sim(rows, op + ":" + name)
            elif op == "shuffle-members":
                rows = [rng.sample(r, len(r)) for r in cur["sim"]]
                write_sim(rows, op)
            elif op == "other-sim":
                rows = new_sim()
                if not call(O, np.array(rows, dtype=np.float64), cur["obs"], rows, op):
                    return
                continue
            elif op == "other-obs":
                vals = new_obs()
                if not call(np.array(vals), S, vals, cur["sim"], op):
                    return
                continue
            elif op == "views":
                if not call(O[::-1], S[::-1], cur["obs"][::-1], cur["sim"][::-1], op):
                    return
                continue
            elif op == "obs-as-forecast":
                if not call(O, O.reshape(n, 1), cur["obs"], [[v] for v in cur["obs"]], op):
                    return
                continue
            if not call(O, S, cur["obs"], cur["sim"], "call-after-" + op if op != "call" else "call"):
                return

    for sid in range(ctx.scale(50, 500)):
        run_dscore_session(sid)

    def run_pit_session(sid):
        n = rng.choice([2, 3, 4, rng.randint(2, 8)])
        m = rng.choice([1, 2, 3, 11, rng.randint(2, 12)])
        O, E = np.zeros(n), np.zeros((n, m))
        cur = {"censor": 0.0}
        hist = []
        held = []            # (array returned by the library, copy at return time, text)
        lad = PitLadder()

        def write(op):
            cur["censor"] = rng.choice([0.0, 0.0, 1.0, -2.5, 0.5])
            obs, ens = gen_pit_values(n, m, cur["censor"])
            if op != "write-ens":
                O[...] = obs
                cur["obs"] = obs
            if op != "write-obs" or "ens" not in cur:
                E[...] = ens
                cur["ens"] = ens
            hist.append({"op": op, "obs": list(cur["obs"]), "ens": [list(r) for r in cur["ens"]]})

        def results_kept(op):
            for arr, snap, text in held:
                same = arr.shape == snap.shape and bool(np.all((arr == snap) | ((arr != arr) & (snap != snap))))
                if not same:
                    fail(None, "C10/sequence/result-changed-by-later-call",
                         f"{text} was returned as {snap.tolist()} and holds {arr.tolist()} after step {len(hist)} "
                         f"({op}) of the sequence: the values no longer belong to their forecasts",
                         {"history_on_the_same_arrays": list(hist), "returned": snap.tolist(),
                          "now": arr.tolist(), "input_class": "object history"})
                    return False
            return True

        write("write-both")
        for step in range(rng.randint(4, 11)):
            op = rng.choice(["pit", "pit", "pit-random", "pit-random", "alpha", "uniformity", "uniformity",
                             "write-obs", "write-ens", "write-both", "pit-views"])
            if op.startswith("write"):
                write(op)
                if not results_kept(op):
                    return
                continue
            ctx.count(("history-pit", op, min(n, 3), min(m, 3)))
            obs, ens, censor = cur["obs"], cur["ens"], cur["censor"]
            if op in ("pit", "pit-random", "pit-views"):
                random = op == "pit-random" or (op == "pit-views" and rng.random() < 0.5)
                cst = rng.choice([0.3, 0.0, 0.25, 0.5])
                oo, ee = (O[::-1], E[::-1]) if op == "pit-views" else (O, E)
                vo, ve = (obs[::-1], ens[::-1]) if op == "pit-views" else (obs, ens)
                hist.append({"op": op, "random": random, "cst": cst, "censor": censor})
                replay = {"call": "metrics.pit", "history_on_the_same_arrays": list(hist), "obs": vo, "ens": ve,
                          "random": random, "cst": cst, "censor": censor, "input_class": "object history"}
                cm.mark(replay)
                try:
                    pits, sudo = quiet(metrics.pit, oo, ee, random=random, cst=cst, censor=censor)
                    out = ([float(v) for v in pits], [bool(b) for b in sudo])
                except TOLERATED as e:
                    fail(None, "C10/pit/valid-input-rejected", f"pit raised {type(e).__name__}: {str(e)[:120]} at "
                         f"step {len(hist)} of a sequence of calls on the same arrays", replay)
                    return
                hist[-1]["result"] = out
                bad = pit_clauses(vo, ve, censor, random, cst, out, lad)
                if bad:
                    fail(None, "C10/pit/" + bad[0], f"{bad[1]} - at step {len(hist)} ({op}) of a sequence of calls "
                         "and in-place updates on the same arrays", dict(replay, result=out))
                    return
                if type(pits) is np.ndarray and type(sudo) is np.ndarray:
                    held.append((pits, np.array(pits, copy=True), f"the PIT array of step {len(hist)}"))
                    held.append((sudo, np.array(sudo, copy=True), f"the pseudo flags of step {len(hist)}"))
            elif op == "alpha":
                typ = rng.choice(["CV", "KS", "AD"])
                hist.append({"op": op, "type": typ})
                replay = {"call": "metrics.alpha", "history_on_the_same_arrays": list(hist), "obs": obs, "ens": ens,
                          "type": typ, "input_class": "object history"}
                cm.mark(replay)
                try:
                    st, pv, sudo = quiet(metrics.alpha, O, E, type=typ)
                    pv, flags = float(pv), [bool(b) for b in sudo]
                except TOLERATED as e:
                    fail(None, f"C10/alpha/{typ}-raised", f"alpha(type={typ}) raised {type(e).__name__}: "
                         f"{str(e)[:120]} at step {len(hist)} of a sequence of calls on the same arrays", replay)
                    return
                hist[-1]["result"] = [pv, flags]
                if not (0.0 <= pv <= 1.0):
                    fail(None, f"C10/alpha/{typ}-pvalue-out-of-range", f"alpha(type={typ}) p-value {pv!r} at step "
                         f"{len(hist)} of a sequence of calls on the same arrays", replay)
                    return
                want = [(o <= 0.0) and any(v <= 0.0 for v in row) for o, row in zip(obs, ens)]
                if flags != want:
                    fail(None, "C10/alpha/pseudo-flag",
                         f"alpha returns the pseudo flags {flags}, but the observation and at least one member are "
                         f"at or below 0 for {want} (step {len(hist)} of a sequence of calls on the same arrays)",
                         replay)
                    return
                if type(sudo) is np.ndarray:
                    held.append((sudo, np.array(sudo, copy=True), f"the pseudo flags of step {len(hist)} (alpha)"))
            else:
                # the uniformity statistics of a PIT array returned earlier, passed as it is
                cands = [(arr, snap, text) for arr, snap, text in held
                         if snap.dtype.kind == "f" and finite_unit(snap.tolist())]
                if not cands:
                    continue
                arr, snap, text = rng.choice(cands)
                vals = [float(v) for v in snap]
                which = rng.choice(["cvm", "ad", "ad"])
                hist.append({"op": which + " of " + text})
                replay = {"call": "metrics." + ("cramer_von_mises_test" if which == "cvm" else
                                                "anderson_darling_test"),
                          "history_on_the_same_arrays": list(hist), "data": vals, "input_class": "object history"}
                cm.mark(replay)
                try:
                    if which == "cvm":
                        stat, p = quiet(metrics.cramer_von_mises_test, arr)
                        want = float(cvm_exact(vals))
                    else:
                        stat, p = quiet(metrics.anderson_darling_test, arr)
                        want = ad_textbook(vals)
                    stat, p = float(stat), float(p)
                except TOLERATED as e:
                    fail(None, f"C10/{which}/valid-sample-rejected", f"{replay['call']} raised {type(e).__name__}: "
                         f"{str(e)[:120]} on {text} ({len(vals)} values in (0,1))", replay)
                    return
                if not abs(stat - want) <= 1e-9 * max(1.0, abs(want)):
                    fail(None, f"C10/{which}/statistic", f"{which} statistic {stat!r}, textbook formula {want!r} on "
                         f"{text}", dict(replay, stat=stat))
                    return
                if not (0.0 <= p <= 1.0):
                    fail(None, f"C10/{which}/pvalue-out-of-range", f"{which} p-value {p!r} on {text}", replay)
                    return
            if not results_kept(op):
                return

    for sid in range(ctx.scale(60, 600)):
        run_pit_session(sid)


def run(ctx):
    ctx.rule = (
        "one PRNG; ensrank/dscore: n 1..12 forecasts x m 1..8 members (thorough n..30, m..24) on lattices "
        "(steps 1..0.01) with heavy ties inside and across ensembles, identical / separated / block ensembles, "
        "eps 1e-9..1e-3, error codes; monotone maps exp/arctan/cubic/affine, member permutations; "
        "pit: 1..8 rows x 1..24 members, random False/True with recorded jitter, cst in [0,0.5] (and above the cap), "
        "censor thresholds with members at/below/above, NaN rows; CvM/AD: samples of 1..400 values in (0,1) "
        "(uniform, beta-like, regular grids, clustered, duplicates, shuffled), rejection of values outside [0,1] / NaN; "
        "alpha CV/KS/AD; stored representations of the same values for dscore / pit / alpha / CvM / AD (float16/32, "
        "long double, big-endian, int, bool, object dtypes; strided, negative-stride, offset, column, Fortran-order, "
        "transposed, read-only arrays; masked arrays, lists, tuples, 0-d arrays and scalars, Series / DataFrames with "
        "date (tz, unit s) / text / shuffled / duplicate / float indexes; eps / cst / censor as int, numpy.float64, "
        "0-d array): the score, PIT clauses and textbook statistics on the values held; ensrank with output arrays "
        "holding earlier content / used two or three times; histories of 4..12 steps on caller-owned arrays "
        "(calls in any order / twice / through reversed views / the observations as single-member forecasts, in-place "
        "rewrites between calls, returned PIT arrays passed on to the uniformity tests): every call judged on the "
        "values written, every returned array keeps its values; "
        "size classes on every run: 1,2,3 forecasts x 1,2,3 members (dscore 2,3,4) for ensrank / dscore / pit / alpha "
        "(obs also as an [n,1] column for n >= 2), samples of 1,2,3 values for CvM / AD, every bad value at every "
        "position of 1,2,3 (7, 32, ~80) values; large end: ensrank 150x1..2x1000, dscore 150x1..40x5, pit / alpha "
        "300x3, 2x400, 40x40, sample sizes at / between / past the columns of the CvM table; every call of the "
        "implementation guarded: an exception on an input inside the quantifier is a violation with its input; "
        "non-trivial = distinct (kind, size class, branch) signature")
    ctx.trusted = cm.STD_TRUST + [
        "glibc qsort is a stable merge sort (c_dscore.c relies on it); modelled as a stable insertion sort, "
        "identical on inputs for which the tolerance comparator is a total preorder (the property's hypothesis)",
        "numpy argsort/sort/sum/dot/interp/corrcoef, scipy percentileofscore/kstest: modelled by their documented "
        "formulas; quantities passing through numpy reductions are compared with tolerance 1e-12",
        "coq-interval (E3 check of the Anderson-Darling statistic and p-value against the real-number model)",
        "libm log/exp/sqrt within a few ulp",
    ]
    ctx.tested_not_proved = [
        "binary64 rounding of the real-number identities (F, D, CvM, AD statistics) - tested with exact rational / "
        "fsum oracles at 1e-9",
        "argsort tie-breaking for tied observations / tied single-member forecasts (numpy's unstable sort): only "
        "range and invariance are tested there",
        "Kolmogorov-Smirnov p-value of alpha(type='KS') comes from scipy: range tested",
        "np.interp on the shipped table stays in [0,1] in binary64 (proved over the reals; table range checked "
        "inside Coq by vm_compute)",
    ]
    # Proofs/DscoreADProofs.v (interval arithmetic: the pinned p-value exceeds 1; E3 tactics) is built as
    # an extra target: it is outside the closure of Props/C10.v (see the comment there)
    proved = cm.prove_with_kernels(ctx, ["c_ensrank"], extra_targets=["Proofs/DscoreADProofs.vo"])
    ctx.obligation("Proofs/DscoreADProofs.v:ad_pvalue_noclip_refuted (interval arithmetic; extra target, "
                   "compiled by coqc, outside the coqchk closure)", proved)
    cm.use_impl()
    import c_hydrodiy_stat
    from hydrodiy.stat import metrics

    rng = ctx.rng
    terms, replays = [], []
    orc_fail = set()
    thorough = ctx.thorough

    def add(term, replay, sig):
        terms.append(term)
        replays.append(replay)
        ctx.count(sig)
        if len(terms) % 97 == 1:
            ctx.sample(replay, limit=8)
        return len(terms) - 1

    def fail(idx, key, what, replay=None):
        if idx is not None:
            orc_fail.add(idx)
        ctx.failure(key, replay if replay is not None else replays[idx], what)

    # ------------------------------------------------------------------
    # 1. ensrank kernel: correspondence + Weigel-Mason oracle
    def call_ensrank(eps, sim):
        a = np.ascontiguousarray(np.array(sim, dtype=np.float64).reshape(len(sim), len(sim[0]) if sim else 0))
        n = a.shape[0]
        fm = np.zeros((n, n), dtype=np.float64)
        rk = np.zeros(n, dtype=np.float64)
        cm.mark({"call": "c_hydrodiy_stat.ensrank", "eps": eps, "sim": sim})
        code, err = guarded(lambda: int(c_hydrodiy_stat.ensrank(float(eps), a, fm, rk)))
        return code, fm, rk, err

    def do_ensrank(eps, sim, mode):
        n = len(sim)
        m = len(sim[0]) if sim else 0
        code, fm, rk, err = call_ensrank(eps, sim)
        if err is not None:
            # no return code: nothing to compare the model with
            rp = {"call": "c_hydrodiy_stat.ensrank", "eps": eps, "sim": sim, "raised": err}
            ctx.count(("ensrank-raises", min(n, 4), min(m, 4), mode))
            if not math.isnan(eps) and eps >= 1e-20 and n > 0 and m > 0:
                fail(None, "C10/ensrank/valid-input-rejected",
                     f"ensrank raised {err} for eps={eps}, {n} forecasts x {m} members", rp)
            else:
                ctx.notes.setdefault("ensrank_raises_outside_the_quantifier", []).append(rp)
            return
        fs = [float(fm[i, j]) for i in range(n) for j in range(i + 1, n)] if code == 0 else []
        ranks = [float(x) for x in rk] if code == 0 else []
        idx = add(f"CEns {fl(eps)} {fmat(sim)} {cm.coq_z(code)} {flist(fs)} {flist(ranks)}",
                  {"call": "c_hydrodiy_stat.ensrank", "eps": eps, "sim": sim, "code": code,
                   "fmat_upper": fs, "ranks": ranks},
                  ("ensrank", min(n, 4), min(m, 4), mode, code))
        if math.isnan(eps):
            return
        if code != 0 or n == 0 or m == 0:
            if eps >= 1e-20 and n > 0 and m > 0:
                fail(idx, "C10/ensrank/valid-input-rejected", f"ensrank returned {code} for eps={eps}, {n}x{m}")
            return
        F, wr = wm_ranks(sim)
        for i in range(n):
            for j in range(i + 1, n):
                if abs(Fr(float(fm[i, j])) - F[(i, j)]) > Fr(1, 10 ** 9):
                    fail(idx, "C10/ensrank/fmat-not-midrank",
                         f"fmat[{i},{j}]={float(fm[i, j])!r}, pairwise mid-rank comparison gives {float(F[(i, j)])!r} "
                         f"(ensembles {sim[i]} / {sim[j]}, eps={eps})")
                    return
        if any(Fr(float(a)) != b for a, b in zip(rk, wr)):
            fail(idx, "C10/ensrank/ranks-not-weigel-mason",
                 f"ranks={ranks}, Weigel-Mason ranks={[float(x) for x in wr]} (eps={eps}, sim={sim})")

    def do_large(m):
        """two ensembles of m members whose comparison is one half-step 1/(2 m^2) below a tie"""
        sim = [[0.0] * (m - 1) + [1.0], [0.0] * (m - 1) + [2.0]]
        code, fm, rk, err = call_ensrank(1e-6, sim)
        ctx.count(("ensrank-large-ensemble", m))
        rp = {"call": "c_hydrodiy_stat.ensrank", "eps": 1e-6, "m": m,
              "sim_recipe": "sim = [[0.0]*(m-1)+[1.0], [0.0]*(m-1)+[2.0]]"}
        if err is not None:
            fail(None, "C10/ensrank/valid-input-rejected", f"ensrank raised {err} for 2 forecasts x {m} members",
                 dict(rp, raised=err))
            return
        # exact pairwise comparison: the (m-1)^2 tied pairs count 1/2, the m-1 pairs (1 vs 0) count 1
        Fx = (Fr((m - 1) * (m - 1), 2) + (m - 1)) / (m * m)
        want = [Fr(1), Fr(2)]
        if code != 0 or abs(Fr(float(fm[0, 1])) - Fx) > Fr(1, 10 ** 12):
            fail(None, "C10/ensrank/fmat-not-midrank",
                 f"{m} members: return code {code}, fmat[0,1]={float(fm[0, 1])!r}, exact {float(Fx)!r}", rp)
        elif [Fr(float(v)) for v in rk] != want:
            key = "C10/ensrank/ranks-not-weigel-mason" + ("/ensemble-of-7072-or-more" if m >= 7072 else "")
            fail(None, key,
                 f"{m} members: ranks {[float(v) for v in rk]}, Weigel-Mason ranks {[float(v) for v in want]} "
                 f"(F = 1/2 - 1/(2 m^2) = {float(fm[0, 1])!r})", dict(rp, ranks=[float(v) for v in rk]))

    nmax, mmax = (30, 24) if thorough else (12, 8)

    # ------------------------------------------------------------------
    # 0. replays of the recorded (repaired) findings and of corpus/C10, first
    import json
    kf = cm.VERIF / "known_findings.d" / "C10.json"
    stored = [f["replay"] for f in json.loads(kf.read_text())["findings"]] if kf.exists() else []
    stored += cm.load_corpus(PID)
    for rp in stored:
        ctx.count(("stored-replay", rp.get("call")))
        try:
            call = rp["call"]
            if call == "c_hydrodiy_stat.ensrank" and "m" in rp:
                do_large(int(rp["m"]))
            elif call == "c_hydrodiy_stat.ensrank":
                do_ensrank(float(rp["eps"]), [[float(v) for v in r] for r in rp["sim"]], "stored")
            elif call == "metrics.anderson_darling_test":
                data = [float(v) for v in rp["data"]]
                if not all(0.0 < v < 1.0 for v in data):
                    continue
                r, err = guarded(two_floats, metrics.anderson_darling_test, np.array(data, dtype=np.float64))
                if err is not None:
                    fail(None, "C10/ad/valid-sample-rejected",
                         f"anderson_darling_test raised {err} on {len(data)} values in (0,1)", dict(rp, raised=err))
                elif not (0.0 <= r[1] <= 1.0):
                    fail(None, "C10/ad/pvalue-out-of-range",
                         f"AD p-value {r[1]!r} (n={len(data)}, statistic {r[0]!r})",
                         dict(rp, stat=r[0], pvalue=r[1]))
            elif call == "metrics.pit" and "obs" in rp:
                args = (np.array(rp["obs"], dtype=np.float64), np.array(rp["ens"], dtype=np.float64))
                opts = dict(random=bool(rp["random"]), cst=float(rp["cst"]), censor=float(rp["censor"]))
                r, err = guarded(lambda: [float(v) for v in metrics.pit(*args, **opts)[0]])
                if err is not None:
                    fail(None, "C10/pit/valid-input-rejected", f"pit raised {err} on valid data", dict(rp, raised=err))
                elif not all(0.0 <= v <= 1.0 for v in r):
                    fail(None, "C10/pit/out-of-range",
                         f"PIT={r!r} not in [0,1] (random={rp['random']}, {len(rp['ens'][0])} members)", rp)
            elif call == "metrics.dscore" and rp.get("map") in MAPS:
                obs = np.array(rp["obs"], dtype=np.float64)
                eps = float(rp["eps"])
                gs = [[MAPS[rp["map"]](float(v)) for v in row] for row in rp["sim"]]
                d1, err1 = guarded(lambda: float(metrics.dscore(obs, np.array(rp["sim"], dtype=np.float64), eps=eps)))
                d2, err2 = guarded(lambda: float(metrics.dscore(obs, np.array(gs, dtype=np.float64), eps=eps)))
                if err1 is not None or err2 is not None:
                    fail(None, "C10/dscore/valid-input-rejected", f"dscore raised {err1 or err2} on "
                         f"{len(rp['obs'])} forecasts x {len(rp['sim'][0])} members", dict(rp, raised=err1 or err2))
                elif not abs(d1 - d2) <= 1e-12:
                    fail(None, "C10/dscore/forecast-rescaling",
                         f"dscore changes from {d1!r} to {d2!r} under the increasing map {rp['map']} "
                         "of the forecasts", rp)
        except (KeyError, TypeError, ValueError, IndexError, OverflowError) as e:
            # a stored entry that is not in the expected format (the implementation is called through
            # `guarded`: what IT raises is reported above)
            ctx.notes.setdefault("stored_replay_errors", []).append(f"{rp.get('call')}: {type(e).__name__}: {e}")
    def ensrank_case(n, m, mode=None):
        sim, mode = gen_ensembles(rng, n, m, mode)
        eps = rng.choice([1e-6, 1e-6, 1e-9, 1e-8, 1e-4, 1e-3, 1e-19])
        r = rng.random()
        if r < 0.08:
            # a coarse tie tolerance on coarse data (lattice step 8)
            eps = rng.choice([2.0, 1.0, 1.5])
            sim = [[v * 800.0 for v in row] for row in sim]
            mode += "+eps>=1"
        elif r < 0.14:
            # large magnitudes (exact scaling: ties stay ties)
            sim = [[v * 2.0 ** 62 for v in row] for row in sim]
            mode += "+large"
        do_ensrank(eps, sim, mode)

    def ensrank_big(n, m):
        """the large end of the quantifier (many forecasts / many members): oracle only, the pairwise
        definition counted on sorted copies"""
        sim, mode = gen_ensembles(rng, n, m, rng.choice([k for k in ENS_MODES if k != "spread" or n * m <= 8000]))
        eps = rng.choice([1e-6, 1e-8, 1e-4])
        code, fm, rk, err = call_ensrank(eps, sim)
        ctx.count(("ensrank-big", n, m, mode))
        rp = {"call": "c_hydrodiy_stat.ensrank", "eps": eps, "sim": sim, "input_class": "large sizes"}
        if err is not None or code != 0:
            fail(None, "C10/ensrank/valid-input-rejected",
                 f"ensrank {'raised ' + err if err is not None else 'returned ' + str(code)} for eps={eps}, "
                 f"{n} forecasts x {m} members", dict(rp, raised=err, code=code))
            return
        F2, wr = wm_ranks_fast(sim)
        got = [float(v) for v in rk]
        for (i, j), f2 in F2.items():
            if i < j and not abs(Fr(float(fm[i, j])) - Fr(f2, 2 * m * m)) <= Fr(1, 10 ** 9):
                fail(None, "C10/ensrank/fmat-not-midrank",
                     f"fmat[{i},{j}]={float(fm[i, j])!r}, pairwise mid-rank comparison gives "
                     f"{float(Fr(f2, 2 * m * m))!r} ({n} forecasts x {m} members, eps={eps})", rp)
                return
        if any(math.isnan(a) or Fr(a) != b for a, b in zip(got, wr)):
            k = [i for i, (a, b) in enumerate(zip(got, wr)) if math.isnan(a) or Fr(a) != b][0]
            fail(None, "C10/ensrank/ranks-not-weigel-mason",
                 f"rank of forecast {k} = {got[k]!r}, Weigel-Mason rank {float(wr[k])!r} "
                 f"({n} forecasts x {m} members, eps={eps})", dict(rp, ranks=got))

    # the small end of the quantifier on every run: 1, 2, 3 forecasts x 1, 2, 3 members, every tie pattern
    for n in SMALL_SIZES:
        for m in SMALL_SIZES:
            for mode in ENS_MODES:
                for _ in range(ctx.scale(1, 4)):
                    ensrank_case(n, m, mode)
    for it in range(ctx.scale(260, 4000)):
        n = rng.choice([1, 2, 2, 3, 4, rng.randint(2, nmax)])
        m = rng.choice([1, 1, 2, 3, rng.randint(1, mmax)])
        ensrank_case(n, m)
    # the large end: many forecasts, many members (general tie patterns; do_large below is one recipe)
    for n, m in [(150, 1), (120, 2), (40, 7), (5, 129), (3, 300), (2, 1000)] + \
            ([(400, 2), (300, 1), (60, 16), (7, 500), (3, 3000), (2, 8000)] if thorough else []):
        ensrank_big(n, m)
    # very large ensembles: the smallest gap of F from 1/2 is 1/(2 m^2)
    # 46341 = first m with m*(m+1) > INT_MAX: an integer rank-sum formula overflows there (seeded C10-m1)
    for m in (7071, 7072, 9973, 46340, 46341, 65537):
        do_large(m)
    # error paths of the kernel
    for eps, sim in [(1e-21, [[1.0, 2.0], [2.0, 3.0]]), (0.0, [[1.0], [2.0]]), (-1.0, [[1.0], [2.0]]),
                     (1e-6, [[], [], []]), (1e-6, []), (float("nan"), [[1.0, 2.0], [0.0, 1.0]])]:
        do_ensrank(eps, sim, "error")

    # ------------------------------------------------------------------
    # 2. dscore: correspondence (distinct observations) + range / extremes / invariances
    def call_dscore(obs, sim, eps, why=""):
        """the score, or None (reported) when the implementation raises: every caller passes n >= 2
        forecasts of m >= 1 finite members, exactly tied or separated by more than the tolerance"""
        rp = {"call": "metrics.dscore", "obs": obs, "sim": sim, "eps": eps}
        cm.mark(rp)
        d, err = guarded(lambda: float(metrics.dscore(np.array(obs, dtype=np.float64),
                                                      np.array(sim, dtype=np.float64), eps=eps)))
        if err is not None:
            fail(None, "C10/dscore/valid-input-rejected",
                 f"dscore raised {err} on {len(sim)} forecasts x {len(sim[0])} members{why}", dict(rp, raised=err))
        return d

    def dscore_case(n, m, style=None):
        """style: None = drawn; "perfect" / "inverse" = forecasts ordering distinct observations perfectly /
        inversely; "plain" = distinct observations, forecasts as generated"""
        sim, mode = gen_ensembles(rng, n, m)
        tied_obs = rng.random() < 0.25 and style is None
        if tied_obs:
            obs = [rng.randint(0, max(1, n // 2)) * 0.5 for _ in range(n)]
        else:
            obs = [k * 0.25 for k in rng.sample(range(-max(60, n), max(60, n)), n)]
        eps = rng.choice([1e-6, 1e-6, 1e-8, 1e-4])
        single_tied = (m == 1 and len(set(r[0] for r in sim)) < n)
        if m == 1 and rng.random() < 0.5:
            # single-member forecasts without ties
            ks = rng.sample(range(-max(50, n), max(50, n)), n)
            sim = [[k * 0.5] for k in ks]
            single_tied = False
        extreme = None
        r = {None: rng.random(), "perfect": 0.05, "inverse": 0.15, "plain": 0.9}[style]
        if not tied_obs and r < 0.2:
            # forecasts ordering the observations perfectly / inversely
            sign = 1 if r < 0.1 else -1
            order = sorted(range(n), key=lambda i: sign * obs[i])
            sim = [None] * n
            for pos, i in enumerate(order):
                sim[i] = [(pos * (m + 1) + rng.randint(0, m)) * 0.5 for _ in range(m)]
            extreme = sign
            single_tied = False
        d = call_dscore(obs, sim, eps)
        if d is None:
            ctx.count(("dscore-raises", min(n, 4), min(m, 3), mode))
            return
        replay = {"call": "metrics.dscore", "obs": obs, "sim": sim, "eps": eps, "D": d}
        wr = wm_ranks(sim)[1] if m > 1 else None
        const = m > 1 and len(set(wr)) == 1    # every forecast gets the same rank: correlation undefined
        if not tied_obs and not single_tied:
            idx = add(f"CDscore {fl(eps)} {flist(obs)} {fmat(sim)} {fl(d)}", replay,
                      ("dscore", min(n, 4), min(m, 3), mode, extreme, const))
        else:
            idx = None
            ctx.count(("dscore-oracle-only", min(n, 4), min(m, 3), tied_obs, single_tied))
        if const:
            return              # all forecasts tied: the rank correlation is undefined (0/0)
        if not (0.0 <= d <= 1.0):
            fail(idx, "C10/dscore/out-of-range", f"dscore={d!r} not in [0,1] (obs={obs}, sim={sim})", replay)
            return
        # the score itself, where the property determines it (distinct observations, no tied
        # single-member forecasts): rank correlation with the Weigel-Mason ranks, exact rationals
        want = d_exact(obs, sim, wr)
        if want is not None and not abs(d - want) <= 1e-9:
            fail(idx, "C10/dscore/not-the-rank-correlation",
                 f"dscore={d!r}, but (correlation of the observation ranks with the Weigel-Mason forecast ranks "
                 f"+ 1)/2 = {want!r} ({n} forecasts x {m} members)", replay)
            return
        if extreme == 1 and abs(d - 1.0) > 1e-9:
            fail(idx, "C10/dscore/perfect-order-not-one", f"dscore={d!r} for perfectly ordered forecasts", replay)
        if extreme == -1 and abs(d) > 1e-9:
            fail(idx, "C10/dscore/inverse-order-not-zero", f"dscore={d!r} for inversely ordered forecasts", replay)
        # invariances
        allv = [v for row in sim for v in row]
        tol = 10 * max(eps, CMP_TOL)
        for name, g in MAPS.items():
            if rng.random() < 0.5:
                continue
            gs = [[g(v) for v in row] for row in sim]
            if separated([v for row in gs for v in row], tol) and \
                    len(set(v for row in gs for v in row)) == len(set(allv)):
                d2 = call_dscore(obs, gs, eps, f" (forecasts mapped by {name})")
                if d2 is not None and not abs(d2 - d) <= 1e-12:
                    fail(idx, "C10/dscore/forecast-rescaling",
                         f"dscore changes from {d!r} to {d2!r} under the increasing map {name} of the forecasts",
                         dict(replay, map=name))
            go = [g(v) for v in obs]
            if len(set(go)) == len(set(obs)):
                d3 = call_dscore(go, sim, eps, f" (observations mapped by {name})")
                if d3 is not None and not abs(d3 - d) <= 1e-12:
                    fail(idx, "C10/dscore/observation-rescaling",
                         f"dscore changes from {d!r} to {d3!r} under the increasing map {name} of the observations",
                         dict(replay, map=name))
        if m > 1:
            ps = []
            for row in sim:
                row = list(row)
                rng.shuffle(row)
                ps.append(row)
            d4 = call_dscore(obs, ps, eps, " (members permuted)")
            if d4 is not None and not abs(d4 - d) <= 1e-12:
                fail(idx, "C10/dscore/member-permutation",
                     f"dscore changes from {d!r} to {d4!r} when ensemble members are permuted",
                     dict(replay, permuted=ps))

    # the small end of the quantifier on every run: 2, 3, 4 forecasts x 1, 2, 3 members
    for n in (2, 3, 4):
        for m in SMALL_SIZES:
            for style in ("perfect", "inverse", "plain", "plain", None, None):
                for _ in range(ctx.scale(1, 4)):
                    dscore_case(n, m, style)
    for it in range(ctx.scale(220, 3500)):
        n = rng.choice([2, 2, 3, 4, 5, rng.randint(2, nmax)])
        m = rng.choice([1, 2, 3, rng.randint(1, mmax)])
        dscore_case(n, m)
    # the large end: many forecasts
    for n, m in [(60, 1), (150, 1), (100, 2), (40, 5)] + ([(400, 1), (300, 2), (80, 12)] if thorough else []):
        for style in ("perfect", "inverse", "plain", None):
            dscore_case(n, m, style)

    # ------------------------------------------------------------------
    # 3. pit: correspondence with recorded jitter + range / monotonicity / pseudo flag
    def call_pit(obs, ens, random, cst, censor, seed, obs_as_column=False):
        cm.mark({"call": "metrics.pit", "obs": obs, "ens": ens, "random": random, "cst": cst, "censor": censor})

        def once():
            o = np.array(obs, dtype=np.float64)
            pits, sudo = metrics.pit(o.reshape(len(obs), 1) if obs_as_column else o,
                                     np.array(ens, dtype=np.float64).reshape(len(obs), -1),
                                     random=random, cst=cst, censor=censor)
            return [float(x) for x in pits], [bool(x) for x in sudo]
        with Recorder(seed) as rec:
            out, err = guarded(once)
        rec.error = err
        return out, rec

    mpit = 24

    def pit_case(n, m, random, obs_as_column=False, invalid_rows=None):
        """invalid_rows = k: k of the n forecasts have a NaN observation or an all-NaN ensemble (they are
        skipped by the implementation: n - k forecasts are left)"""
        cst = rng.choice([0.3, 0.0, 0.5, 0.25, round(rng.uniform(0, 0.5), 3)])
        above_cap = rng.random() < 0.05
        if above_cap:
            cst = rng.choice([0.5000001, 0.8, 2.0])
        censor = rng.choice([0.0, 0.0, 1.0, -2.5, 10.0, 0.5])
        step = rng.choice([1.0, 0.5, 0.25])
        obs, ens = [], []
        for i in range(n):
            kind = rng.choice(["mixed", "mixed", "censored", "allbelow", "allabove", "tiedobs"])
            o = censor + rng.randint(-3, 6) * step
            if kind == "censored":
                o = censor + rng.choice([0, 0, -1, -2]) * step
                row = [censor + rng.choice([0, 0, -1, 1, 2, 3]) * step for _ in range(m)]
            elif kind == "allbelow":
                row = [o - rng.randint(1, 5) * step for _ in range(m)]
            elif kind == "allabove":
                row = [o + rng.randint(1, 5) * step for _ in range(m)]
            elif kind == "tiedobs":
                row = [o + rng.choice([0, 0, -1, 1]) * step for _ in range(m)]
            else:
                row = [censor + rng.randint(-4, 8) * step for _ in range(m)]
            obs.append(o)
            ens.append(row)
        nan_mode = rng.random() if invalid_rows is None else 1.0
        has_nan = False
        for i in rng.sample(range(n), invalid_rows or 0):
            if rng.random() < 0.5:
                obs[i] = float("nan")
            else:
                ens[i] = [float("nan")] * m
            has_nan = True
        if nan_mode < 0.08:
            obs[rng.randrange(n)] = float("nan")
            has_nan = True
        elif nan_mode < 0.14:
            ens[rng.randrange(n)] = [float("nan")] * m
            has_nan = True
        elif nan_mode < 0.18 and not random:
            ens[rng.randrange(n)][rng.randrange(m)] = float("nan")
            has_nan = True
        out, rec = call_pit(obs, ens, random, cst, censor, rng.randrange(2 ** 31), obs_as_column)
        valid = [i for i in range(n) if not math.isnan(obs[i]) and not all(math.isnan(v) for v in ens[i])]
        nforc = len(valid)
        dobs, dens = [], []
        if random and out is not None:
            jit = rec.jitters(nforc, m)
            if jit is None:
                # the implementation no longer draws its jitter with numpy.random.uniform in two calls:
                # the count formula cannot be replayed; the oracle below still applies
                jit = (np.zeros(nforc), np.zeros((nforc, m)))
                ctx.notes["pit_jitter_not_recorded"] = ctx.notes.get("pit_jitter_not_recorded", 0) + 1
                replay_only = True
            else:
                replay_only = False
            dobs, dens = [float(x) for x in jit[0]], [[float(x) for x in r] for r in jit[1]]
        else:
            replay_only = False
        replay = {"call": "metrics.pit", "obs": obs, "ens": ens, "random": random, "cst": cst,
                  "censor": censor, "result": out}
        if obs_as_column:
            replay["obs_held_as"] = f"[{n},1] column"
        res = "None" if out is None else f"(Some ({flist(out[0])}, {blist(out[1])}))"
        idx = None
        if n * m > 2000:
            ctx.count(("pit-oracle-only", random, n, m, has_nan, above_cap))     # too large a term for the model run
        elif not replay_only:
            idx = add(f"CPit {cm.coq_bool(random)} {fl(cst)} {fl(censor)} {flist(obs)} {fmat(ens)} "
                      f"{flist(dobs)} {fmat(dens)} {res}", replay,
                      ("pit", random, min(n, 3), min(m, 3), m in (11, 22), has_nan, above_cap, out is None,
                       cst in (0.0, 0.5)))
        if out is None:
            if nforc > 0:
                fail(idx, "C10/pit/valid-input-rejected",
                     f"pit raised {rec.error} on valid data ({nforc} valid forecasts x {m} members, random={random})",
                     dict(replay, raised=rec.error))
            return
        pits, sudo = out
        if len(pits) != nforc or len(sudo) != nforc:
            fail(idx, "C10/pit/shape", f"{len(pits)} PIT values / {len(sudo)} flags for {nforc} valid forecasts",
                 replay)
            return
        if above_cap:
            return
        for k, i in enumerate(valid):
            row = ens[i]
            if any(math.isnan(v) for v in row):
                continue
            p = pits[k]
            if not (0.0 <= p <= 1.0):
                fail(idx, "C10/pit/out-of-range",
                     f"PIT={p!r} not in [0,1] (random={random}, obs={obs[i]}, {m} members, "
                     f"{sum(v < obs[i] for v in row)} below)", dict(replay, row=i))
                break
            want = (obs[i] <= censor) and any(v <= censor for v in row)
            if sudo[k] != want:
                fail(idx, "C10/pit/pseudo-flag",
                     f"pseudo flag={sudo[k]} but obs={obs[i]} and members {row} with censor={censor}",
                     dict(replay, row=i))
                break
        # strict increase with the number of members below the observation (rows of this call
        # whose members all differ from the observation)
        clean = [(sum(v < obs[i] for v in ens[i]), pits[k]) for k, i in enumerate(valid)
                 if not any(math.isnan(v) or v == obs[i] for v in ens[i])]
        for (c1, p1) in clean:
            for (c2, p2) in clean:
                if c1 < c2 and not p1 < p2 or (c1 == c2 and p1 != p2):
                    fail(idx, "C10/pit/not-increasing-in-count",
                         f"{c1} members below -> PIT {p1!r}, {c2} members below -> PIT {p2!r} "
                         f"(random={random}, cst={cst}, {m} members)", replay)
                    break
            else:
                continue
            break
    # the small end of the quantifier on every run: 1, 2, 3 forecasts x 1, 2, 3 members, both options;
    # 2 and 3 forecasts also with the observations as an [n,1] column
    for n in SMALL_SIZES:
        for m in SMALL_SIZES:
            for random in (False, True):
                for col in ((False, True) if n > 1 else (False,)):
                    for _ in range(ctx.scale(2, 8)):
                        pit_case(n, m, random, col)
    # ... and 1, 2 forecasts LEFT once the forecasts without data are skipped
    for n, k in [(2, 1), (3, 2), (3, 1), (4, 3), (4, 2), (6, 5)]:
        for m in SMALL_SIZES:
            for random in (False, True):
                for _ in range(ctx.scale(1, 4)):
                    pit_case(n, m, random, rng.random() < 0.3, invalid_rows=k)
    for it in range(ctx.scale(260, 4000)):
        n = rng.choice([1, 2, 3, rng.randint(1, 8)])
        m = rng.choice([1, 2, 3, 11, 22, rng.randint(1, mpit)])
        pit_case(n, m, rng.random() < 0.5)
    # the large end: several hundred forecasts / members
    for n, m in [(300, 3), (2, 400), (40, 40)] + ([(1500, 5), (3, 3000), (250, 250)] if thorough else []):
        for random in (False, True):
            pit_case(n, m, random)
    # the whole ladder 0..m members below, for every m up to 60 (implementation only)
    for m in range(1, ctx.scale(41, 121)):
        for random in (False, True):
            cst = rng.choice([0.3, 0.0, 0.5])
            obs = [0.5] * (m + 1)
            ens = [[0.0] * k + [1.0] * (m - k) for k in range(m + 1)]
            out, rec = call_pit(obs, ens, random, cst, 0.0, 1)
            ctx.count(("pit-ladder", random, min(m, 3)))
            replay = {"call": "metrics.pit", "obs": obs, "ens": ens, "random": random, "cst": cst, "censor": 0.0}
            if out is None:
                fail(None, "C10/pit/valid-input-rejected",
                     f"pit raised {rec.error} on valid data ({m + 1} forecasts x {m} members, random={random})",
                     dict(replay, raised=rec.error))
                continue
            pits = out[0]
            if not all(0.0 <= p <= 1.0 for p in pits):
                k = [i for i, p in enumerate(pits) if not 0.0 <= p <= 1.0][0]
                fail(None, "C10/pit/out-of-range",
                     f"PIT={pits[k]!r} not in [0,1] (random={random}, {m} members, {k} below the observation)",
                     dict(replay, row=k, result=pits))
            elif not all(a < b for a, b in zip(pits, pits[1:])):
                fail(None, "C10/pit/not-increasing-in-count",
                     f"PIT ladder not strictly increasing for {m} members (random={random}): {pits}", replay)

    # ------------------------------------------------------------------
    # 4. uniformity statistics
    def gen_unit_sample(n):
        kind = rng.choice(["uniform", "uniform", "beta", "midpoints", "plotting", "cluster", "dups", "edge"])
        if kind == "uniform":
            x = [rng.random() for _ in range(n)]
        elif kind == "beta":
            a, b = rng.choice([(0.5, 0.5), (2, 5), (5, 1), (0.3, 3)])
            x = [rng.betavariate(a, b) for _ in range(n)]
        elif kind == "midpoints":
            x = [(i + 0.5) / n for i in range(n)]
            if rng.random() < 0.5:
                x = [min(max(v + rng.uniform(-0.2, 0.2) / n, 1e-9), 1 - 1e-9) for v in x]
        elif kind == "plotting":
            c = rng.choice([0.3, 0.0, 0.5])
            x = [(i + 1 - c) / (n + 1 - 2 * c) if c < 0.5 or n > 0 else 0.5 for i in range(n)]
            x = [(i + 0.5 - c) / (n + 1 - c) for i in range(1, n + 1)] if rng.random() < 0.5 else x
        elif kind == "cluster":
            c = rng.choice([0.5, 0.02, 0.98, 0.7])
            x = [min(max(c + rng.gauss(0, 0.01), 1e-6), 1 - 1e-6) for _ in range(n)]
        elif kind == "dups":
            vals = [rng.random() for _ in range(max(1, n // 3))]
            x = [rng.choice(vals) for _ in range(n)]
        else:
            x = [rng.choice([1e-12, 1e-6, 1 - 1e-9, rng.random()]) for _ in range(n)]
        x = [v for v in x if 0.0 < v < 1.0]
        while len(x) < n:
            x.append(rng.random())
        rng.shuffle(x)
        return x, kind

    nsamp_max = ctx.scale(400, 1200)
    e3_points, e3_replays, e3_max = [], [], ctx.scale(6, 40)
    table_ok, _ = guarded(lambda: bool(np.all((metrics.CVM_TABLE >= 0) & (metrics.CVM_TABLE <= 1))))
    ctx.notes["cvm_table_in_unit_interval"] = table_ok

    def call_unif(which, x):
        """((statistic, p-value), None) or (None, error text) of one uniformity test on the sample x"""
        name = "cramer_von_mises_test" if which == "cvm" else "anderson_darling_test"
        cm.mark({"call": "metrics." + name, "data": x})
        return guarded(two_floats, getattr(metrics, name), np.array(x, dtype=np.float64))

    def rejected_valid(which, x, err, idx=None, why=""):
        name = "cramer_von_mises_test" if which == "cvm" else "anderson_darling_test"
        fail(idx, f"C10/{which}/valid-sample-rejected",
             f"{name} raised {err} on {len(x)} value(s) in (0,1){why}",
             {"call": "metrics." + name, "data": x, "raised": err})

    def unif_case(n):
        x, kind = gen_unit_sample(n)
        y = list(x)
        rng.shuffle(y)
        r, err = call_unif("cvm", x)
        if err is not None:
            ctx.count(("cvm-raises", kind, min(n, 6)))
            rejected_valid("cvm", x, err)
        else:
            stat, p = r
            replay = {"call": "metrics.cramer_von_mises_test", "data": x, "stat": stat, "pvalue": p}
            idx = None
            if n <= ctx.scale(120, 400):
                idx = add(f"CCvm {flist(x)} {fl(stat)} {fl(p)}", replay, ("cvm", kind, min(n, 6), n > 50))
            else:
                ctx.count(("cvm-oracle-only", kind))
            want = cvm_exact(x)
            if not abs(Fr(stat) - want) <= Fr(1, 10 ** 9) * max(1, want):
                fail(idx, "C10/cvm/statistic", f"CvM statistic {stat!r}, textbook formula {float(want)!r} (n={n})",
                     replay)
            if not (0.0 <= p <= 1.0):
                fail(idx, "C10/cvm/pvalue-out-of-range", f"CvM p-value {p!r} (n={n}, statistic {stat!r})", replay)
            r2, err2 = call_unif("cvm", y)
            if err2 is not None:
                rejected_valid("cvm", y, err2, idx, " (the sample in another order)")
            elif not (abs(r2[0] - stat) <= 1e-12 * max(1, abs(stat)) and abs(r2[1] - p) <= 1e-9):
                fail(idx, "C10/cvm/order-dependent", f"CvM ({stat!r},{p!r}) becomes ({r2[0]!r},{r2[1]!r}) "
                     "after shuffling the sample", dict(replay, shuffled=y))
        # Anderson-Darling on the same sample
        r, err = call_unif("ad", x)
        a, pa = r if err is None else (None, None)
        areplay = {"call": "metrics.anderson_darling_test", "data": x, "stat": a, "pvalue": pa}
        aidx = None
        if n <= 60:
            aidx = add(f"CAdCheck {flist(x)} {cm.coq_bool(a is None)}", areplay, ("ad-ok", kind, min(n, 6)))
        else:
            ctx.count(("ad-oracle-only", kind))
        if a is None:
            rejected_valid("ad", x, err, aidx)
            return
        if n <= 8 and len(e3_points) < e3_max and 1e-4 < min(x) and max(x) < 1 - 1e-4 \
                and _ad_branch_margins(n, a) and (1e-6 < pa < 1 - 1e-6 or pa in (0.0, 1.0)):
            e3_points.append((sorted(x), a, pa))
            e3_replays.append(areplay)
        wanta = ad_textbook(x)
        if not abs(a - wanta) <= 1e-9 * max(1.0, abs(wanta)):
            fail(aidx, "C10/ad/statistic", f"AD statistic {a!r}, textbook formula {wanta!r} (n={n})", areplay)
        if not (0.0 <= pa <= 1.0):
            fail(aidx, "C10/ad/pvalue-out-of-range", f"AD p-value {pa!r} (n={n}, statistic {a!r})", areplay)
        r2, err2 = call_unif("ad", y)
        if err2 is not None:
            rejected_valid("ad", y, err2, aidx, " (the sample in another order)")
        elif not (abs(r2[0] - a) <= 1e-12 * max(1, abs(a)) and abs(r2[1] - pa) <= 1e-12):
            fail(aidx, "C10/ad/order-dependent", f"AD ({a!r},{pa!r}) becomes ({r2[0]!r},{r2[1]!r}) "
                 "after shuffling the sample", dict(areplay, shuffled=y))
    # the small end of the quantifier on every run: samples of 1, 2, 3 values (every kind of sample is drawn)
    for n in SMALL_SIZES:
        for _ in range(ctx.scale(10, 40)):
            unif_case(n)
    for it in range(ctx.scale(150, 1500)):
        unif_case(rng.choice([1, 2, 3, 5, 10, 12, 55, rng.randint(1, 40), rng.randint(1, nsamp_max)]))
    # sizes at and between the columns of the table of p-values (the column nearest to n is used; two
    # columns are equally near at 55, 65, ..., 625, ...), past its last column, and the large end
    nsample = [int(v) for v in getattr(metrics, "CVM_NSAMPLE", [])] or [5, 1050]
    edges = {nsample[0] - 1, nsample[0], nsample[-1], nsample[-1] + 1, nsample[-1] + 250}
    for a, b in zip(nsample, nsample[1:]):
        edges.update({(a + b) // 2, (a + b) // 2 + 1})
    edges = sorted(v for v in edges if v >= 1)
    for n in (edges if thorough else rng.sample(edges, 12) + [4, 55, 625, nsample[-1] + 1, nsample[-1] + 250]):
        unif_case(n)
    # regular samples of every size (where the p-value approximation is at its edge)
    for n in range(1, ctx.scale(121, 401)):
        for x in ([(i + 0.5) / n for i in range(n)], [(i + 1.0) / (n + 1) for i in range(n)]):
            ctx.count(("ad-regular", min(n, 4)))
            r, err = call_unif("ad", x)
            if err is not None:
                rejected_valid("ad", x, err, None, " (regular sample)")
            elif not (0.0 <= r[1] <= 1.0):
                fail(None, "C10/ad/pvalue-out-of-range",
                     f"AD p-value {r[1]!r} (regular sample, n={n}, statistic {r[0]!r})",
                     {"call": "metrics.anderson_darling_test", "data": x, "stat": r[0], "pvalue": r[1]})
            r, err = call_unif("cvm", x)
            if err is not None:
                rejected_valid("cvm", x, err, None, " (regular sample)")
            elif not (0.0 <= r[1] <= 1.0):
                fail(None, "C10/cvm/pvalue-out-of-range", f"CvM p-value {r[1]!r} (regular sample, n={n})",
                     {"call": "metrics.cramer_von_mises_test", "data": x})
    # E3 always includes the ten mid-points (where the pinned p-value exceeds 1)
    x10 = [(i + 0.5) / 10 for i in range(10)]
    r, err = call_unif("ad", x10)
    if err is not None:
        rejected_valid("ad", x10, err, None, " (the ten mid-points)")
    else:
        e3_points.append((x10, r[0], r[1]))
        e3_replays.append({"call": "metrics.anderson_darling_test", "data": x10, "stat": r[0], "pvalue": r[1]})
    # rejection by the Anderson-Darling test
    BAD_KINDS = ["neg", "above", "nan", "negtiny", "abovetiny", "inf", "several"]

    def reject_case(n, bad, pos, model=True):
        x, kind = gen_unit_sample(n)
        if bad == "neg":
            x[pos] = -rng.random()
        elif bad == "above":
            x[pos] = 1.0 + rng.random()
        elif bad == "nan":
            x[pos] = float("nan")
        elif bad == "negtiny":
            x[pos] = -5e-324 if rng.random() < 0.5 else -1e-17
        elif bad == "abovetiny":
            x[pos] = 1.0000000000000002
        elif bad == "inf":
            x[pos] = rng.choice([float("inf"), float("-inf")])
        else:
            for _ in range(3):
                x[rng.randrange(n)] = rng.choice([float("nan"), -0.5, 1.5])
        cm.mark({"call": "metrics.anderson_darling_test", "data": x})
        # rejected = the call raises (whatever the exception type)
        r, err = guarded(metrics.anderson_darling_test, np.array(x))
        raised = err is not None
        replay = {"call": "metrics.anderson_darling_test", "data": x, "raised": raised, "error": err}
        idx = None
        if model:
            idx = add(f"CAdCheck {flist(x)} {cm.coq_bool(raised)}", replay, ("ad-reject", bad, min(n, 4)))
        else:
            ctx.count(("ad-reject-oracle-only", bad, n, pos in (0, n - 1)))
        if not raised:
            fail(idx, "C10/ad/accepts-out-of-range",
                 f"anderson_darling_test accepted data outside [0,1] or NaN ({bad} at position {pos} of {n} "
                 f"values) and returned {r}", replay)

    # the small end on every run: samples of 1, 2, 3 values, every kind of bad value at every position
    for n in SMALL_SIZES:
        for bad in BAD_KINDS:
            for pos in range(n):
                reject_case(n, bad, pos)
    for it in range(ctx.scale(80, 600)):
        n = rng.choice([1, 2, 3, rng.randint(1, 40)])
        reject_case(n, rng.choice(BAD_KINDS), rng.randrange(n))
    # every position of the bad value in larger samples (the sample is sorted by the implementation before
    # it is examined: where a NaN / an outlier ends up depends on where it started)
    for n in [7, 32] + ([100, 400] if thorough else [rng.randint(40, 120)]):
        for bad in ("nan", "neg", "above", "negtiny", "abovetiny", "inf"):
            for pos in range(n):
                reject_case(n, bad, pos, model=False)

    # ------------------------------------------------------------------
    # 5. alpha
    def alpha_case(n, m, obs_as_column=False):
        step = 0.25
        style = rng.choice(["random", "reliable", "biased", "censored"])
        obs, ens = [], []
        for i in range(n):
            if style == "reliable":
                row = sorted(rng.sample(range(0, 4 * m + 4), m))
                row = [k * step for k in row]
                k = (i * (m + 1)) // max(n, 1) % (m + 1)
                o = (row[k - 1] + step / 2) if k > 0 else row[0] - step / 2
            elif style == "biased":
                row = [rng.randint(0, 20) * step for _ in range(m)]
                o = 30 * step
            elif style == "censored":
                row = [rng.choice([0, 0, 1, 2]) * step for _ in range(m)]
                o = rng.choice([0, 0, 1]) * step
            else:
                row = [rng.randint(-10, 10) * step for _ in range(m)]
                o = rng.randint(-10, 10) * step
            obs.append(o)
            ens.append(row)
        for typ in ("CV", "KS", "AD"):
            cm.mark({"call": "metrics.alpha", "obs": obs, "ens": ens, "type": typ})

            def once():
                o = np.array(obs, dtype=np.float64)
                st, pv, sudo = metrics.alpha(o.reshape(n, 1) if obs_as_column else o,
                                             np.array(ens, dtype=np.float64).reshape(n, m), type=typ)
                return float(st), float(pv), [bool(b) for b in sudo]
            with Recorder(rng.randrange(2 ** 31)) as rec:
                r, err = guarded(once)
            replay = {"call": "metrics.alpha", "obs": obs, "ens": ens, "type": typ}
            if obs_as_column:
                replay["obs_held_as"] = f"[{n},1] column"
            if err is not None:
                fail(None, f"C10/alpha/{typ}-raised",
                     f"alpha(type={typ}) raised {err} on {n} forecasts x {m} members", dict(replay, raised=err))
                continue
            st, pv, sudo = r
            replay.update(stat=st, pvalue=pv)
            idx = None
            if typ == "CV" and n * m <= 2000:
                jit = rec.jitters(n, m)
                if jit is not None:
                    idx = add(f"CAlphaCV {flist(obs)} {fmat(ens)} {flist([float(v) for v in jit[0]])} "
                              f"{fmat([[float(v) for v in r] for r in jit[1]])} {fl(st)} {fl(pv)} {blist(sudo)}",
                              replay, ("alpha", style, min(n, 4), min(m, 3)))
            else:
                ctx.count(("alpha", typ, style))
            if not (0.0 <= pv <= 1.0):
                fail(idx, f"C10/alpha/{typ}-pvalue-out-of-range",
                     f"alpha(type={typ}) p-value {pv!r} (statistic {st!r}, {n} forecasts x {m} members)", replay)
            want = [(o <= 0.0) and any(v <= 0.0 for v in row) for o, row in zip(obs, ens)]
            if sudo != want:
                fail(idx, "C10/alpha/pseudo-flag",
                     f"alpha(type={typ}) returns the pseudo flags {sudo}, but the observation and at least one "
                     f"member are at or below 0 for {want} ({n} forecasts x {m} members)", dict(replay, flags=sudo))

    # the small end of the quantifier on every run: 1, 2, 3 forecasts x 1, 2, 3 members, the three tests;
    # 2 and 3 forecasts also with the observations as an [n,1] column
    for n in SMALL_SIZES:
        for m in SMALL_SIZES:
            for col in ((False, True) if n > 1 else (False,)):
                for _ in range(ctx.scale(2, 8)):
                    alpha_case(n, m, col)
    for it in range(ctx.scale(60, 600)):
        n = rng.choice([1, 2, 5, 10, rng.randint(1, 60)])
        m = rng.choice([1, 2, 5, rng.randint(1, 30)])
        alpha_case(n, m)
    # the large end: several hundred forecasts (past the last column of the table of p-values in the thorough tier)
    for n, m in [(300, 3), (625, 1), (40, 40)] + ([(1051, 2), (2000, 1), (200, 200)] if thorough else []):
        alpha_case(n, m)

    # Observed, NOT asserted: shapes that the docstrings admit ("[n] or [n,1]", "[n], [n,1] or [n,p]") but
    # the property's text (values; n >= 2 forecasts) does not speak of.  What the implementation does with
    # them is recorded in the evidence.
    o3, s3 = np.array([1.0, 3.0, 2.0]), np.array([[1.0, 2.0], [3.0, 4.0], [2.0, 3.0]])
    for name, call in [
            ("dscore(obs [n,1], sim [n,p])", lambda: float(metrics.dscore(o3.reshape(3, 1), s3))),
            ("dscore(obs [n], sim [n])", lambda: float(metrics.dscore(o3, o3.copy()))),
            ("pit(obs [1,1], ens [1,p])", lambda: [float(v) for v in metrics.pit(np.array([[1.0]]),
                                                                                  np.array([[0.0, 2.0]]))[0]]),
            ("alpha(obs [1,1], ens [1,p])", lambda: float(metrics.alpha(np.array([[1.0]]),
                                                                        np.array([[0.0, 2.0]]))[1]))]:
        r, err = guarded(call)
        if err is not None or (isinstance(r, float) and math.isnan(r)):
            ctx.notes.setdefault("documented_shapes_not_handled", {})[name] = err if err is not None else repr(r)

    # ------------------------------------------------------------------
    # 6. stored representations of the inputs and histories of caller-owned objects
    representation_and_history_checks(ctx, metrics, c_hydrodiy_stat, fail, gen_unit_sample)

    # ------------------------------------------------------------------
    bad, nshards, failed = cm.run_case_files(PID, HEADER, "dcase", "d_ok", terms, shard=60, max_bytes=200000)
    ctx.notes["correspondence_cases"] = len(terms)
    ctx.notes["correspondence_mismatches"] = len(bad)
    for k in range(nshards):
        ctx.obligation(f"Cases_{PID}_{k}.agree (model = implementation on the shard)", True)
    # E3: Anderson-Darling statistic and p-value against the real-number model
    e3_bad = []
    if proved:
        for k, ok, log in run_e3(e3_points):
            ctx.obligation(f"E3_C10_{k}: |ad_stat - A2| <= 1e-12, |ad_pvalue - p| <= 1e-9 (interval)", ok)
            ctx.count(("e3", len(e3_points[k][0])))
            if not ok:
                e3_bad.append((k, log))
    ctx.notes["e3_points"] = len(e3_points)
    ctx.notes["e3_failed"] = len(e3_bad)
    if e3_bad:
        k, log = e3_bad[0]
        out_of_range = not (0.0 <= e3_points[k][2] <= 1.0)
        ctx.failure("C10/correspondence-e3",
                    {"broken": "real-number model of AnDarl.c vs anderson_darling_test (interval)",
                     "n_failed": len(e3_bad), "first": e3_replays[k], "log": log},
                    f"the Anderson-Darling statistic / p-value of the implementation is not the model's "
                    f"on {len(e3_bad)} point(s)",
                    nofail=not (out_of_range or ctx.violation_count))
    cm.settle(ctx, proved, bad, failed, orc_fail, lambda i: replays[i],
              "Model/Dscore.v vs c_dscore.c / AnDarl.c / metrics.py")
    return ctx.finish()
