"""C16 - catchment/grid intersection weights and Voronoi weights conserve area."""
import math
from fractions import Fraction as Fr

import numpy as np

from harness import common as cm

PID = "C16"
HEADER = ("From Coq Require Import ZArith List PrimFloat.\n"
          "From Hy Require Import Base.Num Model.Grid Model.Intersect.")

NSESS_QUICK = 60     # operation sequences in the quick tier
EDGE = 1e-9          # a centre closer than this (in coarse cells) to a cell edge may go either side
WTOL = 1e-12         # relative tolerance per accumulated addition on a weight


# ----------------------------------------------------------------------------
# implementation side

def mkgrid(nrows, ncols, xll, yll, csz, dtype=np.float64):
    from hydrodiy.gis.grid import Grid
    return Grid("g", ncols, nrows, cellsize=csz, xllcorner=xll, yllcorner=yll, dtype=dtype)


def mkcatchment(case):
    """Catchment on the fine grid whose area / filled area are the given cell lists
    (public constructor Catchment.from_dict)."""
    from hydrodiy.gis.grid import Catchment
    g = mkgrid(case["nr_a"], case["nc_a"], case["xll_a"], case["yll_a"], case["csz_a"], dtype=np.int64)
    dic = {"name": "c", "flowdir": g.to_dict(), "idxcell_outlet": None, "idxinlets": None,
           "idxcells_area": list(case["cells"]), "idxcells_area_filled": list(case.get("cellsf", case["cells"]))}
    return Catchment.from_dict(dic)


def extract_result(ag, idx, w):
    """The values of a result (area_grid, idxcells, weights) of Catchment.intersect, as plain Python."""
    data = np.asarray(ag.data, dtype=np.float64)
    return {"idx": [int(v) for v in idx], "w": [float(v) for v in w],
            "rc": [int(ag.parentgrid_rows_start), int(ag.parentgrid_rows_end),
                   int(ag.parentgrid_cols_start), int(ag.parentgrid_cols_end)],
            "ll": [float(ag.xllcorner), float(ag.yllcorner)],
            "shape": [int(data.shape[0]), int(data.shape[1])],
            "data": [float(v) for v in data.ravel()],
            "ag_csz": float(ag.cellsize)}


def call_intersect(cat, case):
    """cat.intersect on the coarse grid of `case`; returns (values, the live result objects).
    Optional keys of the case (option combinations, see gen_lattice):
      grid_is_flowdir  the grid handed over is the catchment's own flow-direction grid object (the geometry
                       in the case is then the flow grid's geometry)
      filled_as        how the option reaches the call: "kw" (filled=bool), "pos" (second positional
                       argument), "npbool" (a numpy bool, what a comparison returns), "default" (argument
                       omitted; only generated with filled=False, the documented default)"""
    if case.get("grid_is_flowdir"):
        grid = cat.flowdir
    else:
        grid = mkgrid(case["nrows"], case["ncols"], case["xll"], case["yll"], case["csz"])
    how = case.get("filled_as", "kw")
    cm.mark(case)
    try:
        if how == "pos":
            live = cat.intersect(grid, bool(case["filled"]))
        elif how == "npbool":
            live = cat.intersect(grid, filled=np.bool_(case["filled"]))
        elif how == "default" and not case["filled"]:
            live = cat.intersect(grid)
        else:
            live = cat.intersect(grid, filled=bool(case["filled"]))
    except ValueError:
        return None, None
    return extract_result(*live), live


def impl_intersect(case):
    return call_intersect(mkcatchment(case), case)[0]


def impl_kernel(case):
    import c_hydrodiy_gis
    xy = np.ascontiguousarray(np.array(case["xys"], dtype=np.float64).reshape(-1, 2))
    n = case["nrows"] * case["ncols"]
    npoints = np.zeros(1, dtype=np.int64)
    idx = np.zeros(n, dtype=np.int64)
    w = np.zeros(n, dtype=np.float64)
    cm.mark(case)
    with np.errstate(all="ignore"):
        ierr = c_hydrodiy_gis.intersect(case["nrows"], case["ncols"], case["xll"], case["yll"], case["csz"],
                                        case["csz_a"], xy, npoints, idx, w)
    k = int(npoints[0])
    return int(ierr), [int(v) for v in idx[:k]], [float(v) for v in w[:k]]


def mkpoints(pts, how="array"):
    """The Voronoi points in the form they are handed to `voronoi` (same values in every form; a form that
    cannot hold the values exactly falls back to the plain float64 array):
      array    C-contiguous float64 (n, 2)            list     nested Python lists
      rowview  every other row of a larger array      colview  two columns (stride 2) of a wider array
      int      int64 array (whole-number coordinates) f32      float32 array (values exact in float32)
      1d       a single point as an array of shape (2,)"""
    a = np.array(pts, dtype=np.float64).reshape(-1, 2)
    if how == "list":
        return [[float(x), float(y)] for x, y in a]
    if how == "rowview":
        b = np.full((2 * len(a) + 1, 2), 1e9)
        b[1::2] = a
        return b[1::2]
    if how == "colview":
        b = np.full((len(a), 5), -1e9)
        b[:, 1:4:2] = a
        return b[:, 1:4:2]
    if how == "int" and len(a) and np.all(np.abs(a) < 2 ** 52) and np.all(a == np.floor(a)):
        return a.astype(np.int64)
    if how == "f32" and len(a) and np.all(np.abs(a) < 1e30) and np.all(a.astype(np.float32).astype(np.float64) == a):
        return a.astype(np.float32)
    if how == "1d" and len(a) == 1:
        return a[0].copy()
    return a


def impl_voronoi(case):
    from hydrodiy.gis.grid import voronoi
    cat = mkcatchment(case)
    cm.mark(case)
    with np.errstate(all="ignore"):
        w = voronoi(cat, mkpoints(case["pts"], case.get("pts_as", "array")))
    return [float(v) for v in w]


class _Axis:
    """Stand-in for a matplotlib axis: Catchment.plot_area only calls ax.plot."""

    def plot(self, *args, **kwargs):
        return []


def run_session(case, on_intersect, on_voronoi):
    """One or several Catchment objects on the same flow-direction grid taken through a sequence of
    public operations (case["ops"]).  At every `intersect` / `voronoi` step the cell set of the object
    is read through its public accessors (idxcells_area, idxcells_area_filled) just before the call and
    the step is handed to on_intersect / on_voronoi as an ordinary single-call case: the result has to be
    the one the property states for the cell set the object holds *now*, whatever was done before with
    the object or with the objects it was derived from.

    Operations (slot numbers name the objects):
      new s outlet [inlets] | delineate s outlet (re-delineation of an existing object) | fromdict s cells cellsf |
      add d a b | sub d a b | clone d a | roundtrip d a (from_dict(to_dict)) |
      intersect s grid filled | voronoi s pts [form] | plot s filled | touch s what
    A state-changing operation the library refuses (exception) drops the object; later steps on a
    missing object are skipped, so that every stored session replays deterministically.
    Returns the list of (token, sub-case, values at the time of the call, live result objects)."""
    from hydrodiy.gis.grid import Catchment, voronoi
    geo = {k: case[k] for k in ("nr_a", "nc_a", "xll_a", "yll_a", "csz_a")}
    fd = mkgrid(geo["nr_a"], geo["nc_a"], geo["xll_a"], geo["yll_a"], geo["csz_a"], dtype=np.int64)
    fd.data = np.array(case["fd"], dtype=np.int64).reshape(geo["nr_a"], geo["nc_a"])
    objs = {}
    delineated = set()      # objects whose area comes from delineate_area (connected, filled by scipy)
    held = []
    for step, op in enumerate(case["ops"]):
        name, slot = op[0], op[1]
        cm.mark({"session": case, "step": step})
        if name in ("new", "delineate", "fromdict", "add", "sub", "clone", "roundtrip"):
            try:
                if name == "new":
                    cat = Catchment(f"c{slot}", fd)
                    if len(op) > 3 and op[3]:       # inlets: the area upstream of them is excluded
                        cat.delineate_area(op[2], list(op[3]))
                    else:
                        cat.delineate_area(op[2])
                elif name == "delineate":
                    cat = objs.get(slot)
                    if cat is None:
                        continue
                    cat.delineate_area(op[2])
                elif name == "fromdict":
                    cat = mkcatchment(dict(geo, cells=op[2], cellsf=op[3]))
                elif op[2] not in objs or (name in ("add", "sub") and op[3] not in objs):
                    continue
                elif name == "add":
                    cat = objs[op[2]] + objs[op[3]]
                elif name == "sub":
                    cat = objs[op[2]] - objs[op[3]]
                elif name == "clone":
                    cat = objs[op[2]].clone()
                else:
                    cat = Catchment.from_dict(objs[op[2]].to_dict())
                objs[slot] = cat
                delineated.discard(slot)
                if name in ("new", "delineate"):
                    delineated.add(slot)
            except Exception:
                objs.pop(slot, None)
            continue
        cat = objs.get(slot)
        if cat is None:
            continue
        if name == "intersect":
            sub = dict(geo, kind="intersect", cells=[int(v) for v in cat.idxcells_area],
                       cellsf=[int(v) for v in cat.idxcells_area_filled], filled=op[3],
                       dyadic=case.get("dyadic"), mode="session", **op[2])
            r, live = call_intersect(cat, sub)
            held.append((on_intersect(sub, r, step), sub, r, live))
        elif name == "voronoi":
            sub = dict(geo, kind="voronoi", cells=[int(v) for v in cat.idxcells_area], pts=op[2],
                       pts_as=op[3] if len(op) > 3 else "array",
                       dyadic=bool(case.get("dyadic")) and all(
                           abs(v) < 2 ** 21 and (v * 16).is_integer() for p in op[2] for v in p))
            with np.errstate(all="ignore"):
                w = voronoi(cat, mkpoints(op[2], op[3] if len(op) > 3 else "array"))
            on_voronoi(sub, [float(v) for v in w], step)
        else:
            # readers that are not part of the property: whatever they do or raise is not judged here,
            # they only have to leave intersect / voronoi correct afterwards
            try:
                if name == "plot":
                    cat.plot_area(_Axis(), filled=op[2])
                elif op[2] == "extent":
                    cat.extent()
                elif op[2] == "isin":
                    cat.isin(0, filled=True), cat.isin(0)
                elif op[2] == "to_dict":
                    cat.to_dict()
                elif op[2] == "str":
                    str(cat)
                elif op[2] == "boundary" and slot in delineated and len(cat.idxcells_area) > 0:
                    cat.delineate_boundary()
            except Exception:
                pass
    return held


# ----------------------------------------------------------------------------
# Coq terms

def t_pairs(ps):
    return "[" + "; ".join(f"({cm.coq_float(x)}, {cm.coq_float(y)})" for x, y in ps) + "]"


def term_intersect(case, r):
    head = (f"IInter {cm.coq_z(case['nr_a'])} {cm.coq_z(case['nc_a'])} {cm.coq_float(case['xll_a'])} "
            f"{cm.coq_float(case['yll_a'])} {cm.coq_float(case['csz_a'])} {cm.coq_bool(case['filled'])} "
            f"{cm.coq_zlist(case['cells'])} {cm.coq_zlist(case.get('cellsf', case['cells']))} "
            f"{cm.coq_z(case['nrows'])} {cm.coq_z(case['ncols'])} {cm.coq_float(case['xll'])} "
            f"{cm.coq_float(case['yll'])} {cm.coq_float(case['csz'])} ")
    if r is None:
        return head + "None"
    rc = ", ".join(cm.coq_z(v) for v in r["rc"])
    return head + (f"(Some ({cm.coq_zlist(r['idx'])}, {cm.coq_flist(r['w'])}, ({rc}), "
                   f"({cm.coq_float(r['ll'][0])}, {cm.coq_float(r['ll'][1])}), "
                   f"({cm.coq_z(r['shape'][0])}, {cm.coq_z(r['shape'][1])}), {cm.coq_flist(r['data'])}))")


def term_kernel(case, idx, w):
    return (f"IKern {cm.coq_z(case['nrows'])} {cm.coq_z(case['ncols'])} {cm.coq_float(case['xll'])} "
            f"{cm.coq_float(case['yll'])} {cm.coq_float(case['csz'])} {cm.coq_float(case['csz_a'])} "
            f"{t_pairs(case['xys'])} {cm.coq_zlist(idx)} {cm.coq_flist(w)}")


def term_voronoi(case, w):
    return (f"IVor {cm.coq_z(case['nr_a'])} {cm.coq_z(case['nc_a'])} {cm.coq_float(case['xll_a'])} "
            f"{cm.coq_float(case['yll_a'])} {cm.coq_float(case['csz_a'])} {cm.coq_zlist(case['cells'])} "
            f"{t_pairs(case['pts'])} {cm.coq_flist(w)}")


# ----------------------------------------------------------------------------
# oracles (exact rationals on the doubles' exact values; independent of the model)

def centre(case, c):
    r, k = divmod(c, case["nc_a"])
    return (Fr(case["xll_a"]) + Fr(case["csz_a"]) * (k + Fr(1, 2)),
            Fr(case["yll_a"]) + Fr(case["csz_a"]) * (case["nr_a"] - 1 - r + Fr(1, 2)))


def admissible(case, c):
    """Coarse cells the centre of fine cell c may be assigned to: the exact cell
    (closed-open footprints), plus the neighbour(s) across an edge closer than
    EDGE; -1 stands for `outside the grid`."""
    x, y = centre(case, c)
    csz = Fr(case["csz"])
    scale = max(abs(case["xll"]), abs(case["yll"]), abs(float(x)), abs(float(y))) / case["csz"]
    eps = Fr(EDGE + 8e-16 * scale)
    # exact geometry (everything a small multiple of 2^-10, coarse cell size a power of two):
    # the kernel's subtraction, division and floor are exact, so a centre lying exactly on an
    # edge is decided by the closed-open footprint and no bracket is needed
    vals = [case["xll"], case["yll"], case["csz"], float(x), float(y)]
    if all(abs(v) < 2 ** 20 and (v * 1024).is_integer() for v in vals) and \
            math.frexp(case["csz"])[0] == 0.5:
        eps = Fr(0)
    out = set()
    q = [(x - Fr(case["xll"])) / csz, (y - Fr(case["yll"])) / csz]
    opts = []
    for v in q:
        f = math.floor(v)
        o = [f]
        if v - f < eps:
            o.append(f - 1)
        if f + 1 - v < eps:
            o.append(f + 1)
        opts.append(o)
    for fx in opts[0]:
        for fy in opts[1]:
            if 0 <= fx < case["ncols"] and 0 <= fy < case["nrows"]:
                out.add((case["nrows"] - 1 - fy) * case["ncols"] + fx)
            else:
                out.add(-1)
    return out


def oracle_intersect(case, r):
    """Returns a list of (key suffix, message) failures of the property on this case."""
    cs = case.get("cellsf", case["cells"]) if case["filled"] else case["cells"]
    adm = [admissible(case, c) for c in cs]
    sure_in = sum(1 for a in adm if -1 not in a)
    may_in = sum(1 for a in adm if a != {-1})
    fails = []
    if r is None:
        if sure_in > 0:
            fails.append(("spurious-error", f"intersect raised although {sure_in} cell centre(s) lie inside the grid"))
        return fails, (sure_in, may_in)
    idx, w = r["idx"], r["w"]
    ncell = case["nrows"] * case["ncols"]
    if len(idx) != len(w):
        fails.append(("length-mismatch", f"{len(idx)} cells but {len(w)} weights"))
        return fails, (sure_in, may_in)
    if len(set(idx)) != len(idx):
        fails.append(("duplicate-cell", f"idxcells {idx} lists a grid cell more than once"))
    if any(not 0 <= k < ncell for k in idx):
        fails.append(("invalid-cell", f"idxcells {idx} holds an invalid cell number"))
        return fails, (sure_in, may_in)
    if not idx:
        if sure_in > 0:
            fails.append(("cell-missing", f"empty result although {sure_in} centre(s) lie inside the grid"))
        return fails, (sure_in, may_in)
    af = (Fr(case["csz_a"]) / Fr(case["csz"])) ** 2
    # weight = count * ratio of areas
    counts = {}
    for k, wk in zip(idx, w):
        if not math.isfinite(wk):
            fails.append(("weight-not-count-times-ratio", f"weight of cell {k} is {wk}"))
            return fails, (sure_in, may_in)
        n = round(Fr(wk) / af)
        counts[k] = counts.get(k, 0) + n
        if abs(Fr(wk) - n * af) > WTOL * max(1, n) * max(af, Fr(wk)):
            fails.append(("weight-not-count-times-ratio",
                          f"weight {wk!r} of cell {k} is not a whole number of area ratios {float(af)!r}"))
    lo = {k: sum(1 for a in adm if a == {k}) for k in set(counts) | {x for a in adm for x in a if x >= 0}}
    hi = {k: sum(1 for a in adm if k in a) for k in lo}
    total = sum(counts.values())
    if total > may_in:
        fails.append(("outside-centre-counted",
                      f"weights account for {total} cell(s) but only {may_in} centre(s) lie inside the grid "
                      f"(idxcells={idx}, weights={w})"))
    elif total < sure_in:
        fails.append(("inside-centre-lost",
                      f"weights account for {total} cell(s) but {sure_in} centre(s) lie inside the grid"))
    else:
        for k in sorted(lo):
            n = counts.get(k, 0)
            if not lo[k] <= n <= hi[k] or (k in counts and n == 0):
                fails.append(("weight-not-count-times-ratio",
                              f"cell {k}: weight {n} x ratio, but {lo[k]}..{hi[k]} centre(s) fall in it"))
                break
    # conservation: sum(weights) * csz^2 = (#centres inside) * csz_area^2
    area = math.fsum(w) * case["csz"] ** 2
    ca2 = case["csz_a"] ** 2
    if not (sure_in * ca2 * (1 - 1e-9) - 1e-300 <= area <= may_in * ca2 * (1 + 1e-9) + 1e-300):
        fails.append(("area-not-conserved",
                      f"sum(weights)*csz^2 = {area!r}, catchment area inside the grid = "
                      f"{sure_in}..{may_in} x {ca2!r}"))
    # the weight grid
    rows = [k // case["ncols"] for k in idx]
    cols = [k % case["ncols"] for k in idx]
    want_rc = [min(rows), max(rows), min(cols), max(cols)]
    if r["rc"] != want_rc:
        fails.append(("parent-rowcol", f"parent rows/columns {r['rc']}, expected {want_rc}"))
    else:
        shape = [want_rc[1] - want_rc[0] + 1, want_rc[3] - want_rc[2] + 1]
        if r["shape"] != shape:
            fails.append(("weight-grid-misplaced", f"weight grid shape {r['shape']}, expected {shape}"))
        else:
            exp = [0.0] * (shape[0] * shape[1])
            for k, wk in zip(idx, w):
                exp[(k // case["ncols"] - want_rc[0]) * shape[1] + (k % case["ncols"] - want_rc[2])] = wk
            if any(not (a == b) for a, b in zip(exp, r["data"])):
                fails.append(("weight-grid-misplaced",
                              f"weight grid {r['data']} (shape {shape}), expected {exp} for idxcells={idx}"))
    return fails, (sure_in, may_in)


def oracle_voronoi(case, w):
    cells, pts = case["cells"], case["pts"]
    n = len(cells)
    fails = []
    if n == 0:
        return fails, 0     # the fraction of zero cells is not defined by the property
    if len(w) != len(pts):
        return [("length-mismatch", f"{len(w)} weights for {len(pts)} points")], 0
    if any(not (v >= 0) for v in w):
        fails.append(("negative-or-nan", f"weights {w}"))
        return fails, 0
    if abs(math.fsum(w) - 1) > 1e-12:
        fails.append(("sum-not-one", f"weights {w} sum to {math.fsum(w)!r}"))
    lo = [0] * len(pts)
    hi = [0] * len(pts)
    nties = 0
    for c in cells:
        x, y = centre(case, c)
        d2 = [(x - Fr(px)) ** 2 + (y - Fr(py)) ** 2 for px, py in pts]
        best = min(d2)
        cand = [j for j, d in enumerate(d2) if d <= best * (1 + Fr(2e-9))]
        exact_tie = all(d2[j] == best for j in cand)
        same_pt = all(pts[j] == pts[cand[0]] for j in cand)
        if len(cand) > 1:
            nties += 1
        if exact_tie and (case.get("dyadic") or same_pt):
            cand = [cand[0]]            # equidistant: the lowest index
        if len(cand) == 1:
            lo[cand[0]] += 1
        for j in cand:
            hi[j] += 1
    for j, v in enumerate(w):
        k = round(v * n)
        if abs(Fr(v) - Fr(k, n)) > 1e-15 or not lo[j] <= k <= hi[j]:
            fails.append(("not-nearest-fraction",
                          f"weight {v!r} of point {j} ({pts[j]}), expected {lo[j]}..{hi[j]} of {n} cells"))
            break
    return fails, nties


# ----------------------------------------------------------------------------
# generators

DYADIC = [0.0, 0.5, 1.0, -1.0, -0.5, 0.25, 1.5, 2.0, 3.0, -3.0, 2.5, 7.0, -2.0]


def gen_fine(rng, S, dyadic):
    nr, nc = rng.choice([1, 2, rng.randint(1, S), rng.randint(3, S), rng.randint(3, S)]), \
        rng.choice([1, 2, rng.randint(1, S), rng.randint(3, S), rng.randint(3, S)])
    if dyadic:
        csz_a = rng.choice([1.0, 0.5, 0.25, 2.0, 0.125, 4.0])
        xll_a = rng.choice([0.0, 10.0, -7.5, 3.25, 100.0, -64.0])
        yll_a = rng.choice([0.0, -20.0, 5.5, 0.125, 1000.0])
    else:
        csz_a = rng.choice([0.1, 0.05, 0.025, 0.3, 10 ** rng.uniform(-3, 3), 1e-3, 250.0])
        xll_a = rng.choice([0.0, 147.3, rng.uniform(-1e3, 1e3) * csz_a, rng.uniform(-180, 180)])
        yll_a = rng.choice([0.0, -37.65, rng.uniform(-1e3, 1e3) * csz_a, rng.uniform(-90, 90)])
    return nr, nc, xll_a, yll_a, csz_a


def gen_cells(rng, n):
    m = rng.random()
    if m < 0.04:
        k = 0
    elif m < 0.14:
        k = 1
    elif m < 0.22:
        k = min(2, n)
    elif m < 0.37:
        k = n
    else:
        k = rng.randint(1, n)
    cells = rng.sample(range(n), k)
    if rng.random() < 0.3:
        cells.sort()
    return cells


def gen_intersect(rng, S, G):
    dyadic = rng.random() < 0.7
    nr, nc, xll_a, yll_a, csz_a = gen_fine(rng, S, dyadic)
    n = nr * nc
    if dyadic:
        ratio = rng.choice([1, 2, 2, 3, 4, 4, 1.5, 2.5])
    else:
        ratio = rng.choice([1, 2, 3, 4, rng.uniform(1, 4), 2.0, 3.0])
    csz = csz_a * ratio
    gr, gc = rng.choice([1, 2, rng.randint(1, G), rng.randint(2, G)]), rng.choice([1, 2, rng.randint(1, G), rng.randint(2, G)])
    cells = gen_cells(rng, n)
    mode = rng.random()
    wx, wy = nc * csz_a, nr * csz_a                 # extent of the fine grid
    if mode < 0.4 and cells:
        # anchored: the centre of one area cell sits at a chosen position inside a chosen coarse cell
        # (u, v = 0: exactly on the left / lower edge of that coarse cell)
        c = rng.choice(cells)
        cx, cy = (c % nc + 0.5) * csz_a, (nr - 1 - c // nc + 0.5) * csz_a
        k, r = rng.randrange(gc), rng.randrange(gr)
        frac = [0.0, 0.0, 0.5, 0.25, 0.75] if dyadic else [0.0, 0.5, rng.random(), 1e-7, 1 - 1e-7]
        ox = cx - csz * (k + rng.choice(frac))
        oy = cy - csz * (gr - 1 - r + rng.choice(frac))
    elif mode < 0.55:     # offsets that are small multiples of the fine cell size (centres on coarse edges)
        ox = rng.choice(DYADIC) * csz_a if dyadic else rng.choice(DYADIC) * csz_a + rng.choice([0, 1e-7 * csz_a])
        oy = rng.choice(DYADIC) * csz_a
        gc, gr = max(gc, rng.randint(1, G)), max(gr, rng.randint(1, G))
    elif mode < 0.7:      # coarse grid covering the whole fine grid
        ox, oy = -csz * rng.choice([0, 1, 0.5]), -csz * rng.choice([0, 1, 0.5])
        gc = max(gc, int(math.ceil((wx - ox) / csz)) + rng.choice([0, 1]))
        gr = max(gr, int(math.ceil((wy - oy) / csz)) + rng.choice([0, 1]))
    elif mode < 0.85:     # partial overlap: one side of the coarse extent cuts through the fine grid
        if rng.random() < 0.6:
            cells = rng.sample(range(n), n)
        cutx = rng.choice([0.5, 1, 1.5, 2, nc / 2, nc - 1, nc - 0.5]) * csz_a
        cuty = rng.choice([0.5, 1, 1.5, 2, nr / 2, nr - 1, nr - 0.5]) * csz_a
        ox = cutx - gc * csz if rng.random() < 0.5 else cutx        # right edge / left edge of the grid at cutx
        oy = cuty - gr * csz if rng.random() < 0.5 else cuty
        if rng.random() < 0.3:
            ox = -csz * rng.choice([0, 0.5])
            gc = max(gc, int(math.ceil((wx - ox) / csz)))
    elif mode < 0.92:     # no overlap
        side = rng.choice(["l", "r", "b", "t"])
        ox = -gc * csz - rng.choice([0, 0.5, 3]) * csz_a if side == "l" else wx + rng.choice([0, 0.5, 3]) * csz_a if side == "r" else 0.0
        oy = -gr * csz - rng.choice([0, 0.5, 3]) * csz_a if side == "b" else wy + rng.choice([0, 0.5, 3]) * csz_a if side == "t" else 0.0
    else:                 # arbitrary
        ox, oy = rng.uniform(-1, 1) * (wx + gc * csz) / 2, rng.uniform(-1, 1) * (wy + gr * csz) / 2
        if dyadic:
            ox, oy = round(ox * 8) / 8, round(oy * 8) / 8
    xll, yll = xll_a + ox, yll_a + oy
    case = {"kind": "intersect", "nr_a": nr, "nc_a": nc, "xll_a": xll_a, "yll_a": yll_a, "csz_a": csz_a,
            "cells": cells, "nrows": gr, "ncols": gc, "xll": xll, "yll": yll, "csz": csz,
            "filled": rng.random() < 0.4, "dyadic": dyadic, "mode": round(mode, 2)}
    # filled area: a superset (holes of the area closed)
    extra = [c for c in range(n) if c not in set(cells) and rng.random() < 0.2]
    cf = sorted(set(cells) | set(extra))
    if rng.random() < 0.3:
        cf = list(cells)
    case["cellsf"] = cf
    return case


def gen_ring(rng):
    """Catchment with a hole (ring) on a 5x5 fine grid; filled = ring + interior."""
    nr = nc = 5
    ring = [r * nc + k for r in range(1, 4) for k in range(1, 4) if (r, k) != (2, 2)]
    rng.shuffle(ring)
    csz_a = rng.choice([1.0, 0.5])
    ratio = rng.choice([1, 2, 3])
    return {"kind": "intersect", "nr_a": nr, "nc_a": nc, "xll_a": 0.0, "yll_a": 0.0, "csz_a": csz_a,
            "cells": ring, "cellsf": sorted(ring + [12]), "nrows": 3, "ncols": 3,
            "xll": rng.choice([0.0, -0.5, 1.0, 2.0]) * csz_a, "yll": rng.choice([0.0, 0.5, -1.0, 2.0]) * csz_a,
            "csz": csz_a * ratio, "filled": rng.random() < 0.5, "dyadic": True, "mode": "ring"}


def gen_delineated(rng, S):
    """A catchment obtained from Catchment.delineate_area on a random acyclic flow grid."""
    from harness.props import c06
    from hydrodiy.gis.grid import Catchment
    nr, nc = rng.randint(2, S), rng.randint(2, S)
    fd = c06.rand_acyclic(rng, nr, nc)
    csz_a = rng.choice([1.0, 0.5, 0.05])
    xll_a, yll_a = rng.choice([0.0, 12.5, 147.3]), rng.choice([0.0, -8.25, -37.65])
    g = mkgrid(nr, nc, xll_a, yll_a, csz_a, dtype=np.int64)
    g.data = np.array(fd, dtype=np.int64).reshape(nr, nc)
    cat = Catchment("c", g)
    best = None
    for outlet in rng.sample(range(nr * nc), min(nr * nc, 6)):
        cat.delineate_area(outlet)
        a = [int(v) for v in cat.idxcells_area]
        if best is None or len(a) > len(best[0]):
            best = (a, [int(v) for v in cat.idxcells_area_filled])
    ratio = rng.choice([1, 2, 3, 4])
    gr, gc = rng.randint(1, 5), rng.randint(1, 5)
    return {"kind": "intersect", "nr_a": nr, "nc_a": nc, "xll_a": xll_a, "yll_a": yll_a, "csz_a": csz_a,
            "cells": best[0], "cellsf": best[1], "nrows": gr, "ncols": gc,
            "xll": xll_a + rng.choice(DYADIC) * csz_a, "yll": yll_a + rng.choice(DYADIC) * csz_a,
            "csz": csz_a * ratio, "filled": rng.random() < 0.5, "dyadic": csz_a != 0.05, "mode": "delineated"}


def gen_kernel(rng, G):
    gr, gc = rng.choice([1, 2, rng.randint(1, G)]), rng.choice([1, 2, rng.randint(1, G)])
    csz = rng.choice([1.0, 2.0, 0.5, 0.1, 10 ** rng.uniform(-2, 2)])
    xll, yll = rng.choice([0.0, 10.0, -3.5, rng.uniform(-100, 100)]), rng.choice([0.0, 20.0, -0.75, rng.uniform(-100, 100)])
    csz_a = csz / rng.choice([1, 2, 3, 4, 1.7])
    pts = []
    for _ in range(rng.choice([0, 1, 2, rng.randint(3, 40)])):
        m = rng.random()
        if m < 0.55:      # inside a footprint, possibly exactly on its lower/left edge
            r, k = rng.randrange(gr), rng.randrange(gc)
            u, v = rng.choice([0.0, 0.5, rng.random(), 1e-9, 1 - 1e-9]), rng.choice([0.0, 0.5, rng.random()])
            pts.append((xll + csz * (k + u), yll + csz * (gr - 1 - r + v)))
        elif m < 0.85:    # outside, eight directions
            d = rng.choice([1e-9, 1e-3, 0.3, 0.5, 0.999, 1.0, 1.5, 7.0, 1e6])
            sx, sy = rng.choice([(-1, 0), (1, 0), (0, -1), (0, 1), (-1, -1), (-1, 1), (1, -1), (1, 1)])
            px = xll + csz * (-d if sx < 0 else gc + d if sx > 0 else rng.random() * gc)
            py = yll + csz * (-d if sy < 0 else gr + d if sy > 0 else rng.random() * gr)
            pts.append((px, py))
        elif m < 0.9:     # exactly on the upper/right limit of the extent
            pts.append((xll + csz * gc, yll + csz * rng.random() * gr) if rng.random() < 0.5
                       else (xll + csz * rng.random() * gc, yll + csz * gr))
        else:
            pts.append(rng.choice([(float("nan"), yll), (xll + csz / 2, float("inf")),
                                   (-float("inf"), yll + csz / 2), (1e300, -1e300), (float("nan"), float("nan"))]))
    if pts and rng.random() < 0.5:
        pts += [rng.choice(pts) for _ in range(rng.randint(1, 6))]     # repeats: the `+=` branch
    return {"kind": "kernel", "nrows": gr, "ncols": gc, "xll": xll, "yll": yll, "csz": csz, "csz_a": csz_a,
            "xys": [list(p) for p in pts]}


def gen_voronoi(rng, S):
    dyadic = rng.random() < 0.7
    nr, nc, xll_a, yll_a, csz_a = gen_fine(rng, S, dyadic)
    n = nr * nc
    cells = gen_cells(rng, n)
    npts = rng.choice([1, 2, 3, rng.randint(1, 6), rng.randint(1, 6)])
    pts = []

    def ctr(c):
        r, k = divmod(c, nc)
        return (xll_a + csz_a * (k + 0.5), yll_a + csz_a * (nr - 1 - r + 0.5))
    for _ in range(npts):
        m = rng.random()
        if rng.random() < 0.25 and (cells or n):
            # several points within half a cell of the same centre, at different distances from it
            # (a search that stops at the first "close enough" point picks the wrong one)
            if pts and rng.random() < 0.6:
                px, py = rng.choice(pts)
                kx = int((px - xll_a) // csz_a)
                ky = int((py - yll_a) // csz_a)
                cx, cy = xll_a + csz_a * (kx + 0.5), yll_a + csz_a * (ky + 0.5)
            else:
                cx, cy = ctr(rng.choice(cells) if cells else rng.randrange(n))
            pts.append((cx + csz_a * rng.randint(-7, 7) / 16, cy + csz_a * rng.randint(-7, 7) / 16))
        elif m < 0.3:                       # coincident with a cell centre
            pts.append(ctr(rng.randrange(n)))
        elif m < 0.45 and pts:            # coincident with an earlier point
            pts.append(rng.choice(pts))
        elif m < 0.6 and pts and cells:   # mirror image of an earlier point about a catchment cell centre (tie)
            cx, cy = ctr(rng.choice(cells))
            px, py = rng.choice(pts)
            pts.append((2 * cx - px, 2 * cy - py) if rng.random() < 0.5 else (2 * cx - px, py))
        elif m < 0.8:                     # half-cell lattice in and around the grid
            pts.append((xll_a + csz_a * rng.randint(-8, 2 * nc + 8) / 2, yll_a + csz_a * rng.randint(-8, 2 * nr + 8) / 2))
        elif m < 0.9:                     # far outside
            f = rng.choice([1e2, 1e4, 1e6])
            pts.append((xll_a + csz_a * rng.choice([-1, 1]) * f, yll_a + csz_a * rng.choice([-1, 0, 1]) * f))
        else:
            pts.append((xll_a + csz_a * rng.uniform(-3, nc + 3), yll_a + csz_a * rng.uniform(-3, nr + 3)))
            dyadic = False
    if dyadic:
        # every coordinate a multiple of 2^-4 below 2^21: the kernel's arithmetic is exact
        dyadic = all(abs(v) < 2 ** 21 and (v * 16).is_integer() for p in pts for v in p)
    return {"kind": "voronoi", "nr_a": nr, "nc_a": nc, "xll_a": xll_a, "yll_a": yll_a, "csz_a": csz_a,
            "cells": cells, "pts": [list(p) for p in pts], "dyadic": dyadic,
            "pts_as": rng.choice(["array"] * 5 + ["list", "rowview", "colview", "int", "f32", "1d"])}


def gen_comb(rng, nr, nc):
    """Flow directions (ESRI codes) of a `comb`: every column drains south into the bottom row, which
    drains east / west to the nearest of a few outlets, so that the outlets' catchments are bands of
    columns lying side by side (their unions / differences are meaningful); a few interior sinks whose
    upper neighbour is diverted sideways leave one-cell holes (filled area != area).
    Returns (codes, outlets)."""
    fd = [4] * (nr * nc)
    outs = sorted(rng.sample(range(nc), min(nc, rng.choice([1, 2, 2, 3]))))
    for k in range(nc):
        o = min(outs, key=lambda v: (abs(v - k), v))
        fd[(nr - 1) * nc + k] = 0 if o == k else 1 if o > k else 16
    if nr >= 3 and nc >= 3:
        for _ in range(rng.choice([0, 0, 1, 2])):
            r, k = rng.randint(1, nr - 2), rng.randint(1, nc - 2)
            fd[r * nc + k] = 0
            fd[(r - 1) * nc + k] = rng.choice([1, 16])
    return fd, [(nr - 1) * nc + o for o in outs]


def gen_coarse(rng, G, dyadic, nr, nc, xll_a, yll_a, csz_a):
    """A coarser grid placed relative to the fine grid: covering / offsets on half fine cells (centres on
    coarse edges, partial overlap) / anywhere (may miss the catchment)."""
    ratio = rng.choice([1, 2, 2, 3, 4, 4, 1.5, 2.5]) if dyadic else rng.choice([1, 2, 3, 4, rng.uniform(1, 4)])
    csz = csz_a * ratio
    gr, gc = rng.randint(1, G), rng.randint(1, G)
    wx, wy = nc * csz_a, nr * csz_a
    m = rng.random()
    if m < 0.6:
        ox, oy = -csz * rng.choice([0, 1, 0.5]), -csz * rng.choice([0, 1, 0.5])
        gc = max(gc, int(math.ceil((wx - ox) / csz)))
        gr = max(gr, int(math.ceil((wy - oy) / csz)))
    elif m < 0.94:
        ox, oy = rng.choice(DYADIC) * csz_a, rng.choice(DYADIC) * csz_a
    else:
        ox, oy = rng.uniform(-1, 1) * (wx + gc * csz) / 2, rng.uniform(-1, 1) * (wy + gr * csz) / 2
        if dyadic:
            ox, oy = round(ox * 8) / 8, round(oy * 8) / 8
    return {"nrows": gr, "ncols": gc, "xll": xll_a + ox, "yll": yll_a + oy, "csz": csz}


def gen_session(rng, S, G):
    """Operation sequence on a few Catchment objects sharing one flow-direction grid (see run_session):
    objects are delineated, used (intersect with several grids and both `filled` flags, voronoi, plot_area,
    extent, isin, to_dict, delineate_boundary), combined (+, -), cloned, sent through to_dict/from_dict,
    re-delineated at another outlet, used again; every object alive at the end is intersected once more
    with both flags."""
    from harness.props import c06
    dyadic = rng.random() < 0.75
    _, _, xll_a, yll_a, csz_a = gen_fine(rng, S, dyadic)
    nr, nc = rng.randint(2, min(S, 8)), rng.randint(2, min(S, 8))
    n = nr * nc
    if rng.random() < 0.7:
        fd, outlets = gen_comb(rng, nr, nc)
    else:
        fd = c06.rand_acyclic(rng, nr, nc)
        outlets = [c for c in range(n) if fd[c] not in c06.ESRI or not (
            0 <= c // nc + c06.ESRI[fd[c]][0] < nr and 0 <= c % nc + c06.ESRI[fd[c]][1] < nc)] or [n - 1]
        rng.shuffle(outlets)
    grids = [gen_coarse(rng, G, dyadic, nr, nc, xll_a, yll_a, csz_a) for _ in range(rng.choice([1, 2, 2, 3]))]
    if rng.random() < 0.3:      # the catchment's own flow-direction grid geometry, or next to it
        grids.append(rel_grid(rng, G, {"nr_a": nr, "nc_a": nc, "xll_a": xll_a, "yll_a": yll_a, "csz_a": csz_a},
                              rng.choice(["one", "one", "near-one"]), rng.choice(["zero", "zero", "tiny"]),
                              rng.choice(["same", "same", "near"])))

    def pick_outlet():
        return rng.choice(outlets) if rng.random() < 0.7 else rng.randrange(n)

    def points():
        return [[xll_a + csz_a * rng.randint(-4, 2 * nc + 4) / 2, yll_a + csz_a * rng.randint(-4, 2 * nr + 4) / 2]
                for _ in range(rng.choice([1, 2, 2, 3, 4]))]

    def use(s):
        m = rng.random()
        if m < 0.55:
            return ["intersect", s, rng.choice(grids), rng.random() < 0.4]
        if m < 0.72:
            return ["voronoi", s, points(), rng.choice(["array", "array", "list", "rowview", "colview", "int", "f32"])]
        if m < 0.84:
            return ["plot", s, rng.random() < 0.4]
        return ["touch", s, rng.choice(["extent", "isin", "to_dict", "str", "boundary"])]

    def uses(s):
        if rng.random() < 0.35:     # every judged reader once, so that whatever the object remembers is in place
            g = rng.choice(grids)
            u = [["intersect", s, g, False], ["intersect", s, g, True], ["voronoi", s, points()]]
            rng.shuffle(u)
            return u
        return [use(s) for _ in range(rng.choice([0, 1, 1, 2]))]

    ops, slots = [], []
    for s in range(rng.choice([1, 2, 2, 3])):
        if rng.random() < 0.85:
            ops.append(["new", s, outlets[s % len(outlets)] if rng.random() < 0.8 else rng.randrange(n)])
        else:
            cells = gen_cells(rng, n)
            ops.append(["fromdict", s, cells, sorted(set(cells) | {c for c in range(n) if rng.random() < 0.15})])
        slots.append(s)
        ops += uses(s)
    for _ in range(rng.randint(2, 5)):
        m = rng.random()
        if m < 0.5:
            d = rng.choice(slots + [len(slots)]) if len(slots) < 5 else rng.choice(slots)
            ops.append([rng.choice(["add", "add", "sub"]), d, rng.choice(slots), rng.choice(slots)])
        elif m < 0.65:
            d = len(slots) if len(slots) < 5 else rng.choice(slots)
            ops.append([rng.choice(["clone", "roundtrip"]), d, rng.choice(slots)])
        elif m < 0.85:
            d = rng.choice(slots)
            ops.append(["delineate", d, pick_outlet()])
        else:
            d = rng.choice(slots)
        if d not in slots:
            slots.append(d)
        ops += uses(rng.choice([d, d, rng.choice(slots)]))
    for s in slots:
        g = rng.choice(grids)
        first = rng.random() < 0.5
        ops.append(["intersect", s, g, first])
        ops.append(["intersect", s, g if rng.random() < 0.7 else rng.choice(grids), not first])
        if rng.random() < 0.6:
            ops.append(["voronoi", s, points()])
    return {"kind": "session", "nr_a": nr, "nc_a": nc, "xll_a": xll_a, "yll_a": yll_a, "csz_a": csz_a,
            "dyadic": dyadic, "fd": fd, "ops": ops}


# ----------------------------------------------------------------------------
# option combinations: (kind of catchment: holes or not, installed or delineated) x filled x
# (relation of the grid to the catchment's own flow-direction grid: cell-size ratio, offset, dimensions)

def ring_flow(rng, nr, nc):
    """Flow directions (ESRI codes) of a loop of cells - the boundary of a rectangle - draining both ways
    round to an outlet on the loop, around interior cells that are sinks (the holes of the catchment) or
    drain into the loop; a few cells outside the rectangle drain into the loop (tails).  One of the
    interior cells that drain into the loop may be returned as an inlet (the area upstream of it is
    excluded from the catchment: a hole that is not a sink).  Needs nr, nc >= 3.
    Returns (codes, outlet, candidate inlets, cells expected in the catchment without inlets, interior cells)."""
    from harness.props import c06
    code_of = {d: c for c, d in c06.ESRI.items()}
    r0 = rng.randint(0, nr - 3)
    r1 = rng.randint(r0 + 2, nr - 1)
    c0 = rng.randint(0, nc - 3)
    c1 = rng.randint(c0 + 2, nc - 1)
    loop = [(r0, k) for k in range(c0, c1 + 1)] + [(r, c1) for r in range(r0 + 1, r1 + 1)] + \
        [(r1, k) for k in range(c1 - 1, c0 - 1, -1)] + [(r, c0) for r in range(r1 - 1, r0, -1)]
    p = rng.randrange(len(loop))
    loop = loop[p:] + loop[:p]                      # loop[0] is the outlet
    m = len(loop)
    h = rng.randint(0, m - 1)                       # cells 1..h drain backwards, h+1..m-1 forwards
    fd = [0] * (nr * nc)
    for i in range(1, m):
        j = i - 1 if i <= h else (i + 1) % m
        fd[loop[i][0] * nc + loop[i][1]] = code_of[(loop[j][0] - loop[i][0], loop[j][1] - loop[i][1])]
    inloop = set(loop)
    interior = [(r, k) for r in range(r0 + 1, r1) for k in range(c0 + 1, c1)]
    draining = set(inloop)
    joined, tails = [], []
    nb4 = [(-1, 0), (1, 0), (0, -1), (0, 1)]
    for r, k in rng.sample(interior, len(interior)):
        tg = [(r + dr, k + dc) for dr, dc in nb4 if (r + dr, k + dc) in draining]
        if tg and rng.random() < 0.3 and len(joined) < len(interior) - 1:     # one sink at least stays
            t = rng.choice(tg)
            fd[r * nc + k] = code_of[(t[0] - r, t[1] - k)]
            draining.add((r, k))
            joined.append((r, k))
    for r in range(nr):
        for k in range(nc):
            if r0 <= r <= r1 and c0 <= k <= c1:
                continue
            tg = [(r + dr, k + dc) for dr, dc in nb4 if (r + dr, k + dc) in inloop]
            if tg and rng.random() < 0.2:
                t = rng.choice(tg)
                fd[r * nc + k] = code_of[(t[0] - r, t[1] - k)]
                tails.append((r, k))
    # the outlet: a sink, or draining out of the rectangle (to a cell that is not in the catchment / off the grid)
    orow, ocol = loop[0]
    outs = [(dr, dc) for dr, dc in code_of if not (r0 <= orow + dr <= r1 and c0 <= ocol + dc <= c1)
            and (orow + dr, ocol + dc) not in tails]
    if outs and rng.random() < 0.5:
        fd[orow * nc + ocol] = code_of[rng.choice(outs)]
    cells = [r * nc + k for r, k in loop + joined + tails]
    return fd, orow * nc + ocol, [r * nc + k for r, k in joined], cells, [r * nc + k for r, k in interior]


LATTICE_KINDS = ["blob", "holed", "extreme", "delin-holed", "delin-inlet", "delin-any"]
RATIO_LEVELS = {
    # exactly the catchment's own cell size
    "one": [1.0],
    # next to it (numpy.isclose, which Grid.same_geometry uses, holds up to about 1e-5 relative)
    "near-one": [1 + 1e-9, 1 - 1e-9, 1 + 4e-6, 1 - 4e-6, 1 + 2e-5, 1 + 2.0 ** -40, 1.001],
    # elsewhere (2 = where intersect stops warning about a grid that is too fine; below 1 = a finer grid)
    "other": [2.0, 2.0, 3.0, 4.0, 4.0, 1.5, 2.5, 2 - 1e-9, 2 + 1e-9, 0.5, 0.75, None]}
OFFSET_LEVELS = ["zero", "tiny", "aligned", "one-axis", "unaligned"]
DIM_LEVELS = ["same", "near", "other"]


def rel_grid(rng, G, geo, rl, ol, dl):
    """A grid in a stated relation to the flow-direction grid `geo` of a catchment: rl = level of the
    cell-size ratio, ol = level of the offset of the lower-left corner, dl = level of the dimensions."""
    nr, nc, xll_a, yll_a, csz_a = (geo[k] for k in ("nr_a", "nc_a", "xll_a", "yll_a", "csz_a"))
    ratio = rng.choice(RATIO_LEVELS[rl])
    if ratio is None:
        ratio = rng.uniform(1, 4)
    csz = csz_a * ratio

    def tiny(base):
        t = rng.choice(["abs", "abs", "rel", "cell", "ulp"])
        s = rng.choice([-1, 1])
        if t == "ulp":
            return math.nextafter(base, s * math.inf)
        d = {"abs": 5e-9, "rel": 4e-6 * abs(base), "cell": rng.choice([1e-12, 1e-7]) * csz_a}[t]
        v = base + s * d
        return v if v != base else math.nextafter(base, s * math.inf)

    def aligned(base):
        return base + rng.choice([-2, -1, 1, 2, 3]) * csz_a * rng.choice([1, 1, ratio])

    def unaligned(base):
        return base + rng.choice([0.5, -0.5, 0.25, 0.3, -1.5, rng.uniform(-2, 2)]) * csz_a

    if ol == "zero":
        xll, yll = xll_a, yll_a
    elif ol == "tiny":
        xll, yll = rng.choice([(tiny(xll_a), yll_a), (xll_a, tiny(yll_a)), (tiny(xll_a), tiny(yll_a))])
    elif ol == "aligned":
        xll, yll = rng.choice([(aligned(xll_a), aligned(yll_a)), (aligned(xll_a), yll_a), (xll_a, aligned(yll_a))])
    elif ol == "one-axis":        # one axis exactly the catchment's, the other not
        f = rng.choice([aligned, unaligned, tiny])
        xll, yll = (f(xll_a), yll_a) if rng.random() < 0.5 else (xll_a, f(yll_a))
    else:
        xll, yll = unaligned(xll_a), rng.choice([unaligned, aligned])(yll_a)
    if dl == "same":
        gr, gc = nr, nc
    elif dl == "near":
        gr, gc = rng.choice([(nr, nc + 1), (nr + 1, nc), (nr - 1, nc), (nr, nc - 1), (nr + 1, nc + 1)] +
                            ([(nc, nr)] * 2 if nr != nc else []))
    else:
        e = rng.choice([0, 0, 1])
        gr, gc = rng.choice([(int(math.ceil(nr / ratio)) + e, int(math.ceil(nc / ratio)) + e), (1, 1),
                             (1, rng.randint(1, G)), (rng.randint(1, G), 1), (rng.randint(1, G), rng.randint(1, G)),
                             (2 * nr, 2 * nc)])
        if (gr, gc) == (nr, nc):
            gc += 1
    g = {"nrows": max(gr, 1), "ncols": max(gc, 1), "xll": xll, "yll": yll, "csz": csz, "lattice": [rl, ol, dl]}
    if (rl, ol, dl) == ("one", "zero", "same") and rng.random() < 0.5:
        g["grid_is_flowdir"] = True         # the very object the catchment was built on
    return g


def gen_lattice(rng, S, G, combos, nsteps=10):
    """Cases for the given list of combinations (kind of catchment, filled, ratio level, offset level,
    dimension level), `nsteps` combinations of the same kind per catchment: installed catchments
    (from_dict) give one single-call case per combination, delineated ones an operation sequence
    `new` + one intersect per combination (the cell sets are then whatever delineate_area - scipy's hole
    filling included - put into the object)."""
    out = []
    bykind = {}
    for cb in combos:
        bykind.setdefault(cb[0], []).append(cb)
    for kind, cbs in bykind.items():
        for i0 in range(0, len(cbs), nsteps):
            chunk = cbs[i0:i0 + nsteps]
            dyadic = rng.random() < 0.7
            _, _, xll_a, yll_a, csz_a = gen_fine(rng, S, dyadic)
            nr, nc = rng.randint(3, min(S, 7)), rng.randint(3, min(S, 7))
            if nr == nc and rng.random() < 0.7:
                nc = nc + 1 if nc < min(S, 7) else nc - 1
            n = nr * nc
            geo = {"nr_a": nr, "nc_a": nc, "xll_a": xll_a, "yll_a": yll_a, "csz_a": csz_a}

            def option(filled):
                m = rng.random()
                return "kw" if m < 0.6 else "pos" if m < 0.75 else "npbool" if m < 0.9 or filled else "default"

            if kind in ("blob", "holed", "extreme"):
                if kind == "extreme":       # no cell / one cell / every cell of the flow grid / all but inner ones
                    m = rng.choice(["none", "one", "all", "all", "all-but"])
                    inner = [r * nc + k for r in range(1, nr - 1) for k in range(1, nc - 1)]
                    pits = set(rng.sample(inner, rng.randint(1, min(2, len(inner))))) if m == "all-but" else set()
                    cells = [] if m == "none" else [rng.randrange(n)] if m == "one" else \
                        [c for c in range(n) if c not in pits]
                    cellsf = sorted(cells) if m in ("none", "one") else list(range(n))
                elif kind == "blob":        # a full rectangle: nothing to fill
                    r0, k0 = rng.randint(0, nr - 1), rng.randint(0, nc - 1)
                    r1, k1 = rng.randint(r0, nr - 1), rng.randint(k0, nc - 1)
                    cells = [r * nc + k for r in range(r0, r1 + 1) for k in range(k0, k1 + 1)]
                    cellsf = sorted(cells)
                elif rng.random() < 0.6:    # a loop (and what drains into it) around its interior
                    _, _, _, cells, interior = ring_flow(rng, nr, nc)
                    cellsf = sorted(set(cells) | set(interior))
                    if set(cellsf) == set(cells):
                        cells = [c for c in cells if c != interior[0]]
                else:                       # a full rectangle with pits
                    r0, k0 = rng.randint(0, nr - 3), rng.randint(0, nc - 3)
                    r1, k1 = rng.randint(r0 + 2, nr - 1), rng.randint(k0 + 2, nc - 1)
                    cellsf = [r * nc + k for r in range(r0, r1 + 1) for k in range(k0, k1 + 1)]
                    inner = [r * nc + k for r in range(r0 + 1, r1) for k in range(k0 + 1, k1)]
                    pits = set(rng.sample(inner, rng.randint(1, min(3, len(inner)))))
                    cells = [c for c in cellsf if c not in pits]
                rng.shuffle(cells)
                for _, filled, rl, ol, dl in chunk:
                    g = rel_grid(rng, G, geo, rl, ol, dl)
                    lat = [kind] + g.pop("lattice")
                    out.append(dict(geo, kind="intersect", cells=list(cells), cellsf=list(cellsf), filled=filled,
                                    dyadic=dyadic and rl != "near-one", mode="lattice", lattice=lat,
                                    filled_as=option(filled), **g))
                continue
            # delineated: the object is made by delineate_area on a flow grid
            inlets = None
            if kind == "delin-any":
                from harness.props import c06
                if rng.random() < 0.6:
                    fd, outlets = gen_comb(rng, nr, nc)
                else:
                    fd = c06.rand_acyclic(rng, nr, nc)
                    outlets = list(c06.good_outlets(rng, fd, nr, nc))[:2] or [n - 1]
                outlet = rng.choice(outlets)
            else:
                for _ in range(20):
                    fd, outlet, joined, _, _ = ring_flow(rng, nr, nc)
                    if kind == "delin-holed" or joined:
                        break
                if kind == "delin-inlet" and joined:
                    inlets = rng.sample(joined, rng.choice([1, 1, min(2, len(joined))]))
            ops = [["new", 0, outlet, inlets]]
            for _, filled, rl, ol, dl in chunk:
                g = rel_grid(rng, G, geo, rl, ol, dl)
                g["lattice"] = [kind] + g["lattice"]
                g["filled_as"] = option(filled)
                ops.append(["intersect", 0, g, filled])
            out.append(dict(geo, kind="session", dyadic=dyadic, fd=fd, ops=ops, mode="lattice"))
    return out


def lattice_combos(rng, extra):
    """Every combination kind x filled x ratio level x offset level x dimension level once, plus `extra`
    random ones (drawn towards the catchment's own geometry); in random order, so that the combinations sharing a catchment object differ from run to run."""
    full = [(k, f, rl, ol, dl) for k in LATTICE_KINDS for f in (False, True) for rl in RATIO_LEVELS
            for ol in OFFSET_LEVELS for dl in DIM_LEVELS]
    def pick(levels):        # the first level (the catchment's own ratio / corner / dimensions) half of the time
        levels = list(levels)
        return levels[0] if rng.random() < 0.5 else rng.choice(levels[1:])
    combos = full + [(rng.choice(LATTICE_KINDS), rng.random() < 0.5, pick(RATIO_LEVELS), pick(OFFSET_LEVELS),
                      pick(DIM_LEVELS)) for _ in range(extra)]
    rng.shuffle(combos)
    return combos


# ----------------------------------------------------------------------------

def run(ctx):
    ctx.rule = ("Catchment.intersect: fine grids up to 12x12 (thorough 30x30), cell subsets of size 0/1/2/all/random, "
                "coarse grids up to 6x6 (thorough 10x10) with cell-size ratios 1,1.5,2,2.5,3,4 and random in [1,4], "
                "offsets on half/quarter fine cells (centres on coarse edges), covering / partial (each side) / no "
                "overlap / arbitrary, filled and unfilled (superset lists, a ring with a hole, areas from "
                "delineate_area), dyadic and non-dyadic geometry; the kernel directly on points on edges, outside "
                "on eight sides, NaN/inf, repeats; voronoi: 1..6 points coincident with centres / each other, mirror "
                "images (ties), lattice, far outside, random; operation sequences (60, thorough 1000) on 1..5 "
                "Catchment objects sharing a flow grid up to 8x8 (comb of side-by-side bands with one-cell holes, or "
                "a random forest): delineate / from_dict, use (intersect on 1..3 grids with both `filled` flags, "
                "voronoi, plot_area, extent, isin, to_dict, str, delineate_boundary), combine (+, -, onto a new or an "
                "existing name), clone, to_dict/from_dict round trip, re-delineate at another outlet, use again - every "
                "intersect / voronoi step judged for the cell set the object's accessors report at that step, and "
                "every earlier result read again after the sequence; option combinations of Catchment.intersect, "
                "each at least once per run (thorough 8 times) + random ones drawn towards the catchment's own "
                "geometry: kind of catchment (full rectangle / loop or pitted rectangle with holes / no, one, every "
                "cell of the flow grid, all but inner ones - installed with from_dict; loop draining round sinks / "
                "loop with an excluded inlet area / comb or forest - made by delineate_area, scipy's filling "
                "included) x filled False/True (keyword, positional, numpy bool, omitted default) x cell-size ratio "
                "(exactly 1 / next to 1 on both sides: 1+-1e-9, 1+-4e-6, 1+2^-40, 1+2e-5, 1.001 / elsewhere: 2, "
                "2+-1e-9, 1.5, 2.5, 3, 4, random, finer grids 0.5 and 0.75) x corner offset (none / tiny: one ulp, "
                "5e-9, 4e-6 relative, 1e-12 and 1e-7 cells, on one or both axes / whole fine or coarse cells / one "
                "axis only / fractions of a cell) x dimensions (those of the flow grid / one row or column more or "
                "less, transposed / covering, 1x1, one row, one column, double), the grid being a new object or "
                "the catchment's own flow-direction grid object; voronoi points handed over as float64 array, nested "
                "list, row-strided view, column-strided view, int64, float32, 1-d single point; "
                "non-trivial = distinct (kind, class) signature")
    ctx.trusted = cm.STD_TRUST + ["numpy fancy-index assignment, np.min/np.max/np.unique (modelled, compared on every case)",
                                  "Catchment.from_dict used to install arbitrary cell sets (area / filled area)",
                                  "operation sequences: the cell set of an object is the one its public accessors "
                                  "idxcells_area / idxcells_area_filled return just before the call (what `+` / `-` / "
                                  "delineate_area put there is C06's business, not judged here)"]
    ctx.tested_not_proved = [
        "binary64: a weight accumulated by repeated addition equals count x ratio to 1e-12 relative (oracle)",
        "binary64: rounding never moves a centre across a coarse-cell edge that is more than 1e-9 cells away (oracle)",
        "binary64: the Voronoi point chosen is an exact nearest point unless two squared distances agree to 2e-9 (oracle)",
        "hole filling itself (scipy.ndimage.binary_fill_holes) - C06; here `filled` only selects the list",
        "points farther than 1e30 from a cell are never selected (hypothesis of the nearest-point theorem; generators stay below 1e6 cells)"]
    proved = cm.prove_with_kernels(ctx, ["c_intersect", "c_voronoi", "c_coord2cell", "getcoord"])
    cm.use_impl()
    rng = ctx.rng
    terms, replays = [], []
    orc_fail = set()
    stats = {"intersect": 0, "intersect_error": 0, "intersect_edge_ambiguous": 0, "kernel": 0,
             "voronoi": 0, "voronoi_cells_with_ties": 0, "voronoi_empty": 0, "session": 0, "session_steps": 0,
             "intersect_combination_classes": 0, "intersect_own_geometry": 0,
             "intersect_own_geometry_filled_with_holes": 0, "intersect_grid_is_flowdir_object": 0}

    def add(term, replay, sig):
        terms.append(term)
        replays.append(replay)
        ctx.count(sig)
        if len(terms) % 400 == 1:
            ctx.sample({k: v for k, v in replay.items() if k != "impl"})
        return len(terms) - 1

    def fail(idx, key, what):
        orc_fail.add(idx)
        ctx.failure(key, replays[idx], what)

    def check_intersect(case, r, replay, sig_head=("inter",)):
        """Oracle + correspondence term for one call of Catchment.intersect with outcome r."""
        fails, (sure_in, may_in) = oracle_intersect(case, r)
        cs = case["cellsf"] if case["filled"] else case["cells"]
        own = all(case[a] == case[b] for a, b in (("nrows", "nr_a"), ("ncols", "nc_a"), ("xll", "xll_a"),
                                                   ("yll", "yll_a"), ("csz", "csz_a")))
        holes = set(case.get("cellsf", case["cells"])) != set(case["cells"])
        sig = sig_head + (r is None, min(len(cs), 3), min(len(r["idx"]) if r else 0, 3), sure_in != may_in,
                          sure_in == len(cs), sure_in == 0, case["filled"], case.get("dyadic"),
                          round(case["csz"] / case["csz_a"], 1) if case["csz_a"] else None,
                          case["nrows"] == 1, case["ncols"] == 1, own, holes,
                          tuple(case.get("lattice") or ()), case.get("filled_as"), bool(case.get("grid_is_flowdir")))
        i = add(term_intersect(case, r), replay, sig)
        stats["intersect"] += 1
        stats["intersect_combination_classes"] += "lattice" in case
        stats["intersect_own_geometry"] += own
        stats["intersect_own_geometry_filled_with_holes"] += own and holes and bool(case["filled"])
        stats["intersect_grid_is_flowdir_object"] += bool(case.get("grid_is_flowdir"))
        stats["intersect_error"] += r is None
        stats["intersect_edge_ambiguous"] += sure_in != may_in
        for suffix, msg in fails:
            fail(i, f"C16/intersect/{suffix}", msg)
        return i

    def do_intersect(case):
        r = impl_intersect(case)
        check_intersect(case, r, dict(case, call="Catchment.intersect", impl=r))

    def do_kernel(case):
        ierr, idx, w = impl_kernel(case)
        i = add(term_kernel(case, idx, w), dict(case, call="c_hydrodiy_gis.intersect", impl=[ierr, idx, w]),
                ("kern", min(len(case["xys"]), 3), min(len(idx), 3), len(idx) < len(case["xys"]),
                 any(math.isnan(v) or math.isinf(v) for p in case["xys"] for v in p)))
        stats["kernel"] += 1
        if ierr != 0:
            fail(i, "C16/intersect/kernel-error", f"c_intersect returned {ierr}")

    def check_voronoi(case, w, replay, sig_head=("vor",)):
        fails, nties = oracle_voronoi(case, w)
        i = add(term_voronoi(case, w), replay,
                sig_head + (min(len(case["cells"]), 3), len(case["pts"]), nties > 0, case["dyadic"],
                            len(case["pts"]) > len(case["cells"]), case.get("pts_as", "array")))
        stats["voronoi"] += 1
        stats["voronoi_cells_with_ties"] += nties
        stats["voronoi_empty"] += len(case["cells"]) == 0
        for suffix, msg in fails:
            fail(i, f"C16/voronoi/{suffix}", msg)
        return i

    def do_voronoi(case):
        w = impl_voronoi(case)
        check_voronoi(case, w, dict(case, call="voronoi", impl=w))

    def do_session(case):
        """Every intersect / voronoi step of the session is an ordinary case (oracle + correspondence) for
        the cell set the object holds at that step; its replay is the whole session up to that step."""
        def history(step):
            # what had been done with the objects before this step: the signature of the step
            ops = case["ops"][:step]
            return (tuple(sorted({o[0] for o in ops})), case["ops"][step][0])

        def replay(step, call, sub, impl):
            return dict(case, ops=case["ops"][:step + 1], step=step, call=call, checked_as=sub, impl=impl)

        def on_intersect(sub, r, step):
            stats["session_steps"] += 1
            return check_intersect(sub, r, replay(step, "Catchment.intersect at the last step of the session", sub, r),
                                   ("sess-inter", history(step)))

        def on_voronoi(sub, w, step):
            stats["session_steps"] += 1
            return check_voronoi(sub, w, replay(step, "voronoi at the last step of the session", sub, w),
                                 ("sess-vor", history(step)))

        stats["session"] += 1
        held = run_session(case, on_intersect, on_voronoi)
        # the results handed out earlier still have to be what the property states once the session is over
        # (a result that shares storage with the object or with a later result is overwritten by later calls)
        for i, sub, r, live in held:
            if r is None:
                continue
            r2 = extract_result(*live)
            if r2 != r:
                for suffix, msg in oracle_intersect(sub, r2)[0]:
                    replays[i] = dict(case, step=replays[i]["step"], call="Catchment.intersect at step `step`, result "
                                      "read again after the whole session", checked_as=sub, impl_at_call=r, impl=r2)
                    fail(i, f"C16/intersect/{suffix}", "result changed by later calls on the same objects: " + msg)

    DO = {"intersect": do_intersect, "kernel": do_kernel, "voronoi": do_voronoi, "session": do_session}

    # ---- a replay file given on the command line, then the corpus (earlier failures, DESIGN section 6 row 11)
    rp = getattr(ctx, "replay", None)
    if rp:
        case = rp.get("replay", rp)
        case = case.get("first_mismatch", case)
        if isinstance(case, dict) and case.get("kind") in DO:
            DO[case["kind"]]({k: v for k, v in case.items() if k not in ("impl", "call")})
    for case in cm.load_corpus(PID):
        DO[case["kind"]](case)

    S, G = ctx.scale(12, 30), ctx.scale(6, 10)
    for _ in range(ctx.scale(900, 12000)):
        do_intersect(gen_intersect(rng, S, G))
    for _ in range(ctx.scale(60, 600)):
        do_intersect(gen_ring(rng))
    for _ in range(ctx.scale(60, 600)):
        do_intersect(gen_delineated(rng, S))
    # option combinations: every (kind of catchment x filled x ratio level x offset level x dimension level)
    # at least once (thorough: 8 times) + random ones
    for _ in range(ctx.scale(1, 8)):
        for case in gen_lattice(rng, S, G, lattice_combos(rng, ctx.scale(60, 400))):
            DO[case["kind"]](case)
    for _ in range(ctx.scale(400, 4000)):
        do_kernel(gen_kernel(rng, G))
    for _ in range(ctx.scale(NSESS_QUICK, 1000)):
        do_session(gen_session(rng, S, G))
    for _ in range(ctx.scale(900, 12000)):
        do_voronoi(gen_voronoi(rng, S))

    bad, nshards, failed = cm.run_case_files(PID, HEADER, "icase", "i_ok", terms, shard=250, max_bytes=400000)
    ctx.notes["correspondence_cases"] = len(terms)
    ctx.notes["correspondence_mismatches"] = len(bad)
    ctx.notes["case_distribution"] = stats
    for k in range(nshards):
        ctx.obligation(f"Cases_{PID}_{k}.agree (model = implementation on the shard)", True)
    cm.settle(ctx, proved, bad, failed, orc_fail, lambda i: replays[i],
              "Model/Intersect.v + Model/Grid.v vs c_grid.c (c_intersect, c_voronoi) + grid.py (Catchment.intersect, voronoi)")
    return ctx.finish()
