"""C05 - generators of kernel-level cases (wrapper-admissible arguments for each
compiled kernel) and the Coq terms of Model/SafetyCases.v built from what the
sanitizer driver observed.  Every case is (worker case, builder) where
builder(observation) -> Coq term of type kcase; observation = None when the kernel
crashed (sanitizer report / signal)."""
from harness import common as cm

SENT = 0x5A5A5A5A5A5A5A5A
NAN = float("nan")
INF = float("inf")
I32MAX, I32MIN = 2147483647, -2147483648
I64MAX, I64MIN = 9223372036854775807, -9223372036854775808
CODE = [32, 64, 128, 16, 0, 1, 8, 4, 2]


# ---------------------------------------------------------------------------
# literals

def Z(n):
    return cm.coq_z(n)


def ZL(xs):
    return cm.coq_zlist(xs)


def F(x):
    return cm.coq_float(x)


def FL(xs):
    return cm.coq_flist(xs)


def B(b):
    return "true" if b else "false"


def marks(buf):
    return "[" + "; ".join("false" if v is None else "true" for v in buf) + "]"


def zsent(buf):
    return ZL([SENT if v is None else v for v in buf])


def optz(buf):
    return "[" + "; ".join("None" if v is None else f"(Some {Z(v)})" for v in buf) + "]"


def fvals(buf):
    return FL([NAN if v is None else float.fromhex(v) for v in buf])


def obs(o, *fmt):
    """crashed rc buf1 buf2 ... ; fmt = (index in o['bufs'], formatter) pairs"""
    if o is None:
        return "true 0%Z " + " ".join("[]" for _ in fmt)
    return f"false {Z(o['rc'])} " + " ".join(f(o["bufs"][i]) for i, f in fmt)


# ---------------------------------------------------------------------------
# value generators

def size(rng, big):
    return rng.choice([0, 1, 2, 3, 3, 4, 5, rng.randint(0, big)])


def fval(rng):
    r = rng.random()
    if r < 0.12:
        return NAN
    if r < 0.17:
        return rng.choice([INF, -INF])
    if r < 0.22:
        return rng.choice([1e300, -1e300, 1e19, -1e19, 9.3e18, 2.0 ** 63, -2.0 ** 63])
    if r < 0.3:
        return rng.choice([0.0, -0.0, 1.0, -1.0, 0.5])
    if r < 0.6:
        return float(rng.randint(-5, 12))
    return rng.uniform(-10, 10) * rng.choice([1, 1, 1e-3, 1e3])


def fnice(rng):
    return rng.choice([float(rng.randint(-3, 9)), rng.uniform(-5, 5), 0.0, 0.5])


def cellval(rng, ntot):
    r = rng.random()
    if r < 0.65 and ntot > 0:
        return rng.randrange(ntot)
    return rng.choice([-1, -2, ntot, ntot + 1, -ntot - 1, I64MAX, I64MIN, 10 ** 12, 0])


def flowgrid(rng, nrows, ncols):
    n = nrows * ncols
    mode = rng.random()
    vals = [32, 64, 128, 16, 1, 8, 4, 2]
    if mode < 0.5:
        return [rng.choice(vals) for _ in range(n)]
    if mode < 0.8:
        return [rng.choice(vals + [0, 0, 3, -1]) for _ in range(n)]
    return [rng.choice([1, 16]) for _ in range(n)]      # east/west: plenty of 2-cycles


def shape(rng, big):
    return rng.choice([(0, 0), (1, 1), (1, 3), (3, 1), (2, 2), (0, 3), (3, 0), (3, 4),
                       (rng.randint(1, big), rng.randint(1, big))])


# ---------------------------------------------------------------------------
# one generator per kernel: returns (signature, worker case, builder)

def g_aggregate(rng, big):
    n = size(rng, big)
    mode = rng.random()
    if mode < 0.6:
        cur, agg = rng.randint(-3, 3), []
        for _ in range(n):
            cur += rng.choice([0, 0, 0, 1, 1, 2])
            agg.append(cur)
    elif mode < 0.8:
        agg = [rng.randint(-2, 3) for _ in range(n)]          # decreasing somewhere: error path
    else:
        agg = list(range(n))                                   # every index its own group
    inp = [fval(rng) for _ in range(n)]
    op, maxnan = rng.choice([0, 1, 2, 3, 4, -1]), rng.choice([0, 1, -1, 5, I32MAX])
    case = {"k": "c_aggregate", "a": [["i", n], ["i", op], ["i", maxnan], ["pi", agg], ["pd", inp],
                                      ["pd", {"n": n}], ["pi", {"n": 1}]]}
    return ("aggregate", min(n, 3)), case, lambda o: f"KAggregate {Z(n)} {ZL(agg)} " + obs(o, (2, marks), (3, optz))


def g_flathomogen(rng, big):
    n = size(rng, big)
    if rng.random() < 0.75:
        cur, agg = rng.randint(-3, 3), []
        for _ in range(n):
            cur += rng.choice([0, 0, 0, 1, 2])
            agg.append(cur)
    else:
        agg = [rng.randint(-2, 3) for _ in range(n)]
    inp = [fval(rng) for _ in range(n)]
    case = {"k": "c_flathomogen", "a": [["i", n], ["i", rng.choice([0, 1, -1, 3])], ["pi", agg], ["pd", inp],
                                        ["pd", {"n": n}]]}
    return ("flathomogen", min(n, 3)), case, lambda o: f"KFlathomogen {Z(n)} {ZL(agg)} " + obs(o, (2, marks))


def g_islin(rng, big):
    n = size(rng, big + 10)
    mode = rng.random()
    if mode < 0.5:      # linear stretches
        data, v = [], rng.uniform(0, 5)
        while len(data) < n:
            k, step = rng.randint(1, 6), rng.choice([0.0, 0.5, 1.0, -0.25])
            for _ in range(k):
                v += step
                data.append(v)
            if rng.random() < 0.4:
                v = rng.uniform(0, 5)
        data = data[:n]
        for _ in range(n // 6):
            data[rng.randrange(n)] = NAN
    else:
        data = [fval(rng) for _ in range(n)]
    thresh = rng.choice([0.0, 1.0, -1e300, NAN, rng.uniform(-1, 3)])
    tol = rng.choice([1e-5, 1e-10, 0.3, 1e300, NAN])
    npoints = rng.choice([1, 1, 2, 3, 10, 0, -1, I32MAX])
    case = {"k": "c_islin", "a": [["i", n], ["d", thresh], ["d", tol], ["i", npoints], ["pd", data], ["pi", {"n": n}]]}
    return ("islin", min(n, 4), npoints > 0), case, lambda o: (
        f"KIslin {Z(n)} {F(thresh)} {F(tol)} {Z(npoints)} {FL(data)} " + obs(o, (1, optz)))


def g_eckhardt(rng, big):
    n = size(rng, big)
    tt = rng.choice([0, 1, 1, 1, 1, 1, 2, -1])
    thresh = rng.choice([0.95, 0.95, 0.5, 0.0, 1.0, -0.1, 1.1, NAN])
    bfi = rng.choice([0.8, 0.8, 0.3, 0.0, 1.0, -0.1, 1.5, NAN])
    tau = rng.choice([20.0, 0.0, -1.0, NAN, INF])
    inp = [fval(rng) for _ in range(n)]
    case = {"k": "c_eckhardt", "a": [["i", n], ["i", tt], ["d", thresh], ["d", tau], ["d", bfi], ["pd", inp],
                                     ["pd", {"n": n}]]}
    return ("eckhardt", min(n, 2), tt in (0, 1)), case, lambda o: (
        f"KEckhardt {Z(n)} {Z(tt)} {F(thresh)} {F(bfi)} " + obs(o, (1, marks)))


def g_var2h(rng, big):
    nv = rng.choice([0, 1, 2, 3, 4, rng.randint(1, big + 6)])
    P = rng.choice([1800, 1800, 3600, 3600, 3600, 3600, 3600, 60, 0])
    base = rng.choice([0, 946684800, -3600 * 5, 10 ** 11])
    mode = rng.random()
    t, varsec = base + rng.randint(0, 3599), []
    for _ in range(nv):
        varsec.append(t)
        t += rng.choice([600, 600, 1800, 3600, 7200, 1, 0, 40000]) if mode < 0.9 else rng.randint(-4000, 4000)
    hstart = (varsec[0] // 3600) * 3600 + 3600 if nv else base
    hstart += rng.choice([0, 0, 0, 0, 0, 0, 3600, -3600, 7200, 10 ** 6, -10 ** 6])
    if nv and mode < 0.9:
        span = varsec[-1] - varsec[0]
        nvalh = max(0, span // max(P, 1)) if rng.random() < 0.7 else rng.randint(0, 12)
    else:
        nvalh = rng.randint(0, 8)
    nvalh = min(nvalh, 400)
    rain, maxgap = rng.choice([0, 1, 0, 1, 0, 1, 0, 2, -1]), rng.choice([3600, 5 * 86400, 1, I32MAX])
    vals = [fval(rng) for _ in range(nv)]
    case = {"k": "c_var2h", "a": [["i", nv], ["i", nvalh], ["i", P], ["i", rain], ["i", 0], ["i", maxgap],
                                  ["pq", varsec], ["pd", vals], ["q", hstart], ["pd", {"n": nvalh}]]}
    allbefore = all(v <= hstart for v in varsec)
    return ("var2h", min(nv, 3), min(nvalh, 2), allbefore, P in (1800, 3600)), case, lambda o: (
        f"KVar2h {Z(nv)} {Z(nvalh)} {Z(P)} {Z(rain)} {ZL(varsec)} {Z(hstart)} " + obs(o, (2, marks)))


def g_cell2rowcol(rng, big):
    nr, nc = shape(rng, big)
    n = size(rng, big)
    idx = [cellval(rng, nr * nc) for _ in range(n)]
    case = {"k": "c_cell2rowcol", "ret": "q", "a": [["q", nr], ["q", nc], ["q", n], ["pq", idx], ["pq", {"n": 2 * n}]]}
    return ("cell2rowcol", min(nr, 2), min(nc, 2), min(n, 2)), case, lambda o: (
        f"KCell2rowcol {Z(nr)} {Z(nc)} {Z(n)} {ZL(idx)} " + obs(o, (1, zsent)))


def g_cell2coord(rng, big):
    nr, nc = shape(rng, big)
    n = size(rng, big)
    idx = [cellval(rng, nr * nc) for _ in range(n)]
    case = {"k": "c_cell2coord", "ret": "q", "a": [["q", nr], ["q", nc], ["d", fnice(rng)], ["d", fnice(rng)],
                                                   ["d", rng.choice([1.0, 0.25, 0.0, -1.0, NAN])], ["q", n],
                                                   ["pq", idx], ["pd", {"n": 2 * n}]]}
    return ("cell2coord", min(nr, 2), min(nc, 2), min(n, 2)), case, lambda o: (
        f"KCell2coord {Z(nr)} {Z(nc)} {Z(n)} {ZL(idx)} " + obs(o, (1, marks)))


def g_neighbours(rng, big):
    nr, nc = shape(rng, big)
    idx = cellval(rng, nr * nc)
    case = {"k": "c_neighbours", "ret": "q", "a": [["q", nr], ["q", nc], ["q", idx], ["pq", {"n": 9}]]}
    return ("neighbours", min(nr, 2), min(nc, 2), 0 <= idx < nr * nc), case, lambda o: (
        f"KNeighbours {Z(nr)} {Z(nc)} {Z(idx)} " + obs(o, (0, zsent)))


def g_updown(rng, big, up):
    nr, nc = shape(rng, big)
    fd = flowgrid(rng, nr, nc)
    n = size(rng, big)
    idx = [cellval(rng, nr * nc) if rng.random() < 0.15 else (rng.randrange(nr * nc) if nr * nc else -1)
           for _ in range(n)]
    k = "c_upstream" if up else "c_downstream"
    case = {"k": k, "ret": "q", "a": [["q", nr], ["q", nc], ["pq", CODE], ["pq", fd], ["q", n], ["pq", idx],
                                      ["pq", {"n": 9 * n if up else n}]]}
    ctor = "KUpstream" if up else "KDownstream"
    return (k, min(nr, 2), min(nc, 2), min(n, 2)), case, lambda o: (
        f"{ctor} {Z(nr)} {Z(nc)} {ZL(CODE)} {ZL(fd)} {Z(n)} {ZL(idx)} " + obs(o, (3, zsent)))


def g_accumulate(rng, big):
    nr, nc = shape(rng, min(big, 6))
    fd = flowgrid(rng, nr, nc)
    nprint = rng.choice([0, 0, 1, 100, -1, -7, I64MAX, I64MIN, 3])
    maxacc = rng.choice([nr * nc, nr * nc, 0, -1, 1, 2, 50])
    n = nr * nc
    case = {"k": "c_accumulate", "ret": "q", "a": [["q", nr], ["q", nc], ["q", nprint], ["q", maxacc], ["d", -1.0],
                                                   ["pq", CODE], ["pq", fd], ["pd", [1.0] * n], ["pd", [1.0] * n]]}
    return ("accumulate", min(nr, 2), min(nc, 2), nprint == 0, min(max(maxacc, -1), 2)), case, lambda o: (
        f"KAccumulate {Z(nr)} {Z(nc)} {Z(nprint)} {Z(maxacc)} {ZL(CODE)} {ZL(fd)} " + obs(o))


def g_slope(rng, big):
    nr, nc = shape(rng, big)
    fd = flowgrid(rng, nr, nc)
    nprint = rng.choice([0, 0, 1, 100, -1, I64MIN, 3])
    n = nr * nc
    alt = [fval(rng) for _ in range(n)]
    case = {"k": "c_slope", "ret": "q", "a": [["q", nr], ["q", nc], ["q", nprint], ["d", rng.choice([1.0, 0.0, NAN])],
                                              ["pq", CODE], ["pq", fd], ["pd", alt], ["pd", {"n": n}]]}
    return ("slope", min(nr, 2), min(nc, 2), nprint == 0), case, lambda o: (
        f"KSlope {Z(nr)} {Z(nc)} {Z(nprint)} {ZL(CODE)} {ZL(fd)} " + obs(o, (3, marks)))


def g_delineate_area(rng, big):
    nr, nc = shape(rng, big)
    fd = flowgrid(rng, nr, nc)
    ntot = nr * nc
    outlet = cellval(rng, ntot) if rng.random() < 0.15 else (rng.randrange(ntot) if ntot else 0)
    inl = [cellval(rng, ntot) if rng.random() < 0.1 else (rng.randrange(ntot) if ntot else -1)
           for _ in range(rng.choice([0, 0, 1, 2, 3]))]
    nval = rng.choice([0, 1, 2, 3, ntot, ntot + 2, max(1, ntot // 2), 40])
    case = {"k": "c_delineate_area", "ret": "q", "a": [["q", nr], ["q", nc], ["pq", CODE], ["pq", fd], ["q", outlet],
                                                       ["q", len(inl)], ["pq", inl], ["q", nval],
                                                       ["pq", {"n": nval}], ["pq", {"n": nval}], ["pq", {"n": nval}]]}
    return ("delineate_area", min(nr, 2), min(nc, 2), min(nval, 3), len(inl) > 0), case, lambda o: (
        f"KDelineateArea {Z(nr)} {Z(nc)} {ZL(CODE)} {ZL(fd)} {Z(outlet)} {ZL(inl)} {Z(nval)} "
        + obs(o, (3, zsent), (4, zsent), (5, zsent)))


def g_delineate_boundary(rng, big):
    nr, nc = shape(rng, big)
    ntot = nr * nc
    mode = rng.random()
    if ntot and mode < 0.55:
        # a blob of cells, mask consistent with it
        r0, c0 = rng.randrange(nr), rng.randrange(nc)
        cells = {(r0, c0)}
        for _ in range(rng.randint(0, min(ntot, 14))):
            r, c = rng.choice(sorted(cells))
            dr, dc = rng.choice([(0, 1), (1, 0), (0, -1), (-1, 0)])
            if 0 <= r + dr < nr and 0 <= c + dc < nc:
                cells.add((r + dr, c + dc))
        area = [r * nc + c for r, c in cells]
        rng.shuffle(area)
        mask = [0] * ntot
        for a in area:
            mask[a] = 1
        if rng.random() < 0.1:
            mask[rng.randrange(ntot)] = rng.choice([0, 2])
    elif ntot and mode < 0.8:
        # scattered cells (Catchment.from_dict accepts anything), consistent mask
        area = rng.sample(range(ntot), rng.randint(1, min(ntot, 6)))
        mask = [0] * ntot
        for a in area:
            mask[a] = 1
    else:
        # anything: cells possibly outside the grid, user-provided mask
        area = [cellval(rng, ntot) for _ in range(rng.choice([0, 1, 2, 3, 5]))]
        mask = [rng.choice([0, 1, 1]) for _ in range(ntot)]
    nval = len(area)
    case = {"k": "c_delineate_boundary", "ret": "q", "a": [["q", nr], ["q", nc], ["q", nval], ["pq", area],
                                                           ["pq", {"n": nval}], ["pq", mask], ["pq", {"n": nval}]]}
    return ("delineate_boundary", min(nr, 2), min(nc, 2), min(nval, 3), int(mode * 10) // 3), case, lambda o: (
        f"KDelineateBoundary {Z(nr)} {Z(nc)} {Z(nval)} {ZL(area)} {ZL(mask)} "
        + obs(o, (0, zsent), (1, zsent), (3, zsent)))


def g_river(rng, big):
    nr, nc = shape(rng, big)
    fd = flowgrid(rng, nr, nc)
    ntot = nr * nc
    up = cellval(rng, ntot) if rng.random() < 0.2 else (rng.randrange(ntot) if ntot else 0)
    nval = rng.choice([0, 1, 2, 3, ntot + 3, 30])
    case = {"k": "c_delineate_river", "ret": "q", "a": [["q", nr], ["q", nc], ["d", 0.0], ["d", 0.0], ["d", 1.0],
                                                        ["pq", CODE], ["pq", fd], ["q", up], ["q", nval],
                                                        ["pq", {"n": 1}], ["pq", {"n": nval}], ["pd", {"n": 5 * nval}]]}
    return ("river", min(nr, 2), min(nc, 2), min(nval, 3)), case, lambda o: (
        f"KRiver {Z(nr)} {Z(nc)} {ZL(CODE)} {ZL(fd)} {Z(up)} {Z(nval)} " + obs(o, (2, zsent), (3, zsent), (4, marks)))


def g_flowpath(rng, big):
    nr, nc = shape(rng, big)
    fd = flowgrid(rng, nr, nc)
    ntot = nr * nc
    nval = size(rng, big)
    area = [cellval(rng, ntot) if rng.random() < 0.15 else (rng.randrange(ntot) if ntot else -1) for _ in range(nval)]
    outlet = cellval(rng, ntot)
    case = {"k": "c_delineate_flowpathlengths_in_catchment", "ret": "q",
            "a": [["q", nr], ["q", nc], ["pq", CODE], ["pq", fd], ["q", nval], ["pq", area], ["q", outlet],
                  ["pd", {"n": 3 * nval}]]}
    return ("flowpath", min(nr, 2), min(nc, 2), min(nval, 3)), case, lambda o: (
        f"KFlowpath {Z(nr)} {Z(nc)} {ZL(CODE)} {ZL(fd)} {Z(nval)} {ZL(area)} {Z(outlet)} " + obs(o, (3, marks)))


def gridgeom(rng):
    xll, yll = rng.choice([(0.0, 0.0), (10.0, 20.0), (-3.25, 1.5), (1e6, -1e6)])
    csz = rng.choice([1.0, 2.0, 0.25, 1.0, 0.0, -1.0, NAN, 1e-300, INF])
    return xll, yll, csz


def coordval(rng, lo, hi):
    lo, hi = min(lo, hi), max(lo, hi)
    r = rng.random()
    if r < 0.6:
        return rng.uniform(lo - 1, hi + 1)
    if r < 0.75:
        return float(rng.randint(int(lo) - 1, int(hi) + 1))
    return fval(rng)


def g_coord2cell(rng, big):
    nr, nc = shape(rng, big)
    xll, yll, csz = gridgeom(rng)
    n = size(rng, big)
    c = csz if csz == csz and abs(csz) < 1e3 else 1.0
    xy = []
    for _ in range(n):
        xy += [coordval(rng, xll, xll + nc * c), coordval(rng, yll, yll + nr * c)]
    case = {"k": "c_coord2cell", "ret": "q", "a": [["q", nr], ["q", nc], ["d", xll], ["d", yll], ["d", csz], ["q", n],
                                                   ["pd", xy], ["pq", {"n": n}]]}
    return ("coord2cell", min(nr, 2), min(nc, 2), min(n, 2), csz == 1.0), case, lambda o: (
        f"KCoord2cell {Z(nr)} {Z(nc)} {F(xll)} {F(yll)} {F(csz)} {Z(n)} {FL(xy)} " + obs(o, (1, zsent)))


def g_intersect(rng, big):
    nr, nc = shape(rng, min(big, 5))
    xll, yll, csz = gridgeom(rng)
    n = size(rng, big + 10)
    c = csz if csz == csz and abs(csz) < 1e3 else 1.0
    xy = []
    for _ in range(n):
        xy += [coordval(rng, xll, xll + nc * c), coordval(rng, yll, yll + nr * c)]
    ncells = nr * nc
    case = {"k": "c_intersect", "ret": "q", "a": [["q", nr], ["q", nc], ["d", xll], ["d", yll], ["d", csz],
                                                  ["d", rng.choice([0.1, 1.0, 0.0, NAN])], ["q", n], ["pd", xy],
                                                  ["q", ncells], ["pq", {"n": 1}], ["pq", {"n": ncells}],
                                                  ["pd", {"n": ncells}]]}
    return ("intersect", min(nr, 2), min(nc, 2), min(n, 3)), case, lambda o: (
        f"KIntersect {Z(nr)} {Z(nc)} {F(xll)} {F(yll)} {F(csz)} {Z(n)} {FL(xy)} {Z(ncells)} "
        + obs(o, (1, zsent), (2, zsent), (3, marks)))


def g_voronoi(rng, big):
    nr, nc = shape(rng, big)
    xll, yll, csz = gridgeom(rng)
    ntot = nr * nc
    ncells = size(rng, big)
    area = [cellval(rng, ntot) if rng.random() < 0.1 else (rng.randrange(ntot) if ntot else 0) for _ in range(ncells)]
    npts = rng.choice([0, 1, 1, 2, 3, 5])
    xyp = []
    for _ in range(npts):
        xyp += [coordval(rng, xll, xll + nc), coordval(rng, yll, yll + nr)]
    if npts >= 2 and rng.random() < 0.3:       # equidistant points: ties
        xyp[2:4] = xyp[0:2]
    case = {"k": "c_voronoi", "ret": "q", "a": [["q", nr], ["q", nc], ["d", xll], ["d", yll], ["d", csz], ["q", ncells],
                                                ["pq", area], ["q", npts], ["pd", xyp], ["pd", {"n": npts}]]}
    return ("voronoi", min(nr, 2), min(nc, 2), min(ncells, 2), min(npts, 2), ncells > npts), case, lambda o: (
        f"KVoronoi {Z(nr)} {Z(nc)} {F(xll)} {F(yll)} {F(csz)} {Z(ncells)} {ZL(area)} {Z(npts)} {FL(xyp)} "
        + obs(o, (2, fvals)))


def _npmin(xs):
    m = xs[0]
    for x in xs:
        if x != x or m != m:
            m = NAN
        elif x < m:
            m = x
    return m


def _npmax(xs):
    m = xs[0]
    for x in xs:
        if x != x or m != m:
            m = NAN
        elif x > m:
            m = x
    return m


def g_inside(rng, big):
    nv = rng.choice([1, 2, 3, 4, 5, rng.randint(1, big)])
    poly = []
    for _ in range(nv):
        poly += [float(rng.randint(0, 6)) if rng.random() < 0.8 else fval(rng),
                 float(rng.randint(0, 6)) if rng.random() < 0.8 else fval(rng)]
    npts = size(rng, big)
    pts = []
    for _ in range(npts):
        pts += [coordval(rng, 0, 6), coordval(rng, 0, 6)]
    xlim = [_npmin(poly[0::2]), _npmax(poly[0::2])]
    ylim = [_npmin(poly[1::2]), _npmax(poly[1::2])]
    nprint = rng.choice([0, 0, 1, 2, -1, I32MAX])
    case = {"k": "c_inside", "a": [["i", nprint], ["i", npts], ["pd", pts], ["i", nv], ["pd", poly], ["d", 1e-8],
                                   ["pd", xlim], ["pd", ylim], ["pi", {"n": npts}]]}
    return ("inside", min(nv, 3), min(npts, 2), nprint > 0), case, lambda o: (
        f"KInside {Z(nprint)} {Z(npts)} {FL(pts)} {Z(nv)} {FL(poly)} {FL(xlim)} {FL(ylim)} " + obs(o, (4, marks)))


def g_armodel(rng, big):
    resid = rng.random() < 0.5
    npar = rng.choice([0, 1, 1, 2, 3, 5, 10, 10, 11, 12])
    params = [rng.uniform(-0.5, 0.5) for _ in range(npar)]
    r = rng.random()
    if r < 0.08 and npar:
        params[rng.randrange(npar)] = NAN
    mean = NAN if 0.08 <= r < 0.12 else rng.uniform(-2, 2)
    ini = NAN if 0.12 <= r < 0.16 else rng.uniform(-2, 2)
    n = size(rng, big)
    inp = [fval(rng) for _ in range(n)]
    k = "c_armodel_residual" if resid else "c_armodel_sim"
    case = {"k": k, "a": [["i", n], ["i", npar], ["d", mean], ["d", ini], ["pd", params], ["pd", inp], ["pd", {"n": n}]]}
    return ("armodel", resid, min(npar, 2) if npar <= 10 else 11, min(n, 2)), case, lambda o: (
        f"KArmodel {B(resid)} {Z(n)} {Z(npar)} {F(mean)} {F(ini)} {FL(params)} {FL(inp)} " + obs(o, (2, marks)))


def g_crps(rng, big):
    nval = rng.choice([1, 1, 2, 3, rng.randint(1, big)])
    ncol = rng.choice([1, 1, 2, 3, rng.randint(1, big)])
    is_sorted = rng.choice([0, 0, 1])
    use_w = rng.choice([0, 0, 1])
    sim = []
    for _ in range(nval):
        row = [float(rng.randint(0, 5)) if rng.random() < 0.5 else rng.uniform(-3, 3) for _ in range(ncol)]
        if is_sorted and rng.random() < 0.6:
            row.sort()
        if is_sorted and rng.random() < 0.15:
            row[rng.randrange(ncol)] = fval(rng)
        sim += row
    seen = []
    for i in range(nval):
        row = sim[i * ncol:(i + 1) * ncol]
        seen += row if is_sorted else sorted(row)
    obsv = [fval(rng) for _ in range(nval)]
    w = [rng.random() for _ in range(nval)]
    case = {"k": "c_crps", "a": [["i", nval], ["i", ncol], ["i", use_w], ["i", is_sorted], ["pd", obsv], ["pd", sim],
                                 ["pd", w], ["pd", {"n": 7 * (ncol + 1)}], ["pd", [0.0] * 5]]}
    return ("crps", min(nval, 2), min(ncol, 2), is_sorted, use_w), case, lambda o: (
        f"KCrps {Z(nval)} {Z(ncol)} {Z(use_w)} {Z(nval)} {FL(seen)} " + obs(o, (3, marks)))


def g_ensrank(rng, big):
    nval = rng.choice([0, 1, 2, 3, 4, 6])
    ncol = rng.choice([0, 1, 2, 3, 5])
    eps = rng.choice([1e-6, 1e-8, 1e-21, 0.0, -1.0, NAN, 1.0])
    sim = [float(rng.randint(0, 4)) if rng.random() < 0.5 else fval(rng) for _ in range(nval * ncol)]
    case = {"k": "c_ensrank", "a": [["d", eps], ["i", nval], ["i", ncol], ["pd", sim], ["pd", {"n": nval * nval}],
                                    ["pd", {"n": nval}]]}
    return ("ensrank", min(nval, 3), min(ncol, 2), eps == eps and eps >= 1e-20), case, lambda o: (
        f"KEnsrank {F(eps)} {Z(nval)} {Z(ncol)} " + obs(o, (1, marks), (2, marks)))


def g_adtest(rng, big):
    n = size(rng, big)
    x = [rng.random() for _ in range(n)]
    r = rng.random()
    if r < 0.25 and n:
        x[rng.randrange(n)] = rng.choice([0.0, 1.0, -0.1, 1.1, INF, -INF, 2.0])
    case = {"k": "c_ad_test", "a": [["i", n], ["pd", x], ["pd", {"n": 2}]]}

    def build(o):
        if o is None:
            return f"KAdtest {Z(n)} {FL(sorted(x))} true 0%Z []"
        srt = [float.fromhex(v) for v in o["bufs"][0]]      # unifdata as qsort left it
        return f"KAdtest {Z(n)} {FL(srt)} " + obs(o, (1, marks))
    return ("adtest", min(n, 3), r < 0.25), case, build


def g_pareto(rng, big):
    nval, ncol = size(rng, big), rng.choice([0, 1, 2, 3])
    orient = rng.choice([1, -1, 0, 5])
    data = [float(rng.randint(0, 3)) if rng.random() < 0.7 else fval(rng) for _ in range(nval * ncol)]
    case = {"k": "c_paretofront", "a": [["i", nval], ["i", ncol], ["i", orient], ["pd", data], ["pi", {"n": nval}]]}

    def z32(buf):
        return ZL([SENT if v is None else v for v in buf])
    return ("pareto", min(nval, 3), ncol), case, lambda o: (
        f"KPareto {Z(nval)} {Z(ncol)} {F(float(orient))} {FL(data)} " + obs(o, (1, z32)))


def dateval(rng):
    return [rng.choice([2000, 1999, 1900, 2024, 0, -1, I32MAX, I32MIN, rng.randint(1800, 2100)]),
            rng.choice([1, 2, 11, 12, 12, 0, 13, -1, I32MAX, rng.randint(1, 12)]),
            rng.choice([1, 28, 29, 30, 31, 31, 0, 32, -1, I32MAX, rng.randint(1, 31)])]


def g_add1month(rng, big):
    d = dateval(rng)
    case = {"k": "c_dateutils_add1month", "a": [["pi", d]]}
    return ("add1month", d[1] >= 12, d[0] == I32MAX), case, lambda o: f"KAdd1month {ZL(d)} " + obs(o, (0, ZL))


def g_add1day(rng, big):
    d = dateval(rng)
    case = {"k": "c_dateutils_add1day", "a": [["pi", d]]}
    return ("add1day", 1 <= d[1] <= 12, d[0] == I32MAX), case, lambda o: f"KAdd1day {ZL(d)} " + obs(o, (0, ZL))


def g_compare(rng, big):
    d1 = dateval(rng)
    d2 = list(d1) if rng.random() < 0.4 else dateval(rng)
    if rng.random() < 0.3:
        d2[2] = d1[2] + rng.choice([-1, 1]) if abs(d1[2]) < 1000 else d2[2]
    case = {"k": "c_dateutils_comparedates", "a": [["pi", d1], ["pi", d2]]}
    return ("comparedates", d1 == d2), case, lambda o: f"KCompare {ZL(d1)} {ZL(d2)} " + obs(o)


def g_getdate(rng, big):
    r = rng.random()
    if r < 0.5:
        day = float(rng.randint(1800, 2100) * 10000 + rng.randint(0, 13) * 100 + rng.randint(0, 32))
    elif r < 0.7:
        day = rng.choice([0.0, 1.0, 20000229.0, 19000229.0, 20001231.5, 2147483647.0, 2147483648.0, 99991231.0])
    else:
        day = fval(rng)
    case = {"k": "c_dateutils_getdate", "a": [["d", day], ["pi", {"n": 3}]]}

    def z32(buf):
        return ZL([SENT if v is None else v for v in buf])
    return ("getdate", int(r * 10) // 2), case, lambda o: f"KGetdate {F(day)} " + obs(o, (0, z32))


def g_daysinmonth(rng, big):
    y, m, _ = dateval(rng)
    case = {"k": "c_dateutils_daysinmonth", "a": [["i", y], ["i", m]]}
    return ("daysinmonth", 1 <= m <= 12), case, lambda o: f"KDaysinmonth {Z(y)} {Z(m)} " + obs(o)


def g_dayofyear(rng, big):
    _, m, d = dateval(rng)
    case = {"k": "c_dateutils_dayofyear", "a": [["i", m], ["i", d]]}
    return ("dayofyear", 1 <= m <= 12, 1 <= d <= 31), case, lambda o: f"KDayofyear {Z(m)} {Z(d)} " + obs(o)


GENERATORS = [
    (g_aggregate, 3), (g_flathomogen, 3), (g_islin, 3), (g_eckhardt, 2), (g_var2h, 4),
    (g_cell2rowcol, 1), (g_cell2coord, 1), (g_neighbours, 1),
    (lambda r, b: g_updown(r, b, True), 2), (lambda r, b: g_updown(r, b, False), 2),
    (g_accumulate, 3), (g_slope, 2), (g_delineate_area, 3), (g_delineate_boundary, 5), (g_river, 2),
    (g_flowpath, 2), (g_coord2cell, 3), (g_intersect, 2), (g_voronoi, 3), (g_inside, 2),
    (g_armodel, 2), (g_crps, 2), (g_ensrank, 1), (g_adtest, 1), (g_pareto, 1),
    (g_add1month, 1), (g_add1day, 1), (g_compare, 1), (g_getdate, 2), (g_daysinmonth, 1), (g_dayofyear, 1),
]

# the section-6 defects as kernel-level cases (always run first)
def fixed_cases():
    out = []

    def add(sig, case, build):
        out.append((sig, case, build))
    add(("aggregate", "empty"), {"k": "c_aggregate", "a": [["i", 0], ["i", 0], ["i", 0], ["pi", []], ["pd", []],
                                                           ["pd", {"n": 0}], ["pi", {"n": 1}]]},
        lambda o: "KAggregate 0%Z [] " + obs(o, (2, marks), (3, optz)))
    add(("flathomogen", "empty"), {"k": "c_flathomogen", "a": [["i", 0], ["i", 0], ["pi", []], ["pd", []], ["pd", {"n": 0}]]},
        lambda o: "KFlathomogen 0%Z [] " + obs(o, (2, marks)))
    for n in (0, 1, 2):
        data = [1.0] * n
        add(("islin", "short", n), {"k": "c_islin", "a": [["i", n], ["d", 0.0], ["d", 1e-5], ["i", 1], ["pd", data],
                                                          ["pi", {"n": n}]]},
            lambda o, n=n, data=data: f"KIslin {Z(n)} 0 {F(1e-5)} 1%Z {FL(data)} " + obs(o, (1, optz)))
    add(("eckhardt", "empty"), {"k": "c_eckhardt", "a": [["i", 0], ["i", 1], ["d", .95], ["d", 20.], ["d", .8],
                                                         ["pd", []], ["pd", {"n": 0}]]},
        lambda o: f"KEckhardt 0%Z 1%Z {F(.95)} {F(.8)} " + obs(o, (1, marks)))
    vs = [600, 1200, 3000]
    add(("var2h", "within-one-period"),
        {"k": "c_var2h", "a": [["i", 3], ["i", 0], ["i", 3600], ["i", 0], ["i", 0], ["i", 432000], ["pq", vs],
                               ["pd", [1., 2., 3.]], ["q", 3600], ["pd", {"n": 0}]]},
        lambda o: f"KVar2h 3%Z 0%Z 3600%Z 0%Z {ZL(vs)} 3600%Z " + obs(o, (2, marks)))
    vs2 = [0, 3600]
    add(("var2h", "two-stamps-half-hour"),
        {"k": "c_var2h", "a": [["i", 2], ["i", 2], ["i", 1800], ["i", 0], ["i", 0], ["i", 432000], ["pq", vs2],
                               ["pd", [1., 2.]], ["q", 3600], ["pd", {"n": 2}]]},
        lambda o: f"KVar2h 2%Z 2%Z 1800%Z 0%Z {ZL(vs2)} 3600%Z " + obs(o, (2, marks)))
    vs3 = [0, 4000000000]
    add(("var2h", "int-product"),
        {"k": "c_var2h", "noout": True, "a": [["i", 2], ["i", 700000], ["i", 3600], ["i", 0], ["i", 0], ["i", 432000], ["pq", vs3],
                               ["pd", [1., 2.]], ["q", 3600], ["pd", {"n": 700000}]]},
        None)       # too large for a Coq term: verdict only
    add(("voronoi", "more-cells-than-points"),
        {"k": "c_voronoi", "ret": "q", "a": [["q", 3], ["q", 3], ["d", 0.], ["d", 0.], ["d", 1.], ["q", 6],
                                             ["pq", [0, 1, 2, 3, 4, 5]], ["q", 1], ["pd", [1., 1.]], ["pd", {"n": 1}]]},
        lambda o: f"KVoronoi 3%Z 3%Z 0 0 1 6%Z {ZL([0, 1, 2, 3, 4, 5])} 1%Z {FL([1., 1.])} " + obs(o, (2, fvals)))
    add(("voronoi", "no-point"),
        {"k": "c_voronoi", "ret": "q", "a": [["q", 3], ["q", 3], ["d", 0.], ["d", 0.], ["d", 1.], ["q", 2],
                                             ["pq", [0, 1]], ["q", 0], ["pd", []], ["pd", {"n": 0}]]},
        lambda o: f"KVoronoi 3%Z 3%Z 0 0 1 2%Z {ZL([0, 1])} 0%Z [] " + obs(o, (2, fvals)))
    fd = [1, 4, 1, 0]
    add(("accumulate", "nprint0"),
        {"k": "c_accumulate", "ret": "q", "a": [["q", 2], ["q", 2], ["q", 0], ["q", 4], ["d", -1.], ["pq", CODE],
                                                ["pq", fd], ["pd", [1.] * 4], ["pd", [1.] * 4]]},
        lambda o: f"KAccumulate 2%Z 2%Z 0%Z 4%Z {ZL(CODE)} {ZL(fd)} " + obs(o))
    add(("slope", "nprint0"),
        {"k": "c_slope", "ret": "q", "a": [["q", 2], ["q", 2], ["q", 0], ["d", 1.], ["pq", CODE], ["pq", fd],
                                           ["pd", [4., 3., 2., 1.]], ["pd", {"n": 4}]]},
        lambda o: f"KSlope 2%Z 2%Z 0%Z {ZL(CODE)} {ZL(fd)} " + obs(o, (3, marks)))
    mask = [0, 0, 0, 0, 1, 0, 0, 0, 0]
    add(("delineate_boundary", "one-cell"),
        {"k": "c_delineate_boundary", "ret": "q", "a": [["q", 3], ["q", 3], ["q", 1], ["pq", [4]], ["pq", {"n": 1}],
                                                        ["pq", mask], ["pq", {"n": 1}]]},
        lambda o: f"KDelineateBoundary 3%Z 3%Z 1%Z [4%Z] {ZL(mask)} " + obs(o, (0, zsent), (1, zsent), (3, zsent)))
    far = [0, 99]
    mask2 = [1] + [0] * 98 + [1]
    add(("delineate_boundary", "two-far-cells"),
        {"k": "c_delineate_boundary", "ret": "q", "a": [["q", 10], ["q", 10], ["q", 2], ["pq", far], ["pq", {"n": 2}],
                                                        ["pq", mask2], ["pq", {"n": 2}]]},
        lambda o: f"KDelineateBoundary 10%Z 10%Z 2%Z {ZL(far)} {ZL(mask2)} " + obs(o, (0, zsent), (1, zsent), (3, zsent)))
    neg = [-2, -1]
    add(("delineate_boundary", "cells-outside-grid"),
        {"k": "c_delineate_boundary", "ret": "q", "a": [["q", 2], ["q", 2], ["q", 2], ["pq", neg], ["pq", {"n": 2}],
                                                        ["pq", [1, 1, 1, 1]], ["pq", {"n": 2}]]},
        lambda o: f"KDelineateBoundary 2%Z 2%Z 2%Z {ZL(neg)} {ZL([1, 1, 1, 1])} " + obs(o, (0, zsent), (1, zsent), (3, zsent)))
    for xy in ([NAN, 1.0], [1e300, 1.0], [0.5, -1e300]):
        add(("coord2cell", "cast"),
            {"k": "c_coord2cell", "ret": "q", "a": [["q", 3], ["q", 3], ["d", 0.], ["d", 0.], ["d", 1.], ["q", 1],
                                                    ["pd", xy], ["pq", {"n": 1}]]},
            lambda o, xy=xy: f"KCoord2cell 3%Z 3%Z 0 0 1 1%Z {FL(xy)} " + obs(o, (1, zsent)))
    for day in (1e300, 2e13, NAN, -1e300):
        add(("getdate", "cast"), {"k": "c_dateutils_getdate", "a": [["d", day], ["pi", {"n": 3}]]},
            lambda o, day=day: f"KGetdate {F(day)} " + obs(o, (0, lambda b: ZL([SENT if v is None else v for v in b]))))
    return out
