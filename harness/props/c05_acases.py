"""C05 - API-level cases: python snippets calling the public entry points that reach a
compiled kernel, at and beyond the boundary shapes / values / options of the property's
quantifier.  Each case is (function label, code).  The snippets run in the namespace of
harness/props/c05_aworker.py (np, pd, nan, inf, dutils, qualitycontrol, signatures,
metrics, armodels, sutils, hygrid, gutils, Grid, Catchment, c_hydrodiy_*, mkgrid, mkcat,
series, attempt)."""

NANS = "nan"


def arr(xs, dtype=None):
    def lit(x):
        if isinstance(x, float):
            if x != x:
                return "nan"
            if x in (float("inf"), float("-inf")):
                return "inf" if x > 0 else "-inf"
        return repr(x)
    body = "[" + ", ".join(arr_inner(x, lit) for x in xs) + "]"
    return f"np.array({body}, dtype={dtype})" if dtype else f"np.array({body})"


def arr_inner(x, lit):
    if isinstance(x, (list, tuple)):
        return "[" + ", ".join(arr_inner(y, lit) for y in x) + "]"
    return lit(x)


NAN, INF = float("nan"), float("inf")
I32MAX = 2147483647

# ---------------------------------------------------------------------------
# the replays of DESIGN section 6 (rows 5-10) and the further defects found while building
# the check; they are also stored under corpus/C05/

REPLAYS = [
    ("aggregate", "dutils.aggregate(np.array([], int), np.array([]))"),
    ("flathomogen", "dutils.flathomogen(np.array([], int), np.array([]))"),
    ("islinear", "qualitycontrol.islinear(np.array([1.]))"),
    ("islinear", "qualitycontrol.islinear(np.array([]))"),
    ("eckhardt", "signatures.eckhardt(np.array([]))"),
    ("var2h", "dutils.var2h(series([1, 2, 3], ['2001-01-01 00:10', '2001-01-01 00:20', '2001-01-01 00:50']))"),
    ("var2h", "dutils.var2h(series([1, 2], ['2001-01-01 00:00', '2001-01-01 01:00']), 1800)"),
    ("var2h", "dutils.var2h(series([1, 2], ['1950-01-01 00:10', '2019-01-01 00:00']))"),
    ("voronoi", "c = mkcat(3, 3, [2, 4, 8, 1, 0, 16, 128, 64, 32]); c.delineate_area(4); "
                "hygrid.voronoi(c, np.array([[1., 1.]]))"),
    ("voronoi", "c = mkcat(3, 3, [2, 4, 8, 1, 0, 16, 128, 64, 32]); c.delineate_area(4); "
                "hygrid.voronoi(c, np.zeros((0, 2)))"),
    ("accumulate", "hygrid.accumulate(mkgrid(2, 2, [1, 4, 1, 0], np.int64), nprint=0)"),
    ("slope", "hygrid.slope(mkgrid(2, 2, [1, 4, 1, 0], np.int64), mkgrid(2, 2, [4., 3., 2., 1.]), nprint=0)"),
    ("delineate_boundary",
     "c = Catchment.from_dict({'name': 'c', 'idxcell_outlet': 4, 'idxinlets': None, 'idxcells_area': [4], "
     "'idxcells_area_filled': [4], 'flowdir': mkgrid(3, 3, [0] * 9, np.int64).to_dict()}); c.delineate_boundary()"),
    ("delineate_boundary",
     "c = Catchment.from_dict({'name': 'c', 'idxcell_outlet': 0, 'idxinlets': None, 'idxcells_area': [0, 99], "
     "'idxcells_area_filled': [0, 99], 'flowdir': mkgrid(10, 10, [0] * 100, np.int64).to_dict()}); c.delineate_boundary()"),
    ("delineate_boundary",
     "c = Catchment.from_dict({'name': 'c', 'idxcell_outlet': 0, 'idxinlets': None, 'idxcells_area': [-2, -1], "
     "'idxcells_area_filled': [-2, -1], 'flowdir': mkgrid(2, 2, [0] * 4, np.int64).to_dict()}); c.delineate_boundary()"),
    ("delineate_boundary",
     "c = Catchment.from_dict({'name': 'c', 'idxcell_outlet': 0, 'idxinlets': None, 'idxcells_area': [0, 1000000], "
     "'idxcells_area_filled': [0, 1000000], 'flowdir': mkgrid(2, 2, [0] * 4, np.int64).to_dict()}); "
     "c.delineate_boundary(np.ones(4, dtype=np.int64))"),
    ("coord2cell", "mkgrid(3, 3).coord2cell(np.zeros((5, 1)))"),
    ("coord2cell", "mkgrid(3, 3).coord2cell([[nan, 1.]])"),
    ("coord2cell", "mkgrid(3, 3).coord2cell([[1e300, 1.]])"),
    ("slice", "mkgrid(3, 3).slice([[nan, 1.]])"),
    ("getdate", "c_hydrodiy_data.getdate(1e300, np.zeros(3, np.int32))"),
    ("getdate", "c_hydrodiy_data.getdate(nan, np.zeros(3, np.int32))"),
    ("add1month", "c_hydrodiy_data.add1month(np.array([2147483647, 12, 1], np.int32))"),
    ("add1day", "c_hydrodiy_data.add1day(np.array([2147483647, 12, 31], np.int32))"),
]


def float_vectors(rng, n):
    """a few vectors of length n covering the value classes"""
    out = [[float(i % 3) for i in range(n)], [rng.uniform(-5, 5) for _ in range(n)]]
    if n:
        v = [rng.uniform(0, 5) for _ in range(n)]
        v[rng.randrange(n)] = NAN
        out.append(v)
        out.append([NAN] * n)
        v = [rng.uniform(0, 5) for _ in range(n)]
        v[rng.randrange(n)] = rng.choice([INF, -INF, 1e300, -1e300])
        out.append(v)
    return out


def data_cases(rng, quick):
    C = []
    lens = [0, 1, 2, 3, 5] + ([] if quick else [8, 17, 64])
    for n in lens:
        for v in float_vectors(rng, n):
            for idx in ([0] * n, list(range(n)), sorted(rng.randint(0, 3) for _ in range(n)),
                        [rng.randint(-2, 2) for _ in range(n)]):
                op, mx = rng.choice([0, 1, 2, 3, 4, -1]), rng.choice([0, 1, -1, 3, 10 ** 6])
                C.append(("aggregate", f"dutils.aggregate({arr(idx, 'int')}, {arr(v, 'float')}, {op}, {mx})"))
                C.append(("flathomogen", f"dutils.flathomogen({arr(idx, 'int')}, {arr(v, 'float')}, {mx})"))
            npt, tol, th = rng.choice([1, 1, 2, 3, 0, -1, 1000]), rng.choice([1e-5, 1e-11, 0.5, NAN]), rng.choice([0., 1., NAN])
            C.append(("islinear", f"qualitycontrol.islinear({arr(v, 'float')}, {npt}, {tol!r}, {th!r})"))
            C.append(("islinear", f"qualitycontrol.islinear({arr(v, 'float')})"))
            C.append(("eckhardt", f"signatures.eckhardt({arr(v, 'float')})"))
            th, tau, bfi, tt = (rng.choice([0.95, 0., 1., -1., 2., NAN]), rng.choice([20, 0, -1, NAN, INF]),
                                rng.choice([0.8, 0., 1., 1.5, NAN]), rng.choice([0, 1, 2, -1]))
            C.append(("eckhardt", f"signatures.eckhardt({arr(v, 'float')}, {lit(th)}, {lit(tau)}, {lit(bfi)}, {tt})"))
    C.append(("aggregate", "dutils.aggregate(np.array([1, 2]), np.array([1., 2., 3.]))"))
    C.append(("aggregate", "dutils.aggregate(np.array([2**31, 2**31 + 1]), np.array([1., 2.]))"))
    C.append(("islinear", "qualitycontrol.islinear(np.zeros((3, 2)))"))
    # var2h
    stamps = [
        ["2001-01-01 00:10"], ["2001-01-01 00:10", "2001-01-01 00:20"],
        ["2001-01-01 00:00", "2001-01-01 01:00"], ["2001-01-01 00:00", "2001-01-01 02:00"],
        ["2001-01-01 00:10", "2001-01-01 01:20", "2001-01-01 03:50", "2001-01-01 04:00"],
        ["2001-01-01 03:00", "2001-01-01 01:00", "2001-01-01 02:00"],                 # not sorted
        ["2001-01-01 01:00", "2001-01-01 01:00", "2001-01-01 05:00"],                 # duplicate
        ["2001-01-01 00:59:59", "2001-01-01 01:00:00", "2001-01-01 01:00:01", "2001-01-01 03:00:01"],
        ["1969-12-31 22:30", "1970-01-01 03:10"], ["2001-01-01 00:30", "2001-01-20 00:30"],
    ]
    for st in stamps:
        for P in (3600, 1800):
            vals = [rng.choice([1., 2.5, NAN, -1., INF]) for _ in st]
            rain, disp, gap = rng.choice([False, True]), rng.choice([False, False, True]), rng.choice([5 * 86400, 3600, 10 ** 9])
            C.append(("var2h", f"dutils.var2h(series({arr_inner(vals, lit)}, {st!r}), {P}, {gap}, {rain}, {disp})"))
    C.append(("var2h", "dutils.var2h(series([1, 2], ['2001-01-01 00:10', '2001-01-01 05:00']), 900)"))
    C.append(("var2h", "dutils.var2h(series([1, 2], ['2001-01-01 00:10', '2001-01-01 05:00']), 3600, 60)"))
    C.append(("var2h", "dutils.var2h(series([], []))"))
    # the c-module date helpers
    ys = [2000, 1900, 2023, 0, -1, I32MAX, -I32MAX - 1]
    for y in ys:
        C.append(("isleapyear", f"c_hydrodiy_data.isleapyear({y})"))
        for m in (0, 1, 2, 12, 13, -1, I32MAX):
            C.append(("daysinmonth", f"c_hydrodiy_data.daysinmonth({y}, {m})"))
    for m in (0, 1, 12, 13, -5, I32MAX):
        for d in (0, 1, 31, 32, -1, I32MAX):
            C.append(("dayofyear", f"c_hydrodiy_data.dayofyear({m}, {d})"))
    for y in (2000, 1999, I32MAX, -I32MAX - 1):
        for m in (1, 2, 11, 12, 0, 13, I32MAX):
            for d in (1, 28, 29, 31, 0, 32, I32MAX):
                C.append(("add1month", f"c_hydrodiy_data.add1month(np.array([{y}, {m}, {d}], np.int32))"))
                C.append(("add1day", f"c_hydrodiy_data.add1day(np.array([{y}, {m}, {d}], np.int32))"))
    C.append(("add1month", "c_hydrodiy_data.add1month(np.array([2000, 1], np.int32))"))
    C.append(("add1day", "c_hydrodiy_data.add1day(np.zeros(0, np.int32))"))
    C.append(("comparedates", "c_hydrodiy_data.comparedates(np.array([2000, 1, 1], np.int32), np.array([2000, 1, 2], np.int32))"))
    C.append(("comparedates", "c_hydrodiy_data.comparedates(np.array([2000, 1], np.int32), np.array([2000, 1, 2], np.int32))"))
    for day in (20000229., 19000229., 20001301., 0., -1., 1e9, 2147483647., 2147483648., 1e19, 1e300, NAN, INF, -INF, 20000101.9):
        C.append(("getdate", f"c_hydrodiy_data.getdate({lit(day)}, np.zeros(3, np.int32))"))
    C.append(("getdate", "c_hydrodiy_data.getdate(20000101., np.zeros(2, np.int32))"))
    return C


def lit(x):
    if isinstance(x, float):
        if x != x:
            return "nan"
        if x == INF:
            return "inf"
        if x == -INF:
            return "-inf"
    return repr(x)


def mat(rng, n, p, cls=0):
    rows = [[rng.uniform(0, 5) if cls != 1 else float(rng.randint(0, 2)) for _ in range(p)] for _ in range(n)]
    if cls == 2 and n and p:
        rows[rng.randrange(n)][rng.randrange(p)] = NAN
    if cls == 3 and n and p:
        rows[rng.randrange(n)] = [NAN] * p
    if cls == 4 and n and p:
        rows[rng.randrange(n)][rng.randrange(p)] = rng.choice([INF, -INF, 1e300])
    return rows


def mat_lit(rows, p):
    if not rows:
        return f"np.zeros((0, {p}))"
    if p == 0:
        return f"np.zeros(({len(rows)}, 0))"
    return "np.array(" + arr_inner(rows, lit) + ", dtype=float)"


def stat_cases(rng, quick):
    C = []
    for n in (0, 1, 2, 3, 5):
        for p in (0, 1, 2, 3, 6):
            for cls in range(5):
                ens = mat(rng, n, p, cls)
                obs = [rng.uniform(0, 5) if rng.random() < 0.85 else NAN for _ in range(n)]
                C.append(("crps", f"metrics.crps({arr(obs, 'float')}, {mat_lit(ens, p)})"))
                if n <= 3 or cls == 0:
                    eps = rng.choice([1e-6, 1e-6, 0., -1., NAN, 1e-30])
                    C.append(("dscore", f"metrics.dscore({arr(obs, 'float')}, {mat_lit(ens, p)}, {lit(eps)})"))
                orient = rng.choice([1, -1, 0, 7])
                C.append(("pareto_front", f"sutils.pareto_front({mat_lit(ens, p)}, {orient})"))
    C.append(("crps", "metrics.crps(np.array([1., 2.]), np.array([[1., 2.]]))"))
    C.append(("crps", "metrics.crps(1., np.array([1., 2., 0.5]))"))
    C.append(("pareto_front", "sutils.pareto_front(np.zeros(4))"))
    C.append(("pareto_front", "sutils.pareto_front(np.asfortranarray(np.arange(6.).reshape(3, 2)))"))
    for n in (0, 1, 2, 5, 12):
        for v in float_vectors(rng, n):
            C.append(("anderson_darling_test", f"metrics.anderson_darling_test({arr(v, 'float')})"))
        u = sorted(rng.random() for _ in range(n))
        C.append(("anderson_darling_test", f"metrics.anderson_darling_test({arr(u, 'float')})"))
        C.append(("anderson_darling_test", f"metrics.anderson_darling_test({arr([0.0] * n, 'float')})"))
        C.append(("anderson_darling_test", f"metrics.anderson_darling_test({arr([1.0] * n, 'float')})"))
    C.append(("anderson_darling_test", "metrics.anderson_darling_test(0.3)"))
    # more than 46340 samples that fit very well: AnDarl.c formed n*n in int (found by the
    # overflow-checked MiniC program, fixed by c81eaee); kept as a regression case
    for n in (46340, 46341, 50000):
        C.append(("anderson_darling_test",
                  f"metrics.anderson_darling_test((np.arange({n}) + 0.5) / {n})"))
    for order in (0, 1, 2, 5, 10, 11, 12):
        params = [round(rng.uniform(-0.4, 0.4), 3) for _ in range(order)]
        for n in (0, 1, 2, 5):
            for v in float_vectors(rng, n)[:4]:
                mean, ini = rng.choice([0., 1.5, NAN]), rng.choice([None, 0.5, NAN])
                C.append(("armodel_sim", f"armodels.armodel_sim({arr(params, 'float')}, {arr(v, 'float')}, {lit(mean)}, {lit(ini)})"))
                C.append(("armodel_residual", f"armodels.armodel_residual({arr(params, 'float')}, {arr(v, 'float')}, {lit(mean)}, {lit(ini)})"))
    C.append(("armodel_sim", "armodels.armodel_sim(0.5, np.zeros((4, 2)))"))
    C.append(("armodel_sim", "armodels.armodel_sim(np.array([0.5, nan]), np.zeros(4))"))
    C.append(("armodel_residual", "armodels.armodel_residual(0.5, np.zeros(4)[::2])"))
    C.append(("armodel_residual", "armodels.armodel_residual(np.zeros((2, 2)), np.zeros(4), 0.)"))
    return C


FD_GRIDS = [
    (1, 1, [0]), (1, 1, [1]), (1, 3, [1, 1, 0]), (3, 1, [4, 4, 0]), (2, 2, [1, 4, 1, 0]),
    (2, 2, [1, 16, 1, 16]),                                       # two 2-cycles
    (3, 3, [2, 4, 8, 1, 0, 16, 128, 64, 32]),                     # all drain to the centre
    (3, 4, [1, 1, 1, 4, 1, 1, 1, 4, 1, 1, 1, 0]),
    (3, 3, [3, 3, 3, 3, 3, 3, 3, 3, 3]),                          # invalid codes
    (4, 4, [2, 4, 4, 8, 1, 2, 8, 16, 1, 1, 0, 16, 64, 64, 64, 32]),
]


def gis_cases(rng, quick):
    C = []
    shapes = [(0, 0), (1, 1), (1, 3), (3, 1), (3, 4), (0, 3)]
    geoms = [(1., 0., 0.), (0.25, 10.5, -3.), (0., 0., 0.), (-1., 0., 0.), (NAN, 0., 0.), (1., NAN, INF), (1e-300, 0., 0.)]
    for nr, nc in shapes:
        for csz, xll, yll in geoms if (nr, nc) in ((3, 4), (1, 1)) else geoms[:2]:
            g = f"mkgrid({nr}, {nc}, None, np.float64, {lit(csz)}, {lit(xll)}, {lit(yll)})"
            pts = [[0.5, 0.5], [xll if xll == xll else 0., yll if yll == yll else 0.], [-1., 2.], [NAN, 1.],
                   [1., INF], [1e300, -1e300], [9.3e18, 1.], [3.9999, 2.0001]]
            C.append(("coord2cell", f"{g}.coord2cell({arr_inner(pts, lit)})"))
            C.append(("slice", f"{g}.slice({arr_inner(pts, lit)})"))
            for shp in ("(0, 2)", "(3, 1)", "(3, 3)", "(2,)", "(0,)", "(2, 2, 2)", "(1, 0)", "(2, 3)", "(2, 5)", "(2, 40)",
                        "(5, 2)", "(2, 2)", "(40, 2)", "(2, 1)", "(1, 2)"):   # coordinates given row-wise (2, n) as well
                C.append(("coord2cell", f"{g}.coord2cell(np.zeros({shp}))"))
                C.append(("slice", f"{g}.slice(np.zeros({shp}))"))
            cells = [0, 1, nr * nc - 1, nr * nc, -1, 2 ** 62, -2 ** 63]
            C.append(("cell2coord", f"{g}.cell2coord({cells!r})"))
            C.append(("cell2rowcol", f"{g}.cell2rowcol({cells!r})"))
            C.append(("cell2coord", f"{g}.cell2coord(np.zeros(0))"))
            C.append(("cell2rowcol", f"{g}.cell2rowcol(np.zeros((2, 2)))"))
            for c in (0, nr * nc - 1, nr * nc, -1, 2 ** 62):
                C.append(("neighbours", f"{g}.neighbours({c})"))
    for nr, nc, fd in FD_GRIDS + [(0, 0, []), (0, 3, [])]:
        n = nr * nc
        cat = f"mkcat({nr}, {nc}, {fd!r})"
        cells = [0, n - 1, n, -1, 2 ** 62]
        C.append(("upstream", f"{cat}.upstream({cells!r})"))
        C.append(("downstream", f"{cat}.downstream({cells!r})"))
        C.append(("upstream", f"{cat}.upstream(list(range({n})))"))
        C.append(("downstream", f"{cat}.downstream(list(range({n})))"))
        C.append(("upstream", f"{cat}.upstream([])"))
        fdg = f"mkgrid({nr}, {nc}, {fd!r}, np.int64)"
        for nprint in (100, 1, 0, -1, -2 ** 63):
            for mx in (-1, 0, 1, 3, n + 5):
                C.append(("accumulate", f"hygrid.accumulate({fdg}, nprint={nprint}, max_accumulated_cells={mx})"))
            alt = [float(rng.randint(0, 9)) for _ in range(n)]
            C.append(("slope", f"hygrid.slope({fdg}, mkgrid({nr}, {nc}, {alt!r}), nprint={nprint})"))
        C.append(("accumulate", f"hygrid.accumulate({fdg}, mkgrid({nr}, {nc}, [nan] * {n}))"))
        C.append(("slope", f"hygrid.slope({fdg}, mkgrid({nr + 1}, {nc}))"))
        for up in (0, n - 1, n, -1):
            for nval in (0, 1, 2, n + 3):
                C.append(("delineate_river", f"hygrid.delineate_river({fdg}, {up}, {nval})"))
        for outlet in sorted({0, n // 2, n - 1, n, -1}):
            for nval in (0, 1, 2, 3, n, n + 2, 50):
                for inl in ("None", "[0]", f"[{n - 1}, {n}]", "[-1]"):
                    if rng.random() < (0.35 if quick else 1.0) or nval in (1, 2):
                        C.append(("delineate_area", f"c = {cat}; c.delineate_area({outlet}, {inl}, {nval})"))
            body = (f"c = {cat}; c.delineate_area({outlet}); c.delineate_boundary(); c.compute_flowpathlengths(); "
                    f"c.extent(); hygrid.voronoi(c, np.array([[0.5, 0.5], [2., 1.]])); "
                    f"c.intersect(mkgrid(2, 2, None, np.float64, 2., -0.5, -0.5))")
            C.append(("catchment-chain", body))
            for pts in ("np.zeros((0, 2))", "np.array([[1., 1.]])", "np.zeros((3, 1))", "np.zeros((2, 3))",
                        "np.array([[nan, 1.], [1., inf]])", "np.array([1., 2.])"):
                C.append(("voronoi", f"c = {cat}; c.delineate_area({outlet}); hygrid.voronoi(c, {pts})"))
            for gg in ("mkgrid(2, 2, None, np.float64, 2., -0.5, -0.5)", "mkgrid(1, 1, None, np.float64, 10., -1., -1.)",
                       "mkgrid(2, 2, None, np.float64, 2., 100., 100.)", "mkgrid(0, 0)", "mkgrid(3, 3, None, np.float64, nan)",
                       "mkgrid(5, 5, None, np.float64, 0.3, 0., 0.)"):
                for filled in (False, True):
                    C.append(("intersect", f"c = {cat}; c.delineate_area({outlet}); c.intersect({gg}, {filled})"))
    # catchments built from dictionaries: arbitrary area cells
    for nr, nc in ((3, 3), (1, 1), (10, 10), (2, 2), (0, 0)):
        n = nr * nc
        for area in ([0], [n // 2], [0, n - 1], [0, 1, 2], [-1], [-2, -1], [n], [0, n + 5], [0, 10 ** 9], [], list(range(n))):
            d = (f"{{'name': 'c', 'idxcell_outlet': 0, 'idxinlets': None, 'idxcells_area': {area!r}, "
                 f"'idxcells_area_filled': {area!r}, 'flowdir': mkgrid({nr}, {nc}, [0] * {n}, np.int64).to_dict()}}")
            C.append(("delineate_boundary", f"c = Catchment.from_dict({d}); c.delineate_boundary()"))
            C.append(("delineate_boundary", f"c = Catchment.from_dict({d}); c.delineate_boundary(np.ones({n}, dtype=np.int64))"))
            C.append(("compute_flowpathlengths", f"c = Catchment.from_dict({d}); c.compute_flowpathlengths()"))
            C.append(("voronoi", f"c = Catchment.from_dict({d}); hygrid.voronoi(c, np.array([[0.5, 0.5]]))"))
            C.append(("intersect", f"c = Catchment.from_dict({d}); c.intersect(mkgrid(2, 2, None, np.float64, 2., -0.5, -0.5))"))
            C.append(("extent", f"c = Catchment.from_dict({d}); c.extent()"))
        d0 = (f"{{'name': 'c', 'idxcell_outlet': 0, 'idxinlets': None, 'idxcells_area': [0], "
              f"'idxcells_area_filled': [0], 'flowdir': mkgrid({nr}, {nc}, [0] * {n}, np.int64).to_dict()}}")
        for m in (f"np.ones({n + 1}, dtype=np.int64)", f"np.ones({n}, dtype=np.int32)", f"np.zeros({n}, dtype=np.int64)",
                  f"np.ones(({n}, 1), dtype=np.int64)"):
            C.append(("delineate_boundary", f"c = Catchment.from_dict({d0}); c.delineate_boundary({m})"))
    # points in polygon
    polys = ["np.zeros((0, 2))", "np.array([[1., 1.]])", "np.array([[0., 0.], [4., 4.]])",
             "np.array([[0., 0.], [4., 0.], [4., 4.], [0., 4.]])", "np.array([[0., 0.], [4., 0.], [nan, 4.]])",
             "np.array([[0., 0.], [inf, 0.], [4., 4.]])", "np.zeros((3, 1))", "np.zeros((3, 3))", "np.zeros(4)"]
    ptss = ["np.zeros((0, 2))", "np.array([[1., 1.]])", "np.array([[1., 1.], [5., 5.], [nan, 1.], [2., inf], [4., 4.], [0., 0.]])",
            "np.zeros((3, 1))", "np.zeros(2)", "np.ones((4, 2))[::2]"]
    for po in polys:
        for pt in ptss:
            for extra in ("", ", nprint=1", ", nprint=-1", ", atol=0.", ", atol=nan", ", inside=np.zeros(1, np.int32)",
                          ", inside=np.zeros(6, np.int64)", ", inside=np.ones(6, np.int32)"):
                if extra in ("", ", nprint=1") or rng.random() < (0.3 if quick else 1.0):
                    C.append(("points_inside_polygon", f"gutils.points_inside_polygon({pt}, {po}{extra})"))
    return C


# ---------------------------------------------------------------------------
# catchment topologies x options x geometry of the second grid
#
# The buffers handed to the gis kernels are sized by the Python wrappers from the catchment
# (area / filled area / boundary lengths) and from the other grid (nrows * ncols); which of them
# is the larger depends on the topology of the catchment (holes: an interior sink, an inlet whose
# upstream area is enclosed), on the options (filled, inlets, nval) and on the relative cell
# sizes / extents of the two grids.  The classes below drive every Catchment method and the
# functions taking a catchment over: topologies (with / without holes, one cell wide, touching
# the edge of the flow direction grid, whole grid) x filled x inlets x nval at / around the
# number of cells x second grids coarser / equal / finer, shifted, covering / partly covering /
# one cell / one row / disjoint / empty x derived catchments (dictionary round trip, clone,
# a + b, a - b: area and filled area no longer related).

FDCODE = {(-1, -1): 32, (-1, 0): 64, (-1, 1): 128, (0, -1): 16, (0, 1): 1, (1, -1): 8, (1, 0): 4, (1, 1): 2}


def tree_flowdir(nr, nc, cells, outlet, rng=None, roots=None):
    """Flow directions [nr x nc] (row-major list) in which the cells of `cells` (set of
    (row, col)) reachable from `outlet` through 8-neighbour moves inside `cells` drain to
    `outlet` (breadth-first tree); `roots` = {(r, c): (rp, cp)} forces the parent of a cell
    (it then starts its own tree inside `cells`).  Every other cell is a sink (0)."""
    fd = [0] * (nr * nc)
    parent = {outlet: None}
    roots = roots or {}
    forced = set(roots)
    queue = [outlet]
    order = sorted(FDCODE)
    while queue:
        nxt = []
        for (r, c) in queue:
            moves = list(order)
            if rng is not None:
                rng.shuffle(moves)
            for dr, dc in moves:
                q = (r + dr, c + dc)
                if q in cells and q not in parent and q not in forced:
                    parent[q] = (r, c)
                    nxt.append(q)
        queue = nxt
    for q, par in roots.items():
        parent[q] = par
        queue = [q]
        while queue:
            nxt = []
            for (r, c) in queue:
                for dr, dc in order:
                    z = (r + dr, c + dc)
                    if z in cells and z not in parent:
                        parent[z] = (r, c)
                        nxt.append(z)
            queue = nxt
    for (r, c), par in parent.items():
        if par is not None:
            fd[r * nc + c] = FDCODE[(par[0] - r, par[1] - c)]
    return fd


def rect(r0, r1, c0, c1):
    return {(r, c) for r in range(r0, r1 + 1) for c in range(c0, c1 + 1)}


def topologies(rng, nrandom):
    """[(name, nr, nc, flowdir, outlet cell, inlets or None, number of cells drained)]"""
    T = []

    def add(name, nr, nc, cells, outlet, inlets=None, roots=None, r=None):
        fd = tree_flowdir(nr, nc, cells, outlet, r, roots)
        T.append((name, nr, nc, fd, outlet[0] * nc + outlet[1],
                  None if inlets is None else [q[0] * nc + q[1] for q in inlets], len(cells)))

    # holes: the smallest one (four cells joined by their corners around a sink), a ring one cell
    # wide, a thick ring with a 2 x 1 hole, two holes, a ring along the edge of the grid
    add("diamond-ring", 5, 5, {(3, 2), (2, 1), (1, 2), (2, 3)}, (3, 2))
    add("ring", 7, 8, rect(1, 5, 1, 6) - rect(2, 4, 2, 5), (5, 3))
    add("thick-ring", 8, 8, rect(1, 6, 1, 6) - rect(3, 4, 3, 3), (6, 1))
    add("two-holes", 6, 9, rect(1, 4, 1, 7) - {(2, 2), (3, 5), (2, 5)}, (4, 4))
    add("edge-ring", 5, 6, rect(0, 4, 0, 5) - rect(1, 3, 1, 4), (4, 2))
    # an inlet whose upstream area is enclosed by the catchment: the block in the middle drains
    # to its cell X, X to the ring; with inlets=[X] the block is excluded (a hole), without it
    # the catchment is the full rectangle
    blk = rect(2, 4, 2, 4)
    full = rect(1, 5, 1, 5)
    ringc = full - blk
    fd = tree_flowdir(7, 7, ringc, (5, 3))
    fdb = tree_flowdir(7, 7, blk, (4, 3))
    fd = [a or b for a, b in zip(fd, fdb)]
    fd[4 * 7 + 3] = FDCODE[(1, 0)]               # X = (4, 3) drains to the outlet (5, 3)
    T.append(("enclosed-inlet", 7, 7, fd, 5 * 7 + 3, [4 * 7 + 3], 25))
    T.append(("enclosed-no-inlet", 7, 7, fd, 5 * 7 + 3, None, 25))
    T.append(("inlet-upstream-of-inlet", 7, 7, fd, 5 * 7 + 3, [4 * 7 + 3, 3 * 7 + 3, 5 * 7 + 3], 25))
    # no hole: a C (nearly closed), a path one cell wide, the whole grid, one cell, a full block
    add("c-shape", 6, 6, rect(1, 4, 1, 4) - rect(2, 3, 2, 4), (4, 4))
    snake = [(0, c) for c in range(6)] + [(1, 5)] + [(2, c) for c in range(5, -1, -1)] + [(3, 0)] + \
            [(4, c) for c in range(6)]
    add("snake", 5, 6, set(snake), (4, 5))
    add("whole-grid", 4, 5, rect(0, 3, 0, 4), (3, 2))
    add("one-cell", 3, 3, {(1, 1)}, (1, 1))
    add("block", 6, 6, rect(1, 4, 2, 4), (4, 3))
    add("row", 1, 7, rect(0, 0, 0, 6), (0, 6))
    add("column", 7, 1, rect(0, 6, 0, 0), (0, 0))
    # random blobs with random interior cells removed
    for k in range(nrandom):
        nr, nc = rng.randint(3, 9), rng.randint(3, 9)
        r0, c0 = rng.randint(0, nr - 2), rng.randint(0, nc - 2)
        r1, c1 = rng.randint(r0 + 1, nr - 1), rng.randint(c0 + 1, nc - 1)
        cells = rect(r0, r1, c0, c1)
        inner = sorted(rect(r0 + 1, r1 - 1, c0 + 1, c1 - 1))
        for q in inner:
            if rng.random() < 0.3:
                cells.discard(q)
        border = sorted(cells - set(inner))
        outlet = rng.choice(border)
        fd = tree_flowdir(nr, nc, cells, outlet, rng)
        ndrained = sum(1 for x in fd if x) + 1
        inl = None
        if rng.random() < 0.4:
            drained = [i for i, x in enumerate(fd) if x]
            inl = sorted(rng.sample(drained, min(len(drained), rng.randint(1, 2)))) if drained else None
        T.append((f"random-{k}", nr, nc, fd, outlet[0] * nc + outlet[1], inl, ndrained))
    return T


def second_grids(nr, nc, csz, xll, yll, ratios, shifts, rng, nextra):
    """second grids relative to a flow direction grid [nr x nc] of cell size csz at (xll, yll):
    mkgrid(...) expressions, coarser / equal / finer, shifted, of various extents"""
    G = []
    for ratio in ratios:
        g = csz * ratio
        for shift in shifts:
            n1 = int(-(-(nc + 2) // ratio)) + 1
            n0 = int(-(-(nr + 2) // ratio)) + 1
            G.append(f"mkgrid({n0}, {n1}, None, np.float64, {g!r}, {xll + shift * csz!r}, {yll + shift * csz!r})")
    for _ in range(nextra):
        ratio = rng.choice(ratios + [1.5, 0.75, 1. / 3])
        g = csz * ratio
        kind = rng.choice(["partial", "one-cell", "one-row", "one-column", "disjoint", "inside", "empty", "huge-cells"])
        if kind == "partial":       # covers the lower left part of the catchment only
            n0, n1 = max(1, int(nr / ratio / 2)), max(1, int(nc / ratio / 2))
            G.append(f"mkgrid({n0}, {n1}, None, np.float64, {g!r}, {xll - 0.5 * csz!r}, {yll - 0.5 * csz!r})")
        elif kind == "one-cell":
            G.append(f"mkgrid(1, 1, None, np.float64, {g!r}, {xll + csz * (nc // 2)!r}, {yll + csz * (nr // 2)!r})")
        elif kind == "one-row":
            G.append(f"mkgrid(1, {int(nc / ratio) + 2}, None, np.float64, {g!r}, {xll!r}, {yll + csz * (nr // 2)!r})")
        elif kind == "one-column":
            G.append(f"mkgrid({int(nr / ratio) + 2}, 1, None, np.float64, {g!r}, {xll + csz * (nc // 2)!r}, {yll!r})")
        elif kind == "disjoint":
            G.append(f"mkgrid(3, 3, None, np.float64, {g!r}, {xll + 100 * csz!r}, {yll - 50 * csz!r})")
        elif kind == "inside":      # a small grid strictly inside the catchment's extent
            G.append(f"mkgrid(2, 2, None, np.float64, {g!r}, {xll + csz * (nc // 2 - 0.3)!r}, {yll + csz * (nr // 2 - 0.3)!r})")
        elif kind == "empty":
            G.append(f"mkgrid({rng.choice([0, 0, 3])}, {rng.choice([0, 2])}, None, np.float64, {g!r}, {xll!r}, {yll!r})")
        else:
            G.append(f"mkgrid(2, 2, None, np.float64, {csz * 1000.!r}, {xll - 1000. * csz!r}, {yll - 1000. * csz!r})")
    return G


def catchment_cases(rng, quick):
    C = []
    tops = topologies(rng, 4 if quick else 30)
    ratios = [2., 1., 0.5] if quick else [3., 2., 1., 0.5, 0.25, 0.1]
    for ti, (name, nr, nc, fd, outlet, inlets, ncells) in enumerate(tops):
        for gi, (csz, xll, yll) in enumerate(((1., 0., 0.), (0.25, 10.5, -3.))):
            if gi and quick and ti % 4:
                continue
            cat = f"mkcat({nr}, {nc}, {fd!r}, {csz!r}, {xll!r}, {yll!r})"
            inl = "" if inlets is None else f", {inlets!r}"
            # (the default nval allocates three buffers of 10^6 cells: kept for one geometry only)
            pre = f"c = {cat}; c.delineate_area({outlet}{inl}); " if gi else \
                f"c = {cat}; c.delineate_area({outlet}, {inlets!r}, {nr * nc + 2 + rng.randint(0, 3)}); "
            # --- Catchment.intersect: filled x geometry of the second grid
            for g in second_grids(nr, nc, csz, xll, yll, ratios, (0., -0.25) if quick else (0., -0.25, -1.), rng,
                                  3 if quick else 10):
                for filled in (False, True):
                    C.append(("intersect", pre + f"c.intersect({g}, filled={filled})"))
            if gi:
                continue
            g1 = f"mkgrid({nr + 3}, {nc + 3}, None, np.float64, {csz!r}, {xll - csz!r}, {yll - csz!r})"
            gh = f"mkgrid({2 * nr + 5}, {2 * nc + 5}, None, np.float64, {csz / 2!r}, {xll - csz!r}, {yll - csz!r})"
            # --- nval at and around the number of cells of the area
            for nval in sorted({ncells - 1, ncells, ncells + 1, ncells + 2, max(0, ncells // 2)}):
                if nval >= 0:
                    da = f"c = {cat}; c.delineate_area({outlet}{inl or ', None'}, {nval}); "
                    C.append(("delineate_area", da + "attempt(c.delineate_boundary); c.compute_flowpathlengths()"))
                    C.append(("intersect", da + f"c.intersect({gh}, True)"))
            # --- every method that sizes a buffer from the area / the filled area
            C.append(("delineate_boundary", pre + "c.delineate_boundary()"))
            C.append(("delineate_boundary", pre + f"c.delineate_boundary(np.ones({nr * nc}, dtype=np.int64))"))
            C.append(("delineate_boundary", pre + f"m = np.zeros({nr * nc}, dtype=np.int64); m[c.idxcells_area] = 1; "
                                                  "c.delineate_boundary(m)"))
            C.append(("compute_flowpathlengths", pre + "c.compute_flowpathlengths()"))
            C.append(("extent", pre + "c.extent()"))
            for npts in (1, 2, ncells, ncells + 3):
                pts = [[xll + csz * rng.uniform(-1, nc + 1), yll + csz * rng.uniform(-1, nr + 1)] for _ in range(npts)]
                C.append(("voronoi", pre + f"hygrid.voronoi(c, np.array({pts!r}))"))
            # --- derived catchments: stored representation, copies, unions and differences
            C.append(("intersect", pre + f"d = Catchment.from_dict(c.to_dict()); d.intersect({gh}, True); "
                                         f"d.intersect({g1}, False); d.delineate_boundary()"))
            C.append(("intersect", pre + f"d = c.clone(); attempt(d.delineate_boundary); d.intersect({gh}, True)"))
            # a second catchment on the same flow direction grid (another outlet), then the union
            # and the differences: the area is replaced, the filled area is the first operand's
            o2 = next((i for i, x in enumerate(fd) if x and i != outlet), outlet)
            two = pre + f"b = {cat}; b.delineate_area({o2}); "
            for expr in (rng.sample(["c + b", "c - b", "b - c", "b + c"], 2) if quick else ("c + b", "c - b", "b - c", "b + c")):
                for filled in (False, True):
                    C.append(("intersect", two + f"d = {expr}; d.intersect({gh}, filled={filled})"))
                C.append(("delineate_boundary", two + f"d = {expr}; d.delineate_boundary(); d.extent()"))
                C.append(("voronoi", two + f"d = {expr}; hygrid.voronoi(d, np.array([[{xll + csz!r}, {yll + csz!r}], "
                                           f"[{xll!r}, {yll + 3 * csz!r}]]))"))
            # area and filled area given independently (dictionary): filled smaller / larger /
            # disjoint / with cells outside the grid
            area = sorted(i for i, x in enumerate(fd) if x) + [outlet]
            allc = list(range(nr * nc))
            pairs = [(area, allc), (allc, area), (area, area[:1]), (area[:1], area), (area, []), ([], area),
                     (area, [nr * nc + 5, -3] + area)]
            if quick:
                pairs = rng.sample(pairs, 3)
            for a, f in pairs:
                d = (f"{{'name': 'c', 'idxcell_outlet': {outlet}, 'idxinlets': None, 'idxcells_area': {a!r}, "
                     f"'idxcells_area_filled': {f!r}, 'flowdir': mkgrid({nr}, {nc}, {fd!r}, np.int64).to_dict()}}")
                for filled in (False, True):
                    C.append(("intersect", f"c = Catchment.from_dict({d}); c.intersect({gh}, filled={filled})"))
                C.append(("delineate_boundary", f"c = Catchment.from_dict({d}); c.delineate_boundary()"))
                C.append(("compute_flowpathlengths", f"c = Catchment.from_dict({d}); c.compute_flowpathlengths()"))
    return C


# ---------------------------------------------------------------------------
# shapes / layouts / dtypes of the arguments the Python wrappers derive buffer sizes from, and
# extreme but legal sizes

def layout_cases(rng, quick):
    """The wrappers size the output from `len(x)`, `x.shape[0]`, `np.zeros_like(x)`, `0. * x`,
    `np.atleast_2d(x).shape` ...: arrays with more or fewer dimensions than expected, column /
    row vectors, 0-d values, lists, non-contiguous views, Fortran order, integer and single
    precision dtypes, lengths that do not agree between arguments."""
    C = []
    vec = ["np.arange(6.)", "np.arange(12.)[::2]", "np.arange(6.).reshape(6, 1)", "np.arange(6.).reshape(1, 6)",
           "np.arange(6.).reshape(2, 3)", "np.asfortranarray(np.arange(6.).reshape(3, 2))", "np.arange(6)",
           "np.arange(6, dtype=np.float32)", "np.float64(3.)", "np.array(3.)", "[1., 2., 3.]", "np.zeros((0, 3))",
           "np.zeros((2, 0))", "np.arange(24.).reshape(2, 3, 4)", "np.arange(6.)[::-1]", "np.arange(12.).reshape(6, 2)[:, 0]"]
    for v in vec:
        C.append(("aggregate", f"dutils.aggregate(np.array([0, 0, 1, 1, 2, 2]), {v})"))
        C.append(("aggregate", f"x = {v}; dutils.aggregate(np.zeros(len(x), int), x, 1, 1)"))
        C.append(("flathomogen", f"x = {v}; dutils.flathomogen(np.zeros(len(x), int), x)"))
        C.append(("flathomogen", f"dutils.flathomogen({v}, np.arange(6.))"))
        C.append(("islinear", f"qualitycontrol.islinear({v})"))
        C.append(("islinear", f"qualitycontrol.islinear({v}, 3)"))
        C.append(("eckhardt", f"signatures.eckhardt({v})"))
        C.append(("anderson_darling_test", f"metrics.anderson_darling_test({v} / 7.)"))
        C.append(("armodel_sim", f"armodels.armodel_sim(0.5, {v})"))
        C.append(("armodel_sim", f"armodels.armodel_sim({v} / 100., np.arange(5.))"))
        C.append(("armodel_residual", f"armodels.armodel_residual([0.5, 0.1], {v})"))
        C.append(("armodel_residual", f"armodels.armodel_residual({v} / 100., np.arange(5.), 0.)"))
        C.append(("pareto_front", f"sutils.pareto_front({v})"))
        C.append(("crps", f"metrics.crps({v}, np.arange(18.).reshape(6, 3))"))
        C.append(("crps", f"metrics.crps(np.arange(6.), {v})"))
        C.append(("crps", f"x = {v}; metrics.crps(x, x)"))
        C.append(("dscore", f"metrics.dscore(np.arange(6.), {v})"))
        C.append(("dscore", f"metrics.dscore({v}, np.arange(18.).reshape(6, 3) % 5)"))
        C.append(("dscore", f"x = {v}; metrics.dscore(x, x)"))
        C.append(("cell2coord", f"mkgrid(3, 4).cell2coord({v})"))
        C.append(("cell2rowcol", f"mkgrid(3, 4).cell2rowcol({v})"))
        C.append(("coord2cell", f"mkgrid(3, 4).coord2cell({v})"))
        C.append(("slice", f"mkgrid(3, 4).slice({v})"))
        C.append(("upstream", f"mkcat(2, 2, [1, 4, 1, 0]).upstream({v})"))
        C.append(("downstream", f"mkcat(2, 2, [1, 4, 1, 0]).downstream({v})"))
        C.append(("voronoi", f"c = mkcat(2, 2, [1, 4, 1, 0]); c.delineate_area(3); hygrid.voronoi(c, {v})"))
        C.append(("points_inside_polygon", f"gutils.points_inside_polygon({v}, np.array([[0., 0.], [4., 0.], [4., 4.]]))"))
        C.append(("points_inside_polygon", f"gutils.points_inside_polygon(np.ones((3, 2)), {v})"))
    for ins in ("np.zeros(6, np.int32)[::2]", "np.zeros((3, 1), np.int32)", "np.zeros(3, np.int32)", "np.zeros(4, np.int32)",
                "np.zeros(2, np.int32)", "np.zeros(0, np.int32)"):
        C.append(("points_inside_polygon", f"gutils.points_inside_polygon(np.ones((3, 2)), "
                                           f"np.array([[0., 0.], [4., 0.], [4., 4.]]), inside={ins})"))
    # grids of other dtypes / a grid whose data was replaced
    for dt in ("np.int32", "np.uint8", "np.float32", "np.int64", "bool"):
        g = f"mkgrid(3, 4, list(range(12)), {dt})"
        C.append(("slice", f"{g}.slice([[0.5, 0.5], [3.2, 2.1], [10., 10.]])"))
        C.append(("accumulate", f"hygrid.accumulate(mkgrid(3, 4, [1, 1, 1, 4, 1, 1, 1, 4, 1, 1, 1, 0], {dt}))"))
        C.append(("accumulate", f"hygrid.accumulate(mkgrid(3, 4, [1, 1, 1, 4, 1, 1, 1, 4, 1, 1, 1, 0], np.int64), {g})"))
        C.append(("slope", f"hygrid.slope(mkgrid(3, 4, [1, 1, 1, 4, 1, 1, 1, 4, 1, 1, 1, 0], np.int64), {g})"))
        C.append(("delineate_river", f"hygrid.delineate_river(mkgrid(3, 4, [1, 1, 1, 4, 1, 1, 1, 4, 1, 1, 1, 0], {dt}), 0)"))
        C.append(("delineate_area", f"c = Catchment('c', mkgrid(3, 4, [1, 1, 1, 4, 1, 1, 1, 4, 1, 1, 1, 0], {dt})); "
                                    "c.delineate_area(11); c.delineate_boundary()"))
    for shp in ("(4, 3)", "(3, 5)", "(2, 4)", "(0, 0)", "(1, 12)", "(12, 1)"):
        nr_, nc_ = eval(shp)
        C.append(("accumulate", f"hygrid.accumulate(mkgrid(3, 4, [1, 1, 1, 4, 1, 1, 1, 4, 1, 1, 1, 0], np.int64), mkgrid({nr_}, {nc_}))"))
        C.append(("slope", f"hygrid.slope(mkgrid(3, 4, [1, 1, 1, 4, 1, 1, 1, 4, 1, 1, 1, 0], np.int64), mkgrid({nr_}, {nc_}))"))
    # the river buffer at and around the length of the path (a path one cell wide)
    snake = [(0, c) for c in range(6)] + [(1, 5)] + [(2, c) for c in range(5, -1, -1)] + [(3, 0)] + [(4, c) for c in range(6)]
    fd = tree_flowdir(5, 6, set(snake), (4, 5))
    for nval in (len(snake) - 1, len(snake), len(snake) + 1, 1, 2):
        for up in (0, 17, 29):
            C.append(("delineate_river", f"hygrid.delineate_river(mkgrid(5, 6, {fd!r}, np.int64), {up}, {nval})"))
    # var2h: the number of periods comes from the time stamps (time zones, units, order)
    for tz in ("None", "'UTC'", "'Australia/Sydney'", "'America/St_Johns'"):
        for unit in ("ns", "us", "s"):
            for st in (["2001-04-01 00:10", "2001-04-01 05:20"], ["2001-10-27 22:10", "2001-10-28 09:40"],
                       ["2001-03-24 22:10", "2001-03-25 03:05", "2001-03-25 09:40"], ["2001-01-01 05:00", "2001-01-01 00:10"]):
                for P in (3600, 1800):
                    C.append(("var2h", f"dutils.var2h(pd.Series(np.arange({len(st)}.), index=pd.DatetimeIndex({st!r}, tz={tz})"
                                       f".as_unit('{unit}')), {P})"))
    if quick:
        C = [x for i, x in enumerate(C) if i % 2 == rng.randrange(2) or x[0] in ("delineate_river",)]
    return C


def size_cases(rng, quick):
    """Extreme but legal sizes: work areas proportional to a dimension (the ensemble size of
    crps, the n x n matrix of dscore, the orders of armodels), long series, large grids, more
    cells in the second grid than in the first and the converse."""
    C = []
    big = [200000] if quick else [149000, 200000, 1000000]
    for n in big:
        C.append(("crps", f"metrics.crps(np.array([1.]), np.arange({n}.).reshape(1, {n}))"))
        C.append(("crps", f"metrics.crps(np.arange({n // 50}.), (np.arange({2 * (n // 50)}.) % 7).reshape({n // 50}, 2))"))
        C.append(("aggregate", f"dutils.aggregate(np.arange({n}) // 30, np.ones({n}))"))
        C.append(("flathomogen", f"dutils.flathomogen(np.arange({n}) // 30, np.ones({n}))"))
        C.append(("islinear", f"qualitycontrol.islinear(np.arange({n}.) % 11, 1000)"))
        C.append(("eckhardt", f"signatures.eckhardt(np.arange({n}.) % 11)"))
        C.append(("armodel_sim", f"armodels.armodel_sim(np.ones(10) / 20., np.ones({n}))"))
        C.append(("armodel_residual", f"armodels.armodel_residual(np.ones(10) / 20., np.ones({n}), 0.)"))
        C.append(("anderson_darling_test", f"metrics.anderson_darling_test((np.arange({n}) % 97 + 0.5) / 97.)"))
        C.append(("cell2coord", f"mkgrid(500, 500).cell2coord(np.arange({n}))"))
        C.append(("coord2cell", f"mkgrid(500, 500).coord2cell(np.arange({2 * n}.).reshape({n}, 2) % 501)"))
        C.append(("points_inside_polygon", f"gutils.points_inside_polygon(np.arange({2 * n}.).reshape({n}, 2) % 5, "
                                           "np.array([[0., 0.], [4., 0.], [4., 4.]]))"))
        C.append(("var2h", f"dutils.var2h(pd.Series(np.ones({n // 10}), index=pd.date_range('2001-01-01 00:07', "
                           f"periods={n // 10}, freq='13min')))"))
    for n in ([700] if quick else [700, 2000]):
        C.append(("dscore", f"metrics.dscore(np.arange({n}.), (np.arange({3 * n}.) % 13).reshape({n}, 3))"))
        C.append(("pareto_front", f"sutils.pareto_front((np.arange({3 * n}.) % 17).reshape({n}, 3))"))
    for n in ([120] if quick else [120, 400]):
        whole = (f"fd = np.ones(({n}, {n}), dtype=np.int64); fd[:, -1] = 4; fd[-1, -1] = 0; c = mkcat({n}, {n}, fd); "
                 f"c.delineate_area({n * n - 1}); ")
        C.append(("delineate_area", whole + "attempt(c.delineate_boundary); c.compute_flowpathlengths()"))
        for filled in (False, True):
            C.append(("intersect", whole + f"c.intersect(mkgrid({n // 8 + 2}, {n // 8 + 2}, None, np.float64, 10., -5., -5.), {filled})"))
            C.append(("intersect", whole + f"c.intersect(mkgrid({n // 2}, {2 * n + 3}, None, np.float64, 0.5, -1., -1.), {filled})"))
        C.append(("voronoi", whole + f"hygrid.voronoi(c, np.arange({4 * n}.).reshape({2 * n}, 2) % {n})"))
        C.append(("accumulate", f"fd = np.ones(({n}, {n}), dtype=np.int64); fd[:, -1] = 4; fd[-1, -1] = 0; "
                                f"hygrid.accumulate(mkgrid({n}, {n}, fd, np.int64), nprint=7)"))
        C.append(("delineate_river", f"fd = np.ones(({n}, {n}), dtype=np.int64); fd[:, -1] = 4; fd[-1, -1] = 0; "
                                     f"hygrid.delineate_river(mkgrid({n}, {n}, fd, np.int64), 0)"))
    # a small catchment and a second grid with far more cells than the catchment, and a second
    # grid with a single cell
    small = "c = mkcat(3, 3, [2, 4, 8, 1, 0, 16, 128, 64, 32]); c.delineate_area(4); "
    for filled in (False, True):
        C.append(("intersect", small + f"c.intersect(mkgrid(1500, 1500, None, np.float64, 0.01, -5., -5.), {filled})"))
        C.append(("intersect", small + f"c.intersect(mkgrid(1, 1, None, np.float64, 0.01, 1., 1.), {filled})"))
    return C


# ---------------------------------------------------------------------------
# coordinates on the edges of a grid, entry points that reach a kernel through another
# method, and objects that are used again after a setter / an earlier call

def edge_cases(rng, quick):
    """Coordinates exactly on the four edges / corners of the grid and one unit in the last
    place on either side of them (the range test of c_coord2cell decides between a cell and
    'outside'), cell centres and cell borders; second grids whose outer edges pass exactly
    through the centres or the borders of the catchment's cells."""
    C = []
    geoms = [(3, 4, 1., 0., 0.), (4, 3, 0.25, 10.5, -3.), (2, 5, 0.1, -0.3, 0.7), (1, 1, 3., 1e6, -1e6)]
    for nr, nc, csz, xll, yll in geoms:
        g = f"mkgrid({nr}, {nc}, list(range({nr * nc})), np.float64, {csz!r}, {xll!r}, {yll!r})"
        xs = [xll, xll + nc * csz, xll + csz, xll + (nc - 1) * csz, xll + csz / 2, xll + (nc - 0.5) * csz]
        ys = [yll, yll + nr * csz, yll + csz, yll + (nr - 1) * csz, yll + csz / 2, yll + (nr - 0.5) * csz]
        pts = []
        for x in xs:
            for y in ys:
                pts.append(f"[{x!r}, {y!r}]")
        base = "np.array([" + ", ".join(pts) + "])"
        for expr in (base, f"np.nextafter({base}, np.inf)", f"np.nextafter({base}, -np.inf)",
                     f"np.nextafter({base}, np.inf) + np.array([0., -1e-300])", f"{base} * (1 + 2e-16)"):
            C.append(("coord2cell", f"{g}.coord2cell({expr})"))
            C.append(("slice", f"{g}.slice({expr})"))
            C.append(("voronoi", f"c = mkcat({nr}, {nc}, {[1] * (nr * nc - 1) + [0]!r}, {csz!r}, {xll!r}, {yll!r}); "
                                 f"c.delineate_area({nr * nc - 1}); hygrid.voronoi(c, {expr})"))
        C.append(("clip", f"{g}.clip({xll!r}, {yll!r}, {xll + nc * csz!r}, {yll + nr * csz!r})"))
        C.append(("clip", f"{g}.clip({xll + csz / 2!r}, {yll + csz / 2!r}, {xll + (nc - 0.5) * csz!r}, {yll + (nr - 0.5) * csz!r})"))
        C.append(("clip", f"{g}.clip({xll + nc * csz!r}, {yll + nr * csz!r}, {xll!r}, {yll!r})"))
        C.append(("clip", f"{g}.clip({xll - csz!r}, {yll - csz!r}, {xll + 100 * csz!r}, {yll + 100 * csz!r})"))
        C.append(("clip", f"{g}.clip(nan, {yll!r}, inf, 1e300)"))
    # second grids aligned on the centres / the borders of the cells of a catchment with a hole
    nr, nc = 7, 8
    ring = tree_flowdir(nr, nc, rect(1, 5, 1, 6) - rect(2, 4, 2, 5), (5, 3))
    for csz, xll, yll in ((1., 0., 0.), (0.25, 10.5, -3.)):
        pre = f"c = mkcat({nr}, {nc}, {ring!r}, {csz!r}, {xll!r}, {yll!r}); c.delineate_area({5 * nc + 3}, None, 70); "
        for ratio in (1., 0.5, 2.):
            for off in (0., 0.5, 1., 1.5):
                for n0, n1 in ((nr, nc), (nr - 1, nc - 1), (int(nr / ratio), int(nc / ratio)), (int(nr / ratio) + 1, int(nc / ratio) + 1)):
                    gg = f"mkgrid({n0}, {n1}, None, np.float64, {csz * ratio!r}, {xll + off * csz!r}, {yll + off * csz!r})"
                    for filled in (False, True):
                        C.append(("intersect", pre + f"c.intersect({gg}, {filled})"))
    if quick:
        C = [x for i, x in enumerate(C) if x[0] != "intersect" or i % 3 == rng.randrange(3)]
    return C


def indirect_cases(rng, quick):
    """Grid / Catchment methods and package functions that reach a kernel through another
    method: xvalues, yvalues, clip, cells_inside_polygon, compute_area, isin, goue, alpha."""
    C = []
    for nr, nc in ((0, 0), (1, 1), (3, 4), (1, 5), (5, 1), (0, 3)):
        g = f"mkgrid({nr}, {nc}, None, np.float64, 0.5, 1., 2.)"
        C.append(("xvalues", f"{g}.xvalues"))
        C.append(("yvalues", f"{g}.yvalues"))
        for po in ("np.array([[0., 0.], [4., 0.], [4., 4.], [0., 4.]])", "np.zeros((0, 2))", "np.array([[1., 2.]])",
                   "np.array([[nan, 0.], [4., 0.], [4., inf]])", "np.zeros((3, 3))", "np.array([[1.2, 2.2], [1.3, 2.2], [1.3, 2.3]])"):
            C.append(("cells_inside_polygon", f"{g}.cells_inside_polygon({po})"))
            C.append(("cells_inside_polygon", f"{g}.cells_inside_polygon({po}, atol=0.)"))
    for name, nr, nc, fd, outlet, inlets, ncells in topologies(rng, 0)[:9:2]:
        pre = f"c = mkcat({nr}, {nc}, {fd!r}); c.delineate_area({outlet}, {inlets!r}, {nr * nc + 3}); c.delineate_boundary(); "
        C.append(("compute_area", pre + "c.compute_area(lambda x, y: (1000. * x, 1000. * y))"))
        C.append(("compute_area", pre + "c.compute_area(lambda x, y: (x, y), lambda x, y: (nan, y))"))
        C.append(("isin", pre + f"[c.isin(k, f) for k in (-1, 0, {outlet}, {nr * nc}) for f in (False, True)]"))
    for n in (0, 1, 2, 5, 40):
        for v in float_vectors(rng, n)[:3]:
            idx = sorted(rng.randint(0, 3) for _ in range(n))
            C.append(("goue", f"signatures.goue({arr(idx, 'int')}, {arr(v, 'float')})"))
        for p_ in (1, 2, 7):
            ens = mat(rng, n, p_, rng.choice([0, 1, 2]))
            obs = [rng.uniform(0, 5) for _ in range(n)]
            C.append(("alpha", f"metrics.alpha({arr(obs, 'float')}, {mat_lit(ens, p_)}, type='AD')"))
    return C


def history_cases(rng, quick):
    """One object, several calls: a catchment delineated again (larger, smaller, failing for
    want of room, empty), grids whose data / dtype / limits / geometry attributes were set after
    construction (accumulate and slope set the dtype of their arguments in place), results of
    one call handed to the next."""
    C = []
    tops = {t[0]: t for t in topologies(rng, 0)}
    for a, b in (("ring", "ring"), ("thick-ring", "two-holes"), ("enclosed-inlet", "enclosed-no-inlet"),
                 ("edge-ring", "whole-grid")):
        _, nr, nc, fd, outlet, inlets, ncells = tops[a]
        gh = f"mkgrid({2 * nr + 5}, {2 * nc + 5}, None, np.float64, 0.5, -1., -1.)"
        other = next(i for i, x in enumerate(fd) if x and i != outlet)
        for seq in (f"c.delineate_area({outlet}, {inlets!r}, 100); attempt(c.delineate_boundary); c.delineate_area({other}, None, 100); ",
                    f"c.delineate_area({other}, None, 100); attempt(c.delineate_boundary); c.delineate_area({outlet}, {inlets!r}, 100); ",
                    f"c.delineate_area({outlet}, {inlets!r}, 100); c.compute_flowpathlengths(); "
                    f"attempt(c.delineate_area, {outlet}, None, 2); ",
                    f"c.delineate_area({outlet}, {inlets!r}, 100); c.delineate_area({nr * nc - 1 if fd[nr * nc - 1] == 0 else 0}, None, 100); ",
                    f"c.delineate_area({outlet}, {inlets!r}, 100); c.flowdir.data[:] = 0; "):
            for tail in (f"c.intersect({gh}, True)", f"c.intersect({gh}, False)", "c.delineate_boundary(); c.extent()",
                         "c.compute_flowpathlengths()", f"hygrid.voronoi(c, np.array([[1., 1.], [3., 2.]]))",
                         f"attempt(c.delineate_boundary); attempt(c.intersect, {gh}, True); c.compute_flowpathlengths()"):
                C.append(("catchment-history", f"c = mkcat({nr}, {nc}, {fd!r}); " + seq + tail))
    fd = [1, 1, 1, 4, 1, 1, 1, 4, 1, 1, 1, 0]
    g = "g = mkgrid(3, 4, %r, %s); " % (fd, "np.float64")
    for setter in ("g.dtype = np.int32; ", "g.data = np.arange(12.).reshape(3, 4)[:, ::-1]; ", "g.data = np.asfortranarray(np.ones((3, 4))); ",
                   "g.mindata = 1; ", "g.maxdata = 3; ", "g.nodata = -9999; ", "g.fill(4); ", "g[11] = 7; ", "g.ncols = 6; ", "g.nrows = 2; ",
                   "g.ncols, g.nrows = 3, 4; ", "g.cellsize = 0.; ", "g.cellsize = -1.; ", "g.xllcorner = nan; ", "g.data = np.ones((4, 3)); ",
                   "g = g.clone(np.int64); ", "g = Grid.from_dict(g.to_dict()); ", "g = g.clip(0.5, 0.5, 2.5, 2.5); ",
                   "g = g.apply(lambda x: x[:2, :3]); ", "g._data = g._data[:, ::2]; "):
        for tail in ("g.slice([[0.5, 0.5], [3.5, 2.5], [1.2, 1.7]])", "g.coord2cell([[0.5, 0.5], [3.5, 2.5], [5.5, 0.5]])",
                     "g.cell2coord([0, 5, 11, 17])", "g.cell2rowcol([0, 5, 11, 17])", "g.neighbours(5); g.neighbours(11)",
                     "hygrid.accumulate(g); hygrid.accumulate(g, g)", "hygrid.slope(g, g); hygrid.slope(g, mkgrid(3, 4))",
                     "hygrid.delineate_river(g, 0); hygrid.delineate_river(g, 0, 3)",
                     "c = Catchment('c', g); c.delineate_area(11, None, 50); attempt(c.delineate_boundary); "
                     "attempt(c.intersect, mkgrid(9, 9, None, np.float64, 0.5, -0.2, -0.2), True); c.upstream([0, 11]); c.downstream([0, 11])",
                     "c = mkcat(3, 4, %r); c.delineate_area(11, None, 50); c.intersect(g, True); c.intersect(g)" % (fd,),
                     "g.xvalues; g.yvalues; g.cells_inside_polygon(np.array([[0., 0.], [4., 0.], [4., 4.]]))"):
            C.append(("grid-history", g + setter + tail))
    # the arguments of accumulate / slope are converted in place: call again with the same objects
    C.append(("grid-history", "f = mkgrid(3, 4, %r, np.float32); a = mkgrid(3, 4, list(range(12)), np.int32); "
                              "hygrid.accumulate(f, a); hygrid.slope(f, a); hygrid.accumulate(f, a, 0, 2); hygrid.slope(a, f, 0)" % (fd,)))
    if quick:
        C = [x for i, x in enumerate(C) if i % 2 == rng.randrange(2)]
    return C


def all_cases(rng, quick):
    return data_cases(rng, quick) + stat_cases(rng, quick) + gis_cases(rng, quick) + catchment_cases(rng, quick) \
        + layout_cases(rng, quick) + size_cases(rng, quick) + edge_cases(rng, quick) \
        + indirect_cases(rng, quick) + history_cases(rng, quick)
