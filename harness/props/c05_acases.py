"""C05 - API-level cases: python snippets calling the public entry points that reach a
compiled kernel, at and beyond the boundary shapes / values / options of the property's
quantifier.  Each case is (function label, code).  The snippets run in the namespace of
harness/props/c05_aworker.py (np, pd, nan, inf, dutils, qualitycontrol, signatures,
metrics, armodels, sutils, hygrid, gutils, Grid, Catchment, c_hydrodiy_*, mkgrid, mkcat,
series)."""

NANS = "nan"


def arr(xs, dtype=None):
    def lit(x):
        if isinstance(x, float):
            if x != x:
                return "nan"
            if x in (float("inf"), float("-inf")):
                return "inf" if x > 0 else "-inf"
        return repr(x)
    body = "[" + ", ".join(arr_inner(x, lit) for x in xs) + "]"
    return f"np.array({body}, dtype={dtype})" if dtype else f"np.array({body})"


def arr_inner(x, lit):
    if isinstance(x, (list, tuple)):
        return "[" + ", ".join(arr_inner(y, lit) for y in x) + "]"
    return lit(x)


NAN, INF = float("nan"), float("inf")
I32MAX = 2147483647

# ---------------------------------------------------------------------------
# the replays of DESIGN section 6 (rows 5-10) and the further defects found while building
# the check; they are also stored under corpus/C05/

REPLAYS = [
    ("aggregate", "dutils.aggregate(np.array([], int), np.array([]))"),
    ("flathomogen", "dutils.flathomogen(np.array([], int), np.array([]))"),
    ("islinear", "qualitycontrol.islinear(np.array([1.]))"),
    ("islinear", "qualitycontrol.islinear(np.array([]))"),
    ("eckhardt", "signatures.eckhardt(np.array([]))"),
    ("var2h", "dutils.var2h(series([1, 2, 3], ['2001-01-01 00:10', '2001-01-01 00:20', '2001-01-01 00:50']))"),
    ("var2h", "dutils.var2h(series([1, 2], ['2001-01-01 00:00', '2001-01-01 01:00']), 1800)"),
    ("var2h", "dutils.var2h(series([1, 2], ['1950-01-01 00:10', '2019-01-01 00:00']))"),
    ("voronoi", "c = mkcat(3, 3, [2, 4, 8, 1, 0, 16, 128, 64, 32]); c.delineate_area(4); "
                "hygrid.voronoi(c, np.array([[1., 1.]]))"),
    ("voronoi", "c = mkcat(3, 3, [2, 4, 8, 1, 0, 16, 128, 64, 32]); c.delineate_area(4); "
                "hygrid.voronoi(c, np.zeros((0, 2)))"),
    ("accumulate", "hygrid.accumulate(mkgrid(2, 2, [1, 4, 1, 0], np.int64), nprint=0)"),
    ("slope", "hygrid.slope(mkgrid(2, 2, [1, 4, 1, 0], np.int64), mkgrid(2, 2, [4., 3., 2., 1.]), nprint=0)"),
    ("delineate_boundary",
     "c = Catchment.from_dict({'name': 'c', 'idxcell_outlet': 4, 'idxinlets': None, 'idxcells_area': [4], "
     "'idxcells_area_filled': [4], 'flowdir': mkgrid(3, 3, [0] * 9, np.int64).to_dict()}); c.delineate_boundary()"),
    ("delineate_boundary",
     "c = Catchment.from_dict({'name': 'c', 'idxcell_outlet': 0, 'idxinlets': None, 'idxcells_area': [0, 99], "
     "'idxcells_area_filled': [0, 99], 'flowdir': mkgrid(10, 10, [0] * 100, np.int64).to_dict()}); c.delineate_boundary()"),
    ("delineate_boundary",
     "c = Catchment.from_dict({'name': 'c', 'idxcell_outlet': 0, 'idxinlets': None, 'idxcells_area': [-2, -1], "
     "'idxcells_area_filled': [-2, -1], 'flowdir': mkgrid(2, 2, [0] * 4, np.int64).to_dict()}); c.delineate_boundary()"),
    ("delineate_boundary",
     "c = Catchment.from_dict({'name': 'c', 'idxcell_outlet': 0, 'idxinlets': None, 'idxcells_area': [0, 1000000], "
     "'idxcells_area_filled': [0, 1000000], 'flowdir': mkgrid(2, 2, [0] * 4, np.int64).to_dict()}); "
     "c.delineate_boundary(np.ones(4, dtype=np.int64))"),
    ("coord2cell", "mkgrid(3, 3).coord2cell(np.zeros((5, 1)))"),
    ("coord2cell", "mkgrid(3, 3).coord2cell([[nan, 1.]])"),
    ("coord2cell", "mkgrid(3, 3).coord2cell([[1e300, 1.]])"),
    ("slice", "mkgrid(3, 3).slice([[nan, 1.]])"),
    ("getdate", "c_hydrodiy_data.getdate(1e300, np.zeros(3, np.int32))"),
    ("getdate", "c_hydrodiy_data.getdate(nan, np.zeros(3, np.int32))"),
    ("add1month", "c_hydrodiy_data.add1month(np.array([2147483647, 12, 1], np.int32))"),
    ("add1day", "c_hydrodiy_data.add1day(np.array([2147483647, 12, 31], np.int32))"),
]


def float_vectors(rng, n):
    """a few vectors of length n covering the value classes"""
    out = [[float(i % 3) for i in range(n)], [rng.uniform(-5, 5) for _ in range(n)]]
    if n:
        v = [rng.uniform(0, 5) for _ in range(n)]
        v[rng.randrange(n)] = NAN
        out.append(v)
        out.append([NAN] * n)
        v = [rng.uniform(0, 5) for _ in range(n)]
        v[rng.randrange(n)] = rng.choice([INF, -INF, 1e300, -1e300])
        out.append(v)
    return out


def data_cases(rng, quick):
    C = []
    lens = [0, 1, 2, 3, 5] + ([] if quick else [8, 17, 64])
    for n in lens:
        for v in float_vectors(rng, n):
            for idx in ([0] * n, list(range(n)), sorted(rng.randint(0, 3) for _ in range(n)),
                        [rng.randint(-2, 2) for _ in range(n)]):
                op, mx = rng.choice([0, 1, 2, 3, 4, -1]), rng.choice([0, 1, -1, 3, 10 ** 6])
                C.append(("aggregate", f"dutils.aggregate({arr(idx, 'int')}, {arr(v, 'float')}, {op}, {mx})"))
                C.append(("flathomogen", f"dutils.flathomogen({arr(idx, 'int')}, {arr(v, 'float')}, {mx})"))
            npt, tol, th = rng.choice([1, 1, 2, 3, 0, -1, 1000]), rng.choice([1e-5, 1e-11, 0.5, NAN]), rng.choice([0., 1., NAN])
            C.append(("islinear", f"qualitycontrol.islinear({arr(v, 'float')}, {npt}, {tol!r}, {th!r})"))
            C.append(("islinear", f"qualitycontrol.islinear({arr(v, 'float')})"))
            C.append(("eckhardt", f"signatures.eckhardt({arr(v, 'float')})"))
            th, tau, bfi, tt = (rng.choice([0.95, 0., 1., -1., 2., NAN]), rng.choice([20, 0, -1, NAN, INF]),
                                rng.choice([0.8, 0., 1., 1.5, NAN]), rng.choice([0, 1, 2, -1]))
            C.append(("eckhardt", f"signatures.eckhardt({arr(v, 'float')}, {lit(th)}, {lit(tau)}, {lit(bfi)}, {tt})"))
    C.append(("aggregate", "dutils.aggregate(np.array([1, 2]), np.array([1., 2., 3.]))"))
    C.append(("aggregate", "dutils.aggregate(np.array([2**31, 2**31 + 1]), np.array([1., 2.]))"))
    C.append(("islinear", "qualitycontrol.islinear(np.zeros((3, 2)))"))
    # var2h
    stamps = [
        ["2001-01-01 00:10"], ["2001-01-01 00:10", "2001-01-01 00:20"],
        ["2001-01-01 00:00", "2001-01-01 01:00"], ["2001-01-01 00:00", "2001-01-01 02:00"],
        ["2001-01-01 00:10", "2001-01-01 01:20", "2001-01-01 03:50", "2001-01-01 04:00"],
        ["2001-01-01 03:00", "2001-01-01 01:00", "2001-01-01 02:00"],                 # not sorted
        ["2001-01-01 01:00", "2001-01-01 01:00", "2001-01-01 05:00"],                 # duplicate
        ["2001-01-01 00:59:59", "2001-01-01 01:00:00", "2001-01-01 01:00:01", "2001-01-01 03:00:01"],
        ["1969-12-31 22:30", "1970-01-01 03:10"], ["2001-01-01 00:30", "2001-01-20 00:30"],
    ]
    for st in stamps:
        for P in (3600, 1800):
            vals = [rng.choice([1., 2.5, NAN, -1., INF]) for _ in st]
            rain, disp, gap = rng.choice([False, True]), rng.choice([False, False, True]), rng.choice([5 * 86400, 3600, 10 ** 9])
            C.append(("var2h", f"dutils.var2h(series({arr_inner(vals, lit)}, {st!r}), {P}, {gap}, {rain}, {disp})"))
    C.append(("var2h", "dutils.var2h(series([1, 2], ['2001-01-01 00:10', '2001-01-01 05:00']), 900)"))
    C.append(("var2h", "dutils.var2h(series([1, 2], ['2001-01-01 00:10', '2001-01-01 05:00']), 3600, 60)"))
    C.append(("var2h", "dutils.var2h(series([], []))"))
    # the c-module date helpers
    ys = [2000, 1900, 2023, 0, -1, I32MAX, -I32MAX - 1]
    for y in ys:
        C.append(("isleapyear", f"c_hydrodiy_data.isleapyear({y})"))
        for m in (0, 1, 2, 12, 13, -1, I32MAX):
            C.append(("daysinmonth", f"c_hydrodiy_data.daysinmonth({y}, {m})"))
    for m in (0, 1, 12, 13, -5, I32MAX):
        for d in (0, 1, 31, 32, -1, I32MAX):
            C.append(("dayofyear", f"c_hydrodiy_data.dayofyear({m}, {d})"))
    for y in (2000, 1999, I32MAX, -I32MAX - 1):
        for m in (1, 2, 11, 12, 0, 13, I32MAX):
            for d in (1, 28, 29, 31, 0, 32, I32MAX):
                C.append(("add1month", f"c_hydrodiy_data.add1month(np.array([{y}, {m}, {d}], np.int32))"))
                C.append(("add1day", f"c_hydrodiy_data.add1day(np.array([{y}, {m}, {d}], np.int32))"))
    C.append(("add1month", "c_hydrodiy_data.add1month(np.array([2000, 1], np.int32))"))
    C.append(("add1day", "c_hydrodiy_data.add1day(np.zeros(0, np.int32))"))
    C.append(("comparedates", "c_hydrodiy_data.comparedates(np.array([2000, 1, 1], np.int32), np.array([2000, 1, 2], np.int32))"))
    C.append(("comparedates", "c_hydrodiy_data.comparedates(np.array([2000, 1], np.int32), np.array([2000, 1, 2], np.int32))"))
    for day in (20000229., 19000229., 20001301., 0., -1., 1e9, 2147483647., 2147483648., 1e19, 1e300, NAN, INF, -INF, 20000101.9):
        C.append(("getdate", f"c_hydrodiy_data.getdate({lit(day)}, np.zeros(3, np.int32))"))
    C.append(("getdate", "c_hydrodiy_data.getdate(20000101., np.zeros(2, np.int32))"))
    return C


def lit(x):
    if isinstance(x, float):
        if x != x:
            return "nan"
        if x == INF:
            return "inf"
        if x == -INF:
            return "-inf"
    return repr(x)


def mat(rng, n, p, cls=0):
    rows = [[rng.uniform(0, 5) if cls != 1 else float(rng.randint(0, 2)) for _ in range(p)] for _ in range(n)]
    if cls == 2 and n and p:
        rows[rng.randrange(n)][rng.randrange(p)] = NAN
    if cls == 3 and n and p:
        rows[rng.randrange(n)] = [NAN] * p
    if cls == 4 and n and p:
        rows[rng.randrange(n)][rng.randrange(p)] = rng.choice([INF, -INF, 1e300])
    return rows


def mat_lit(rows, p):
    if not rows:
        return f"np.zeros((0, {p}))"
    if p == 0:
        return f"np.zeros(({len(rows)}, 0))"
    return "np.array(" + arr_inner(rows, lit) + ", dtype=float)"


def stat_cases(rng, quick):
    C = []
    for n in (0, 1, 2, 3, 5):
        for p in (0, 1, 2, 3, 6):
            for cls in range(5):
                ens = mat(rng, n, p, cls)
                obs = [rng.uniform(0, 5) if rng.random() < 0.85 else NAN for _ in range(n)]
                C.append(("crps", f"metrics.crps({arr(obs, 'float')}, {mat_lit(ens, p)})"))
                if n <= 3 or cls == 0:
                    eps = rng.choice([1e-6, 1e-6, 0., -1., NAN, 1e-30])
                    C.append(("dscore", f"metrics.dscore({arr(obs, 'float')}, {mat_lit(ens, p)}, {lit(eps)})"))
                orient = rng.choice([1, -1, 0, 7])
                C.append(("pareto_front", f"sutils.pareto_front({mat_lit(ens, p)}, {orient})"))
    C.append(("crps", "metrics.crps(np.array([1., 2.]), np.array([[1., 2.]]))"))
    C.append(("crps", "metrics.crps(1., np.array([1., 2., 0.5]))"))
    C.append(("pareto_front", "sutils.pareto_front(np.zeros(4))"))
    C.append(("pareto_front", "sutils.pareto_front(np.asfortranarray(np.arange(6.).reshape(3, 2)))"))
    for n in (0, 1, 2, 5, 12):
        for v in float_vectors(rng, n):
            C.append(("anderson_darling_test", f"metrics.anderson_darling_test({arr(v, 'float')})"))
        u = sorted(rng.random() for _ in range(n))
        C.append(("anderson_darling_test", f"metrics.anderson_darling_test({arr(u, 'float')})"))
        C.append(("anderson_darling_test", f"metrics.anderson_darling_test({arr([0.0] * n, 'float')})"))
        C.append(("anderson_darling_test", f"metrics.anderson_darling_test({arr([1.0] * n, 'float')})"))
    C.append(("anderson_darling_test", "metrics.anderson_darling_test(0.3)"))
    # more than 46340 samples that fit very well: AnDarl.c formed n*n in int (found by the
    # overflow-checked MiniC program, fixed by c81eaee); kept as a regression case
    for n in (46340, 46341, 50000):
        C.append(("anderson_darling_test",
                  f"metrics.anderson_darling_test((np.arange({n}) + 0.5) / {n})"))
    for order in (0, 1, 2, 5, 10, 11, 12):
        params = [round(rng.uniform(-0.4, 0.4), 3) for _ in range(order)]
        for n in (0, 1, 2, 5):
            for v in float_vectors(rng, n)[:4]:
                mean, ini = rng.choice([0., 1.5, NAN]), rng.choice([None, 0.5, NAN])
                C.append(("armodel_sim", f"armodels.armodel_sim({arr(params, 'float')}, {arr(v, 'float')}, {lit(mean)}, {lit(ini)})"))
                C.append(("armodel_residual", f"armodels.armodel_residual({arr(params, 'float')}, {arr(v, 'float')}, {lit(mean)}, {lit(ini)})"))
    C.append(("armodel_sim", "armodels.armodel_sim(0.5, np.zeros((4, 2)))"))
    C.append(("armodel_sim", "armodels.armodel_sim(np.array([0.5, nan]), np.zeros(4))"))
    C.append(("armodel_residual", "armodels.armodel_residual(0.5, np.zeros(4)[::2])"))
    C.append(("armodel_residual", "armodels.armodel_residual(np.zeros((2, 2)), np.zeros(4), 0.)"))
    return C


FD_GRIDS = [
    (1, 1, [0]), (1, 1, [1]), (1, 3, [1, 1, 0]), (3, 1, [4, 4, 0]), (2, 2, [1, 4, 1, 0]),
    (2, 2, [1, 16, 1, 16]),                                       # two 2-cycles
    (3, 3, [2, 4, 8, 1, 0, 16, 128, 64, 32]),                     # all drain to the centre
    (3, 4, [1, 1, 1, 4, 1, 1, 1, 4, 1, 1, 1, 0]),
    (3, 3, [3, 3, 3, 3, 3, 3, 3, 3, 3]),                          # invalid codes
    (4, 4, [2, 4, 4, 8, 1, 2, 8, 16, 1, 1, 0, 16, 64, 64, 64, 32]),
]


def gis_cases(rng, quick):
    C = []
    shapes = [(0, 0), (1, 1), (1, 3), (3, 1), (3, 4), (0, 3)]
    geoms = [(1., 0., 0.), (0.25, 10.5, -3.), (0., 0., 0.), (-1., 0., 0.), (NAN, 0., 0.), (1., NAN, INF), (1e-300, 0., 0.)]
    for nr, nc in shapes:
        for csz, xll, yll in geoms if (nr, nc) in ((3, 4), (1, 1)) else geoms[:2]:
            g = f"mkgrid({nr}, {nc}, None, np.float64, {lit(csz)}, {lit(xll)}, {lit(yll)})"
            pts = [[0.5, 0.5], [xll if xll == xll else 0., yll if yll == yll else 0.], [-1., 2.], [NAN, 1.],
                   [1., INF], [1e300, -1e300], [9.3e18, 1.], [3.9999, 2.0001]]
            C.append(("coord2cell", f"{g}.coord2cell({arr_inner(pts, lit)})"))
            C.append(("slice", f"{g}.slice({arr_inner(pts, lit)})"))
            for shp in ("(0, 2)", "(3, 1)", "(3, 3)", "(2,)", "(0,)", "(2, 2, 2)", "(1, 0)"):
                C.append(("coord2cell", f"{g}.coord2cell(np.zeros({shp}))"))
                C.append(("slice", f"{g}.slice(np.zeros({shp}))"))
            cells = [0, 1, nr * nc - 1, nr * nc, -1, 2 ** 62, -2 ** 63]
            C.append(("cell2coord", f"{g}.cell2coord({cells!r})"))
            C.append(("cell2rowcol", f"{g}.cell2rowcol({cells!r})"))
            C.append(("cell2coord", f"{g}.cell2coord(np.zeros(0))"))
            C.append(("cell2rowcol", f"{g}.cell2rowcol(np.zeros((2, 2)))"))
            for c in (0, nr * nc - 1, nr * nc, -1, 2 ** 62):
                C.append(("neighbours", f"{g}.neighbours({c})"))
    for nr, nc, fd in FD_GRIDS + [(0, 0, []), (0, 3, [])]:
        n = nr * nc
        cat = f"mkcat({nr}, {nc}, {fd!r})"
        cells = [0, n - 1, n, -1, 2 ** 62]
        C.append(("upstream", f"{cat}.upstream({cells!r})"))
        C.append(("downstream", f"{cat}.downstream({cells!r})"))
        C.append(("upstream", f"{cat}.upstream(list(range({n})))"))
        C.append(("downstream", f"{cat}.downstream(list(range({n})))"))
        C.append(("upstream", f"{cat}.upstream([])"))
        fdg = f"mkgrid({nr}, {nc}, {fd!r}, np.int64)"
        for nprint in (100, 1, 0, -1, -2 ** 63):
            for mx in (-1, 0, 1, 3, n + 5):
                C.append(("accumulate", f"hygrid.accumulate({fdg}, nprint={nprint}, max_accumulated_cells={mx})"))
            alt = [float(rng.randint(0, 9)) for _ in range(n)]
            C.append(("slope", f"hygrid.slope({fdg}, mkgrid({nr}, {nc}, {alt!r}), nprint={nprint})"))
        C.append(("accumulate", f"hygrid.accumulate({fdg}, mkgrid({nr}, {nc}, [nan] * {n}))"))
        C.append(("slope", f"hygrid.slope({fdg}, mkgrid({nr + 1}, {nc}))"))
        for up in (0, n - 1, n, -1):
            for nval in (0, 1, 2, n + 3):
                C.append(("delineate_river", f"hygrid.delineate_river({fdg}, {up}, {nval})"))
        for outlet in sorted({0, n // 2, n - 1, n, -1}):
            for nval in (0, 1, 2, 3, n, n + 2, 50):
                for inl in ("None", "[0]", f"[{n - 1}, {n}]", "[-1]"):
                    if rng.random() < (0.35 if quick else 1.0) or nval in (1, 2):
                        C.append(("delineate_area", f"c = {cat}; c.delineate_area({outlet}, {inl}, {nval})"))
            body = (f"c = {cat}; c.delineate_area({outlet}); c.delineate_boundary(); c.compute_flowpathlengths(); "
                    f"c.extent(); hygrid.voronoi(c, np.array([[0.5, 0.5], [2., 1.]])); "
                    f"c.intersect(mkgrid(2, 2, None, np.float64, 2., -0.5, -0.5))")
            C.append(("catchment-chain", body))
            for pts in ("np.zeros((0, 2))", "np.array([[1., 1.]])", "np.zeros((3, 1))", "np.zeros((2, 3))",
                        "np.array([[nan, 1.], [1., inf]])", "np.array([1., 2.])"):
                C.append(("voronoi", f"c = {cat}; c.delineate_area({outlet}); hygrid.voronoi(c, {pts})"))
            for gg in ("mkgrid(2, 2, None, np.float64, 2., -0.5, -0.5)", "mkgrid(1, 1, None, np.float64, 10., -1., -1.)",
                       "mkgrid(2, 2, None, np.float64, 2., 100., 100.)", "mkgrid(0, 0)", "mkgrid(3, 3, None, np.float64, nan)",
                       "mkgrid(5, 5, None, np.float64, 0.3, 0., 0.)"):
                for filled in (False, True):
                    C.append(("intersect", f"c = {cat}; c.delineate_area({outlet}); c.intersect({gg}, {filled})"))
    # catchments built from dictionaries: arbitrary area cells
    for nr, nc in ((3, 3), (1, 1), (10, 10), (2, 2), (0, 0)):
        n = nr * nc
        for area in ([0], [n // 2], [0, n - 1], [0, 1, 2], [-1], [-2, -1], [n], [0, n + 5], [0, 10 ** 9], [], list(range(n))):
            d = (f"{{'name': 'c', 'idxcell_outlet': 0, 'idxinlets': None, 'idxcells_area': {area!r}, "
                 f"'idxcells_area_filled': {area!r}, 'flowdir': mkgrid({nr}, {nc}, [0] * {n}, np.int64).to_dict()}}")
            C.append(("delineate_boundary", f"c = Catchment.from_dict({d}); c.delineate_boundary()"))
            C.append(("delineate_boundary", f"c = Catchment.from_dict({d}); c.delineate_boundary(np.ones({n}, dtype=np.int64))"))
            C.append(("compute_flowpathlengths", f"c = Catchment.from_dict({d}); c.compute_flowpathlengths()"))
            C.append(("voronoi", f"c = Catchment.from_dict({d}); hygrid.voronoi(c, np.array([[0.5, 0.5]]))"))
            C.append(("intersect", f"c = Catchment.from_dict({d}); c.intersect(mkgrid(2, 2, None, np.float64, 2., -0.5, -0.5))"))
            C.append(("extent", f"c = Catchment.from_dict({d}); c.extent()"))
        d0 = (f"{{'name': 'c', 'idxcell_outlet': 0, 'idxinlets': None, 'idxcells_area': [0], "
              f"'idxcells_area_filled': [0], 'flowdir': mkgrid({nr}, {nc}, [0] * {n}, np.int64).to_dict()}}")
        for m in (f"np.ones({n + 1}, dtype=np.int64)", f"np.ones({n}, dtype=np.int32)", f"np.zeros({n}, dtype=np.int64)",
                  f"np.ones(({n}, 1), dtype=np.int64)"):
            C.append(("delineate_boundary", f"c = Catchment.from_dict({d0}); c.delineate_boundary({m})"))
    # points in polygon
    polys = ["np.zeros((0, 2))", "np.array([[1., 1.]])", "np.array([[0., 0.], [4., 4.]])",
             "np.array([[0., 0.], [4., 0.], [4., 4.], [0., 4.]])", "np.array([[0., 0.], [4., 0.], [nan, 4.]])",
             "np.array([[0., 0.], [inf, 0.], [4., 4.]])", "np.zeros((3, 1))", "np.zeros((3, 3))", "np.zeros(4)"]
    ptss = ["np.zeros((0, 2))", "np.array([[1., 1.]])", "np.array([[1., 1.], [5., 5.], [nan, 1.], [2., inf], [4., 4.], [0., 0.]])",
            "np.zeros((3, 1))", "np.zeros(2)", "np.ones((4, 2))[::2]"]
    for po in polys:
        for pt in ptss:
            for extra in ("", ", nprint=1", ", nprint=-1", ", atol=0.", ", atol=nan", ", inside=np.zeros(1, np.int32)",
                          ", inside=np.zeros(6, np.int64)", ", inside=np.ones(6, np.int32)"):
                if extra in ("", ", nprint=1") or rng.random() < (0.3 if quick else 1.0):
                    C.append(("points_inside_polygon", f"gutils.points_inside_polygon({pt}, {po}{extra})"))
    return C


def all_cases(rng, quick):
    return data_cases(rng, quick) + stat_cases(rng, quick) + gis_cases(rng, quick)
