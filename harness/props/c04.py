"""C04 - deterministic and categorical skill scores equal their definitions."""
import collections
import itertools
import math
from fractions import Fraction

import numpy as np

from harness import common as cm

PID = "C04"
HEADER = ("From Coq Require Import ZArith List PrimFloat.\n"
          "From Hy Require Import Base.Num Model.Scores.")

TOL = 1e-11      # |model - implementation| <= TOL * max(1, |implementation|) in the correspondence
NAN = float("nan")
INF = float("inf")
BTYPES = ["standard", "normalised", "log"]
TRANSFORMS = ["Identity", "Log", "BoxCox2", "Reciprocal", "Sinh"]


# ----------------------------------------------------------------------------
# coq/Gen/ConstsC04.v is shared by every check process working in /verif.  When another check
# runs at the same time against a DIFFERENT tree it rewrites that file between this run's
# extraction and its `make`; the build then sees the other tree's guards.  This is interference
# between processes, not a property of the tree under test: it is detected (file on disk differs
# from what the extractor yields for this tree) and the build is repeated.

def tie_disturbed():
    try:
        from harness.extractors import c04 as ex
        return (cm.COQ / "Gen" / "ConstsC04.v").read_text() != ex.render(cm.REPO)
    except Exception:
        return False     # a genuinely broken tie is reported by cm.prove itself


def prove_stable(ctx, attempts=4):
    for k in range(attempts):
        nob, notes = len(ctx.obligations), dict(ctx.notes)
        # Props/PyTieScores.vo: bias/nse/kge/binary as TRANSLATED from metrics.py (Gen/PyGen.v) = the model
        proved = cm.prove(ctx, extractors=["c04", "pygen"], extra_targets=["Props/PyTieScores.vo"])
        if proved and not tie_disturbed():
            return True
        if not tie_disturbed() and not proved:
            # failed on an undisturbed file: try once more only if the file was rewritten meanwhile
            # (it is undisturbed now, so the failure stands)
            return False
        if k + 1 < attempts:
            del ctx.obligations[nob:]
            ctx.notes.clear()
            ctx.notes.update(notes)
            ctx.notes["gen_interference_retries"] = k + 1
    return proved


# ----------------------------------------------------------------------------
# implementation access

def make_trans(spec):
    from hydrodiy.stat import transform
    name, params = spec
    t = transform.get_transform(name)
    if params:
        t.params.values = list(params)
    return t


def forward(spec, x):
    t = make_trans(spec)
    with np.errstate(all="ignore"):
        return np.atleast_1d(t.forward(np.array(x, dtype=np.float64)))


def call(fn, *a, **k):
    """-> ("ok", float) | ("err", exception class name)"""
    try:
        with np.errstate(all="ignore"):
            return ("ok", float(fn(*a, **k)))
    except ValueError as e:
        return ("err", type(e).__name__)


# ----------------------------------------------------------------------------
# Coq terms

def fl(x):
    return cm.coq_float(x)


def term_score(kind, excl, extra, tobs, tsim, res, tol):
    err = res[0] == "err"
    v = 0.0 if err else res[1]
    return (f"{kind} {cm.coq_bool(excl)} {extra}{cm.coq_flist(tobs)} {cm.coq_flist(tsim)} "
            f"{cm.coq_bool(err)} {fl(v)} {fl(tol)}")


def term_corr(excl, st, ty, obs, tobs, ens, tens, res, tol):
    err = res[0] == "err"
    v = 0.0 if err else res[1]
    po = "[" + "; ".join(f"({fl(a)}, {fl(b)})" for a, b in zip(obs, tobs)) + "]"
    pe = "[" + "; ".join("[" + "; ".join(f"({fl(a)}, {fl(b)})" for a, b in zip(r, tr)) + "]"
                         for r, tr in zip(ens, tens)) + "]"
    return (f"KCorr {cm.coq_bool(excl)} {cm.coq_z(st)} {cm.coq_z(ty)} {po} {pe} "
            f"{cm.coq_bool(err)} {fl(v)} {fl(tol)}")


def term_conf(ncat, obs, sim, res):
    if res is None:
        r = "None"
    else:
        rows, cols, vals = res
        r = (f"(Some ({cm.coq_zlist(rows)}, {cm.coq_zlist(cols)}, "
             "[" + "; ".join(cm.coq_zlist(v) for v in vals) + "]))")
    return f"KConf {cm.coq_option(ncat, cm.coq_z)} {cm.coq_zlist(obs)} {cm.coq_zlist(sim)} {r}"


PLAIN_KEYS = ["bias", "hitrate", "precision", "falsealarm", "accuracy", "F1", "MCC"]
APPROX_KEYS = ["LOR", "EDS", "ORSS"]


def term_bin(tab, res, tolp=None):
    (tn, fp), (fn, tp) = tab
    head = f"KBin {cm.coq_z(tn)} {cm.coq_z(fp)} {cm.coq_z(fn)} {cm.coq_z(tp)}"
    # 1-F and 1-H are formed in floating point: theta (hence LOR, ORSS) is conditioned by
    ctheta = (tn + fp) / tn + (tp + fn) / fn
    tola = TOL + 4e-15 * ctheta
    if res[0] == "err":
        return f"{head} true [] [] {fl(TOL)} {fl(tola)}"
    s = res[1]
    return (f"{head} false {cm.coq_flist([float(s[k]) for k in PLAIN_KEYS])} "
            f"{cm.coq_flist([float(s[k]) for k in APPROX_KEYS])} "
            f"{fl(TOL if tolp is None else tolp)} {fl(tola)}")


# ----------------------------------------------------------------------------
# exact (rational) textbook definitions - independent of the model

def fr(x):
    return Fraction(x)


def x_mean(l):
    return sum(map(fr, l), Fraction(0)) / len(l)


def x_ss(l, m):
    return sum(((fr(v) - m) ** 2 for v in l), Fraction(0))


def x_pearson(a, b):
    ma, mb = x_mean(a), x_mean(b)
    sab = sum(((fr(u) - ma) * (fr(v) - mb) for u, v in zip(a, b)), Fraction(0))
    saa, sbb = x_ss(a, ma), x_ss(b, mb)
    if saa == 0 or sbb == 0:
        return None
    return float(sab) / math.sqrt(float(saa) * float(sbb)) if float(saa) * float(sbb) > 0 else None


def x_midrank(l):
    out = []
    for v in l:
        lt = sum(1 for w in l if w < v)
        eq = sum(1 for w in l if w == v)
        out.append(Fraction(2 * lt + eq + 1, 2))
    return out


def cond_sum(l):
    s = abs(sum(map(fr, l), Fraction(0)))
    a = sum((abs(fr(v)) for v in l), Fraction(0))
    return float(a / s) if s != 0 else INF


def nondegenerate(l):
    """length >= 2, finite, mean and standard deviation not within 1e-6 (relative
    to the largest magnitude) of zero, and clear of the absolute 1e-10 guards"""
    if len(l) < 2 or not all(math.isfinite(v) for v in l):
        return False
    big = max(abs(v) for v in l)
    if big == 0 or big > 1e100:
        return False
    m = x_mean(l)
    sd = math.sqrt(float(x_ss(l, m) / len(l)))
    thr = max(1e-6 * big, 1e-8)
    return abs(float(m)) > thr and sd > thr


def spread_ok(l):
    """standard deviation clear of zero (for the simulated series in kge / corr)"""
    if len(l) < 2 or not all(math.isfinite(v) for v in l):
        return False
    big = max(abs(v) for v in l)
    if big == 0 or big > 1e100:
        return False
    m = x_mean(l)
    return math.sqrt(float(x_ss(l, m) / len(l))) > max(1e-6 * big, 1e-8)


def x_bias(o, s, typ):
    mo, ms = x_mean(o), x_mean(s)
    if typ == "standard":
        return float((ms - mo) / mo)
    if typ == "normalised":
        if ms + mo == 0:
            return None
        return float((ms - mo) / (ms + mo))
    if float(ms) > 1e-8 and float(mo) > 1e-8:
        return math.log(float(ms)) - math.log(float(mo))
    return None


def x_nse(o, s):
    mo = x_mean(o)
    errs = sum(((fr(b) - fr(a)) ** 2 for a, b in zip(o, s)), Fraction(0))
    return float(1 - errs / x_ss(o, mo))


def x_kge(o, s):
    mo, ms = x_mean(o), x_mean(s)
    so = math.sqrt(float(x_ss(o, mo) / len(o)))
    ss = math.sqrt(float(x_ss(s, ms) / len(s)))
    r = x_pearson(o, s)
    if r is None:
        return None
    return 1 - math.sqrt(float(1 - ms / mo) ** 2 + (1 - ss / so) ** 2 + (1 - r) ** 2)


def close(a, b, tol):
    if a != a or b != b:
        return False
    if a == b:
        return True
    return abs(a - b) <= tol * (1 + abs(b))


# ----------------------------------------------------------------------------
# generators

def gen_trans(rng, name=None):
    name = rng.choice(TRANSFORMS) if name is None else name
    if name == "Identity":
        return (name, [])
    if name == "Log":
        return (name, [rng.choice([1e-3, 0.1, 1.0, 10.0])])
    if name == "BoxCox2":
        return (name, [rng.choice([1e-3, 0.1, 1.0]), rng.choice([0.0, 0.2, 0.5, 1.0, 2.0])])
    if name == "Reciprocal":
        return (name, [rng.choice([0.01, 0.1, 1.0])])
    return (name, [rng.choice([-1.0, 0.0, 2.0]), rng.choice([0.05, 1.0, 3.0])])


def gen_series(rng, maxlen, n=None):
    """(obs, sim, label): mostly flow-like positive data, some signed data"""
    if n is None:
        n = rng.choice([2, 2, 3, 5, 7, 8, 9, 15, 16, 17, 31, 64, 127, 128, 129, 130, 136, 137,
                        rng.randint(2, maxlen), rng.randint(2, maxlen)])
    n = min(n, maxlen)
    shape = rng.random()
    scale = rng.choice([1.0, 1.0, 0.05, 30.0, 1e4])
    if rng.random() < 0.06:      # extreme but legal magnitudes (units: m3/s vs ML/year vs mm/s)
        scale = rng.choice([1e-4, 1e8, 1e30])
    if shape < 0.7:
        obs = [math.exp(rng.gauss(0, 1)) * scale for _ in range(n)]
    elif shape < 0.85:
        obs = [rng.gauss(2 * scale, scale) for _ in range(n)]
    else:
        obs = [rng.gauss(0.3 * scale, scale) for _ in range(n)]
    if rng.random() < 0.3:   # ties (matter for Spearman) and exactly representable values
        obs = [float(round(v / scale * 4)) / 4 * scale for v in obs]
    k = rng.random()
    if k < 0.08:
        sim, lab = list(obs), "perfect"
    elif k < 0.14:
        sim, lab = [sum(obs) / n] * n, "constant"
    elif k < 0.2:
        c = rng.choice([0.5, 2.0, 1.3])
        sim, lab = [c * v for v in obs], "scaled"
    else:
        noise = rng.choice([0.01, 0.3, 1.0])
        sim = [v * math.exp(rng.gauss(0, noise)) + rng.gauss(0, noise * scale * 0.1) for v in obs]
        lab = "noisy"
        if rng.random() < 0.25:
            sim = [float(round(v / scale * 4)) / 4 * scale for v in sim]
    holes = "clean"
    if rng.random() < 0.45:
        holes = "holes"
        for l in (obs, sim):
            if rng.random() < 0.7:
                for _ in range(rng.randint(1, max(1, n // 5))):
                    l[rng.randrange(n)] = rng.choice([NAN, NAN, NAN, INF, -INF])
    return obs, sim, lab + "/" + holes


def gen_special(rng):
    """inputs that reach the guards and error paths of the model (outside the
    non-degenerate quantifier: used for the correspondence only)"""
    k = rng.randrange(9)
    if k == 0:     # observed mean exactly zero
        return [1.0, -1.0, 2.0, -2.0], [0.5, 1.0, -3.0, 2.0], "mean0"
    if k == 1:     # constant observations
        return [2.5] * 5, [1.0, 2.0, 3.0, 4.0, 5.0], "const-obs"
    if k == 2:     # constant simulation
        return [1.0, 2.0, 3.0, 4.0, 5.0], [2.5] * 5, "const-sim"
    if k == 3:     # nothing left after filtering
        return [NAN, 1.0, NAN], [2.0, NAN, NAN], "all-null"
    if k == 4:     # different lengths
        return [1.0, 2.0, 3.0], [1.0, 2.0], "shape"
    if k == 5:     # one pair left
        return [1.0, NAN, 3.0], [2.0, 5.0, NAN], "one-pair"
    if k == 6:     # negative means (log bias undefined)
        return [-1.0, -2.0, -4.0], [-1.5, -2.0, -3.0], "negative"
    if k == 7:     # length one
        return [3.0], [4.0], "len1"
    n = rng.choice([140, 300])   # tiny mean relative to spread, long
    obs = [rng.gauss(0, 1) for _ in range(n)]
    return obs, [v + rng.gauss(0, 0.1) for v in obs], "centred"


# ----------------------------------------------------------------------------
# Data at the edge of the transform's domain.  Log, BoxCox2 and Reciprocal map values below
# minus their shift to a missing value (NaN created BY THE TRANSFORM, in data that hold no NaN);
# flow-like data with a few slightly negative values (measurement noise around zero, members of
# a forecast below zero) reach this.  The scores are defined on the transformed series: a
# forecast is scored with the statistic of its members that are valid in the transformed space,
# pairs that are incomplete in the transformed space are removed by excludenull.

EDGE_KINDS = ["partial", "partial", "partial", "partial", "partial+full", "partial+rawnan",
              "partial+rawnan-same-row", "partial+negobs", "full", "rawnan", "inside", "none"]
EDGE_P = [2, 2, 3, 3, 4, 5, 6, 7, 8, 9, 10, 16, 17, 51]
EDGE_P_BIG = [128, 129, 599, 600, 601, 1000]      # numpy: block size of the pairwise sum, the two nanmedian paths


def domain_bound(spec, scale):
    """magnitude below zero at which the transform stops being defined (its shift), or a
    magnitude comparable to small flows for the transforms defined everywhere"""
    name, params = spec
    return float(params[0]) if name in ("Log", "BoxCox2", "Reciprocal") else 0.1 * scale


def gen_outside(rng, bound, kind="out"):
    """a slightly negative value: outside the domain (below -bound), or negative but inside"""
    k = rng.random()
    if kind == "inside":
        return -bound * rng.choice([rng.uniform(0.0, 0.99), 0.5, 1 - 2.0 ** -20, 1e-3])
    if k < 0.6:
        return -bound * rng.uniform(1.01, 5.0)
    if k < 0.8:
        return -bound * rng.choice([1 + 2.0 ** -30, 1.0 + 1e-9, 2.0, 30.0, 1e3])
    if k < 0.9:
        return -bound * rng.uniform(0.0, 0.99)      # negative, still admissible
    return -abs(rng.gauss(0, 3 * bound)) - bound * 1.0001


def gen_edge_ens(rng, spec, n, p, kind):
    """(obs, ens, scale): flow-like observations and a p-member ensemble of them; depending on
    `kind`, some (not all) members of some forecasts lie outside the domain of the transform
    (partial), every member of a forecast does (full), members are missing in the data
    (rawnan, in other forecasts or in the same ones), observations are slightly negative
    (negobs), negative members stay inside the domain (inside)"""
    scale = rng.choice([1.0, 1.0, 0.05, 30.0])
    bound = domain_bound(spec, scale)
    obs = [math.exp(rng.gauss(0, 1.2)) * scale for _ in range(n)]
    noise = rng.choice([0.1, 0.5, 1.0])
    ens = [[o * math.exp(rng.gauss(0, 0.4) + rng.gauss(0, noise)) for _ in range(p)] for o in obs]
    layout = rng.random()
    if layout < 0.2:       # rounded flows: tied members, tied forecasts
        ens = [[float(round(v / scale * 4)) / 4 * scale for v in r] for r in ens]
        if rng.random() < 0.5:
            obs = [float(round(v / scale * 4)) / 4 * scale + scale / 8 for v in obs]
    elif layout < 0.3:     # zero flows
        ens = [[0.0 if rng.random() < 0.3 else v for v in r] for r in ens]
    elif layout < 0.4:     # members stored in increasing / decreasing order
        rev = rng.random() < 0.5
        ens = [sorted(r, reverse=rev) for r in ens]
    rows = list(range(n))
    rng.shuffle(rows)
    parts = kind.split("+")
    nhit = max(1, int(n * rng.choice([0.1, 0.25, 0.5, 1.0])))
    if "partial" in parts or "inside" in parts:
        for i in rows[:nhit]:
            k = rng.randint(1, p - 1) if rng.random() < 0.7 else rng.choice([1, p - 1])
            for j in rng.sample(range(p), k):
                ens[i][j] = gen_outside(rng, bound, "inside" if "inside" in parts else "out")
    if "full" in parts:
        for i in rows[nhit:nhit + max(1, n // 6)] or rows[:1]:
            ens[i] = [gen_outside(rng, bound) for _ in range(p)]
    if "rawnan" in parts:
        for i in rows[::-1][:max(1, n // 5)]:
            for j in rng.sample(range(p), rng.randint(1, p) if rng.random() < 0.2 else rng.randint(1, p - 1)):
                ens[i][j] = NAN
    if "rawnan-same-row" in parts:      # a forecast with a missing member AND a member outside the domain
        for i in rows[:nhit]:
            free = [j for j in range(p) if ens[i][j] >= 0]
            if len(free) >= 2:
                ens[i][rng.choice(free)] = NAN
    if "negobs" in parts:
        for i in rng.sample(range(n), max(1, n // 6)):
            obs[i] = gen_outside(rng, bound)
    if rng.random() < 0.15:
        obs[rng.randrange(n)] = NAN
    return obs, ens, scale


def gen_edge_series(rng, spec, n):
    """(obs, sim, label): flow-like series with a few values outside the domain of the
    transform, in the observations / the simulation / both (same or other positions), in data
    that hold no NaN, or NaN elsewhere"""
    scale = rng.choice([1.0, 1.0, 0.05, 30.0])
    bound = domain_bound(spec, scale)
    obs = [math.exp(rng.gauss(0, 1.0)) * scale for _ in range(n)]
    sim = [v * math.exp(rng.gauss(0, rng.choice([0.05, 0.5]))) for v in obs]
    where = rng.choice(["obs", "sim", "sim", "both-same", "both-other", "inside"])
    k = max(1, int(n * rng.choice([0.05, 0.2, 0.4])))
    k = min(k, max(1, n - 3))
    pos = rng.sample(range(n), k)
    for i in pos:
        if where in ("obs", "both-same", "both-other"):
            obs[i] = gen_outside(rng, bound)
        if where in ("sim", "both-same"):
            sim[i] = gen_outside(rng, bound)
        if where == "inside":
            sim[i] = gen_outside(rng, bound, "inside")
    if where == "both-other":
        for i in rng.sample(range(n), k):
            sim[i] = gen_outside(rng, bound)
    holes = "clean"
    if rng.random() < 0.3:
        holes = "holes"
        for l in (obs, sim):
            if rng.random() < 0.7:
                l[rng.randrange(n)] = NAN
    return obs, sim, "edge-" + where + "/" + holes


# ----------------------------------------------------------------------------
# Stored representations of the inputs.  The property speaks of the VALUES of the series / of
# the counts of the table; the same values are handed over in the containers, memory layouts
# and (for integer data) storage types a caller may hold them in.  The continuous series stay
# float64 (the property's quantifier), the categories / counts stay integers.

INDEX_KINDS = ["range", "shuffled", "dates", "dates-tz", "text", "dup", "offset"]


def make_index(rng, kind, n):
    import pandas as pd
    if kind == "range":
        return pd.RangeIndex(n)
    if kind == "shuffled":
        l = list(range(n))
        rng.shuffle(l)
        return pd.Index(l)
    if kind == "dates":
        return pd.date_range(rng.choice(["1990-01-01", "2015-06-30", "2031-12-31"]), periods=n,
                             freq=rng.choice(["D", "h", "MS"]))
    if kind == "dates-tz":
        return pd.date_range("2004-03-27", periods=n, freq="h", tz=rng.choice(["Australia/Sydney", "UTC"]))
    if kind == "text":
        l = [f"s{i:04d}" for i in range(n)]
        rng.shuffle(l)
        return pd.Index(l)
    if kind == "dup":
        return pd.Index([rng.randrange(max(1, n // 3)) for _ in range(n)])
    return pd.RangeIndex(n, 2 * n)     # the same labels as nothing else of length n


FLOAT_REPS = ["strided", "reversed", "column", "readonly", "bigendian", "list", "tuple", "list-np"] + \
    ["series:" + k for k in INDEX_KINDS]
ENS_REPS = ["fortran", "wide-slice", "rows-strided", "reversed", "readonly", "bigendian", "nested-list",
            "dataframe:range", "dataframe:shuffled", "dataframe:dates", "dataframe:dup"]
INT_REPS = ["tuple", "int64", "int32", "int16", "int8", "uint8", "uint16", "bool", "object", "bigendian",
            "strided", "reversed", "readonly"] + ["series:" + k for k in INDEX_KINDS]
TABLE_REPS = ["tuple", "int64", "int32", "int16", "uint8", "uint16", "uint32", "uint64", "float64", "fortran",
              "transposed-view", "slice", "readonly", "bigendian", "dataframe", "dataframe-float",
              "dataframe-labels"]


def strided_of(rng, a, filler):
    """the values of `a` as every k-th element of a larger array holding `filler` elsewhere"""
    k = rng.choice([2, 3, 7])
    big = np.full(len(a) * k, filler, dtype=a.dtype)
    off = rng.randrange(k)
    big[off::k] = a
    v = big[off::k]
    assert len(v) == len(a)
    return v


def float_repr(rng, vals, kind):
    """the float64 series `vals` held another way (same values, NaN/inf included)"""
    import pandas as pd
    a = np.array(vals, dtype=np.float64)
    if kind == "strided":
        return strided_of(rng, a, rng.choice([NAN, 1e300, -7.0]))
    if kind == "reversed":
        return np.ascontiguousarray(a[::-1])[::-1]
    if kind == "column":       # a column of a C-ordered table
        m = np.full((len(a), 3), rng.choice([NAN, -1e300, 3.0]))
        j = rng.randrange(3)
        m[:, j] = a
        return m[:, j]
    if kind == "readonly":
        a.setflags(write=False)
        return a
    if kind == "bigendian":
        return a.astype(">f8")
    if kind == "list":
        return [float(v) for v in a]
    if kind == "tuple":
        return tuple(float(v) for v in a)
    if kind == "list-np":
        return list(a)
    if kind.startswith("series:"):
        return pd.Series(a, index=make_index(rng, kind[7:], len(a)), name=rng.choice([None, "q", 0]))
    raise KeyError(kind)


def ens_repr(rng, rows, kind):
    """the n x p float64 ensemble `rows` held another way"""
    import pandas as pd
    m = np.array(rows, dtype=np.float64)
    n, p = m.shape
    if kind == "fortran":
        return np.asfortranarray(m)
    if kind == "wide-slice":
        w = np.full((n, p + 2), rng.choice([NAN, 1e300]))
        w[:, 1:p + 1] = m
        return w[:, 1:p + 1]
    if kind == "rows-strided":
        w = np.full((2 * n, p), rng.choice([NAN, -5.0]))
        w[::2] = m
        return w[::2]
    if kind == "reversed":
        return np.ascontiguousarray(m[::-1, ::-1])[::-1, ::-1]
    if kind == "readonly":
        m.setflags(write=False)
        return m
    if kind == "bigendian":
        return m.astype(">f8")
    if kind == "nested-list":
        return [[float(v) for v in r] for r in m]
    if kind.startswith("dataframe:"):
        return pd.DataFrame(m, index=make_index(rng, kind[10:], n),
                            columns=[f"m{j}" for j in range(p)])
    raise KeyError(kind)


def int_repr(rng, vals, kind):
    """the integer category series `vals` held another way; None when `kind` cannot hold it"""
    import pandas as pd
    dt = {"int64": np.int64, "int32": np.int32, "int16": np.int16, "int8": np.int8, "uint8": np.uint8,
          "uint16": np.uint16, "bigendian": ">i4", "object": object}
    if kind == "tuple":
        return tuple(vals)
    if kind == "bool":
        return np.array(vals, dtype=bool) if set(vals) <= {0, 1} else None
    if kind in dt:
        return np.array(vals, dtype=dt[kind])
    a = np.array(vals, dtype=np.int64)
    if kind == "strided":
        return strided_of(rng, a, 99)
    if kind == "reversed":
        return np.ascontiguousarray(a[::-1])[::-1]
    if kind == "readonly":
        a.setflags(write=False)
        return a
    if kind.startswith("series:"):
        return pd.Series(a.astype(rng.choice([np.int64, np.int32])), index=make_index(rng, kind[7:], len(a)))
    raise KeyError(kind)


def table_repr(rng, tab, kind):
    """the 2x2 table of counts `tab` held another way; None when `kind` cannot hold the counts"""
    import pandas as pd
    dt = {"int64": np.int64, "int32": np.int32, "int16": np.int16, "uint8": np.uint8, "uint16": np.uint16,
          "uint32": np.uint32, "uint64": np.uint64, "bigendian": ">i8"}
    big = max(max(r) for r in tab)
    if kind == "tuple":
        return tuple(tuple(r) for r in tab)
    if kind in dt:
        if big > np.iinfo(np.dtype(dt[kind])).max:
            return None
        return np.array(tab, dtype=dt[kind])
    if kind == "float64":
        return np.array(tab, dtype=np.float64) if big < 2 ** 52 else None
    a = np.array(tab, dtype=np.int64)
    if kind == "fortran":
        return np.asfortranarray(a)
    if kind == "transposed-view":
        return np.ascontiguousarray(a.T).T
    if kind == "slice":
        w = np.full((4, 6), -3, dtype=np.int64)
        w[1::2, 2::3] = a
        return w[1::2, 2::3]
    if kind == "readonly":
        a.setflags(write=False)
        return a
    if kind == "dataframe":
        return pd.DataFrame(a)
    if kind == "dataframe-float":      # what confusion_matrix returns after padding a category
        return pd.DataFrame(a.astype(np.float64))
    if kind == "dataframe-labels":
        return pd.DataFrame(a, index=pd.Index([False, True], name="obs"), columns=["no", "yes"])
    raise KeyError(kind)


def same_bits(a, vals):
    """array `a` still holds exactly the values `vals` (NaN = NaN)"""
    b = np.asarray(vals, dtype=np.float64).reshape(np.shape(a))
    return bool(np.all((a == b) | (np.isnan(a) & np.isnan(b))))


# ----------------------------------------------------------------------------

def run(ctx):
    ctx.rule = ("continuous scores: series of length 2..200 (1200 thorough; block sizes 7/8/9/127..137 "
                "of numpy's pairwise sum emphasised), log-normal / shifted / centred data x 5 scales, ties, "
                "perfect / constant / scaled / noisy simulations, NaN and +-inf scattered in either series, "
                "5 transforms at admissible parameters, excludenull both ways, 3 bias types, Pearson/Spearman "
                "x mean/median x 1-D and 2-D ensembles with missing members; guard/error inputs; "
                "data at the edge of the transform's domain (NaN created by the transform in data holding none): "
                "ensembles of 2..51 (and 128/129/599/600/601/1000) members x 2..60 forecasts (square included) with "
                "some / all members of some forecasts below minus the shift of Log / BoxCox2 / Reciprocal (just "
                "outside, far outside, negative but inside), alone or with members missing in the data (other "
                "forecasts / the same forecast), slightly negative observations, tied / zero / sorted members, obs as "
                "[n] or [n,1], shifts down to 1e-6, each with excludenull both ways; plain series with values outside "
                "the domain in obs / sim / both; magnitudes 1e-4, 1e8, 1e30; "
                "categorical: every pair of series of length <= 3 over 3 categories, random series of length "
                "1..60 over 2..6 categories with absent categories, ncat given/inferred; binary: every table "
                "with counts 1..6 (1296), random tables with counts up to 1e6, odds ratio <, =, > 1; "
                "stored representations (no Coq case, oracle only): the float64 series as strided / reversed / "
                "column views, read-only, big-endian, lists, tuples, pandas Series over 7 kinds of index, ensembles "
                "in Fortran order / sliced / DataFrame; category series as tuples, 8 integer types, bool, object, "
                "views, Series; 2x2 tables in 17 containers / integer types over each type's whole range and as "
                "returned by confusion_matrix; object histories: caller-owned arrays and one transform object "
                "through 14 (30) steps of rewriting in place, parameter changes, calls in any order / twice / on "
                "the same object / through views / with defaulted arguments; earlier results re-read after later calls; "
                "non-trivial = distinct (function, options, size class, input class, outcome class) signature")
    ctx.trusted = cm.STD_TRUST + [
        "trans.forward is run by the implementation; the model receives the transformed series (C01/C02 cover the transforms)",
        "np.corrcoef's BLAS dot product is modelled by a sequential dot product and math.log by a series in "
        "binary64: float outputs are compared with tolerance 1e-11*max(1,|v|) (bias/nse are bit-exact in "
        "practice: numpy's pairwise summation is transcribed; counted in the thorough tier)",
        "scipy.stats.spearmanr, np.nanmean, np.nanmedian, pandas.crosstab are modelled by their "
        "documented behaviour, validated by the correspondence check only"]
    ctx.tested_not_proved = [
        "binary64 values equal the real-number definitions to the stated tolerances (rational-arithmetic oracle)",
        "Spearman correlation and the ensemble mean/median (external library calls): correspondence + oracle only",
        "the transforms themselves (trans.forward) - see C01/C02",
        "independence of the stored representation of the inputs and of earlier operations on the same "
        "objects (the model is a function of values): tested with concrete inputs only"]
    proved = prove_stable(ctx)
    cm.use_impl()
    from hydrodiy.stat import metrics
    rng = ctx.rng
    terms, replays = [], []
    exact_terms = []     # bias (standard, normalised) and nse again with tolerance 0 (see below)
    orc = collections.Counter()   # oracle assertions evaluated, by clause
    orc_fail = set()

    def add(term, replay, sig):
        terms.append(term)
        replays.append(replay)
        ctx.count(sig)
        if len(terms) % 700 == 1:
            ctx.sample(replay)
        return len(terms) - 1

    def fail(idx, key, what, replay=None):
        if idx is not None:
            orc_fail.add(idx)
        ctx.failure(key, replay if replay is not None else replays[idx], what)

    # ------------------------------------------------------------------
    # continuous scores
    maxlen = ctx.scale(200, 1200)

    def size_cls(n):
        return 0 if n < 8 else 1 if n <= 128 else 2

    def do_series(obs, sim, spec, excl, label, special=False):
        trans = make_trans(spec)
        oa, sa = np.array(obs, dtype=np.float64), np.array(sim, dtype=np.float64)
        tobs = [float(v) for v in forward(spec, obs)]
        tsim = [float(v) for v in forward(spec, sim)]
        base = {"obs": obs, "sim": sim, "transform": spec, "excludenull": excl}
        samelen = len(obs) == len(sim)
        # series actually scored, for the oracle
        if samelen and excl:
            keep = [not (math.isnan(a) or math.isnan(b)) for a, b in zip(tobs, tsim)]
            fo = [a for a, k in zip(tobs, keep) if k]
            fs = [b for b, k in zip(tsim, keep) if k]
        else:
            fo, fs = tobs, tsim
        inq = (not special) and samelen and nondegenerate(fo) and \
            all(math.isfinite(v) for v in fs) and max([abs(v) for v in fs] + [0]) < 1e100
        ident = ("Identity", [])
        idt = make_trans(ident)
        n = len(fo)
        results = {}
        # ---- bias
        for ti, typ in enumerate(BTYPES):
            res = call(metrics.bias, oa, sa, trans, excl, typ)
            results["bias/" + typ] = res
            if typ != "log":
                exact_terms.append(term_score("KBias", excl, cm.coq_z(ti) + " ", tobs, tsim, res, 0.0))
            i = add(term_score("KBias", excl, cm.coq_z(ti) + " ", tobs, tsim, res, TOL),
                    dict(base, call="bias", type=typ, impl=res),
                    ("bias", typ, excl, spec[0], size_cls(len(obs)), label, res[0],
                     res[0] == "ok" and math.isnan(res[1])))
            if inq:
                want = x_bias(fo, fs, typ)
                if want is not None:
                    co, cs = cond_sum(fo), cond_sum(fs)
                    if typ == "normalised":
                        cs = max(cs, cond_sum([a + b for a, b in zip(fo, fs)]))
                    if typ == "log":
                        cs = cs + co
                    tolb = 1e-9 + 1e-14 * n * (co + cs)
                    if math.isfinite(cs) and tolb < 1e-4:
                        orc["bias = definition"] += 1
                        if res[0] != "ok" or not close(res[1], want, tolb):
                            fail(i, f"C04/bias/{typ}/not-the-definition",
                                 f"bias(type={typ}, trans={spec}, excludenull={excl}) = {res}, "
                                 f"definition on the transformed series gives {want!r}")
        # ---- nse, kge
        for name, fn, kind, xdef in (("nse", metrics.nse, "KNse", x_nse),
                                     ("kge", metrics.kge, "KKge", x_kge)):
            res = call(fn, oa, sa, trans, excl)
            results[name] = res
            if name == "nse":
                exact_terms.append(term_score(kind, excl, "", tobs, tsim, res, 0.0))
            i = add(term_score(kind, excl, "", tobs, tsim, res, TOL),
                    dict(base, call=name, impl=res),
                    (name, excl, spec[0], size_cls(len(obs)), label, res[0],
                     res[0] == "ok" and math.isnan(res[1])))
            if inq and (name == "nse" or spread_ok(fs)):
                want = xdef(fo, fs)
                if want is not None:
                    tolk = 1e-9
                    if name == "kge":
                        tolk = 1e-9 + 1e-14 * n * (cond_sum(fo) + cond_sum(fs)) * \
                            (1 + abs(float(x_mean(fs) / x_mean(fo))))
                    if tolk < 1e-4:
                        orc[name + " = definition, <= 1"] += 1
                        if res[0] != "ok" or not close(res[1], want, tolk):
                            fail(i, f"C04/{name}/not-the-definition",
                                 f"{name}(trans={spec}, excludenull={excl}) = {res}, "
                                 f"definition on the transformed series gives {want!r}")
                        if res[0] == "ok" and res[1] > 1 + 1e-12:
                            fail(i, f"C04/{name}/exceeds-one", f"{name} = {res[1]!r} > 1")
        # ---- glue laws on the implementation: transform first, then optional filtering
        if samelen and not special:
            ta, tb = np.array(tobs), np.array(tsim)
            fa, fb = np.array(fo), np.array(fs)
            for key, fn, args in [("bias/" + t, metrics.bias, (t,)) for t in BTYPES] + \
                                 [("nse", metrics.nse, ()), ("kge", metrics.kge, ())]:
                res = results[key]
                r2 = call(fn, ta, tb, idt, excl, *args)
                orc["score(obs, sim, trans) = score(T obs, T sim, Identity)"] += 1
                ok = (res[0] == r2[0]) and (res[0] == "err" or res[1] == r2[1] or
                                            (math.isnan(res[1]) and math.isnan(r2[1])) or
                                            close(res[1], r2[1], 1e-12))
                if not ok:
                    fail(None, f"C04/{key.split('/')[0]}/transform-not-applied-first",
                         f"{key}(obs, sim, {spec}) = {res} but {key}(T obs, T sim, Identity) = {r2}",
                         dict(base, call=key, impl=res, impl_on_transformed=r2))
                if excl and len(fo) > 0:
                    r3 = call(fn, fa, fb, idt, False, *args)
                    orc["excludenull = incomplete pairs removed"] += 1
                    ok = (res[0] == r3[0]) and (res[0] == "err" or res[1] == r3[1] or
                                                (math.isnan(res[1]) and math.isnan(r3[1])) or
                                                close(res[1], r3[1], 1e-12))
                    if not ok:
                        fail(None, f"C04/{key.split('/')[0]}/excludenull-not-pair-removal",
                             f"{key}(excludenull=True) = {res} but on the series with incomplete "
                             f"pairs removed it is {r3}",
                             dict(base, call=key, impl=res, impl_on_filtered=r3))
        # ---- corr
        p = rng.choice([0, 1, 2, 3, 6])
        if p == 0 or len(obs) != len(sim):
            ens = [[v] for v in sim]
            ea = sa
        else:
            ens = [[v] if p == 1 else
                   [v * (1 + 0.2 * rng.gauss(0, 1)) if math.isfinite(v) else v for _ in range(p)]
                   for v in sim]
            for r in ens:
                if p > 1 and rng.random() < 0.15:
                    for j in range(p):
                        if rng.random() < 0.6:
                            r[j] = NAN
            ea = np.array(ens, dtype=np.float64)
        if len(obs) == 1 and ea.ndim == 2 and ea.shape[1] > 1:
            return
        score_corr(obs, ens, oa, ea, spec, trans, excl, label, p, special, samelen, base, tobs)

    def near_tied(vals, rows, big):
        """two forecasts with different members whose statistics agree to 1e-12 of the largest
        member: their order (hence the ranks) may depend on how the member mean is rounded"""
        idx = sorted(range(len(vals)), key=lambda k: vals[k])
        for a, b in zip(idx, idx[1:]):
            if vals[b] - vals[a] <= 1e-12 * big and rows[a] != rows[b]:
                return True
        return False

    def score_corr(obs, ens, oa, ea, spec, trans, excl, label, p, special, samelen, base, tobs,
                   klass="corr", coq=True, extra_sig=(), tens=None):
        """corr x {mean, median} x {Pearson, Spearman} on the observations `obs` and the ensemble
        `ens` (list of member lists; `oa`, `ea` = the arrays handed to the implementation):
        correspondence case (coq=True) and the oracle: correlation of T(obs) with the statistic
        of the valid (non-missing after the transform) members of T(ens), forecast by forecast"""
        ident = ("Identity", [])
        idt = make_trans(ident)
        if tens is None:
            tens = [[float(v) for v in r] for r in forward(spec, ens).reshape(len(ens), -1)] if ens else []
        for (si, stat), (yi, typ) in itertools.product(enumerate(["mean", "median"]),
                                                       enumerate(["Pearson", "Spearman"])):
            res = call(metrics.corr, oa, ea, trans, excl, stat, typ)
            replay = dict(base, call="corr", ens=ens, stat=stat, type=typ, impl=res)
            sig = (klass, stat, typ, excl, spec[0], min(p, 2), size_cls(len(obs)), label, res[0],
                   res[0] == "ok" and math.isnan(res[1])) + tuple(extra_sig)
            if coq:
                i = add(term_corr(excl, si, yi, obs, tobs, ens, tens, res, TOL), replay, sig)
            else:
                i = None
                ctx.count(sig)
            # oracle: statistic of the transformed members (fsum / sorted), rows removed as documented
            if special or not samelen:
                continue
            # transform-first law (corr selects its rows on the raw data: asserted when the
            # transform creates no missing value of its own)
            if all(math.isnan(a) == math.isnan(b) for a, b in zip(obs, tobs)) and \
                    all(math.isnan(a) == math.isnan(b) for r, tr in zip(ens, tens) for a, b in zip(r, tr)):
                ta2 = np.array(tobs)
                te2 = np.array(tens) if ea.ndim == 2 else np.array([r[0] for r in tens])
                r2 = call(metrics.corr, ta2, te2, idt, excl, stat, typ)
                orc["score(obs, sim, trans) = score(T obs, T sim, Identity)"] += 1
                ok = (res[0] == r2[0]) and (res[0] == "err" or res[1] == r2[1] or
                                            (math.isnan(res[1]) and math.isnan(r2[1])) or
                                            close(res[1], r2[1], 1e-12))
                if not ok:
                    fail(None, "C04/corr/transform-not-applied-first",
                         f"corr(obs, ens, {spec}, {stat}, {typ}) = {res} but on the transformed data with "
                         f"Identity it is {r2}",
                         dict(replay, impl_on_transformed=r2))
            # forecasts scored: an observation and at least one member in the data handed over
            rows = [(to, tr, [v for v in tr if not math.isnan(v)])
                    for o, r, to, tr in zip(obs, ens, tobs, tens)
                    if not math.isnan(o) and any(not math.isnan(v) for v in r)]
            if not rows:
                continue
            if any(len(v) == 0 for _, _, v in rows) and not excl:
                # every member of a forecast lost in the transformed space only: the simulated
                # series has a missing value, no textbook value without excludenull
                continue
            xo = [to for to, _, _ in rows]
            try:
                if stat == "mean":
                    xs = [math.fsum(v) / len(v) if v else NAN for _, _, v in rows]
                else:
                    xs = []
                    for _, _, v in rows:
                        v = sorted(v)
                        m = len(v)
                        xs.append(NAN if m == 0 else v[m // 2] if m % 2 else (v[m // 2 - 1] + v[m // 2]) / 2)
            except (ValueError, OverflowError):
                continue
            full = [tuple(repr(v) for v in tr) for _, tr, _ in rows]
            if excl:      # incomplete pairs removed
                keep = [not (math.isnan(a) or math.isnan(b)) for a, b in zip(xo, xs)]
                xo = [a for a, k in zip(xo, keep) if k]
                xs = [b for b, k in zip(xs, keep) if k]
                full = [f for f, k in zip(full, keep) if k]
            if not (nondegenerate(xo) and spread_ok(xs)):
                continue
            if typ == "Pearson":
                want = x_pearson(xo, xs)
            else:
                want = x_pearson(x_midrank(xo), x_midrank(xs))
            if want is None:
                continue
            tolc = 1e-9
            if stat == "mean" and p > 1 and typ == "Spearman":
                # the member mean is rounded differently from fsum: ranks may flip on (near-)ties only
                bigm = max(abs(v) for _, _, vv in rows for v in vv)
                if not math.isfinite(bigm) or near_tied(xs, full, bigm):
                    tolc = None
            orc["corr = definition (" + typ + ")"] += tolc is not None
            if tolc is not None and (res[0] != "ok" or not abs(res[1] - want) <= tolc + 1e-9 * abs(want)):
                fail(i, f"C04/corr/{typ}/not-the-definition",
                     f"corr(stat={stat}, type={typ}, trans={spec}, excludenull={excl}) = {res}, "
                     f"definition gives {want!r}", replay)
            if res[0] == "ok" and abs(res[1]) > 1 + 1e-12:
                fail(i, f"C04/corr/{typ}/outside-unit-interval", f"corr = {res[1]!r}", replay)

    def do_edge(n, p, coq):
        """corr on ensembles at the edge of the transform's domain (see gen_edge_ens), both
        values of excludenull on the same data; the ensemble in C order (the values are what the
        class is about; do_repr covers the layouts)"""
        name = rng.choice(["Log", "Log", "BoxCox2", "BoxCox2", "Reciprocal", "Reciprocal", "Sinh", "Identity"])
        spec = gen_trans(rng, name)
        if name in ("Log", "BoxCox2", "Reciprocal") and rng.random() < 0.3:      # small shifts
            spec = (name, [rng.choice([1e-6, 1e-4, 0.01, 0.05])] + list(spec[1][1:]))
        kind = rng.choice(EDGE_KINDS)
        obs, ens, _ = gen_edge_ens(rng, spec, n, p, kind)
        trans = make_trans(spec)
        oa, ea = np.array(obs, dtype=np.float64), np.array(ens, dtype=np.float64)
        if rng.random() < 0.2:      # corr documents obs as [n] or [n,1]
            oa = oa[:, None]
        tobs = [float(v) for v in forward(spec, obs)]
        tens = [[float(v) for v in r] for r in forward(spec, ens).reshape(n, p)]
        lostm = [sum(1 for a, b in zip(r, tr) if math.isnan(b) and not math.isnan(a)) for r, tr in zip(ens, tens)]
        rawm = [sum(1 for a in r if math.isnan(a)) for r in ens]
        what = (any(0 < l < p - m for l, m in zip(lostm, rawm)),        # some valid members left
                any(l > 0 and l == p - m for l, m in zip(lostm, rawm)),  # forecast lost by the transform
                any(m > 0 for m in rawm),
                any(math.isnan(b) and not math.isnan(a) for a, b in zip(obs, tobs)))
        pcls = 2 if p <= 3 else 3 if p < 8 else 4 if p <= 128 else 5
        for excl in (False, True):
            base = {"obs": obs, "obs_shape": list(oa.shape), "transform": spec, "excludenull": excl,
                    "input_class": "ensemble with members outside the domain of the transform (" + kind + ")"}
            score_corr(obs, ens, oa, ea, spec, trans, excl, "edge", p, False, True, base, tobs,
                       klass="corr-edge", coq=coq, extra_sig=(pcls,) + what, tens=tens)

    def do_laws(obs, spec):
        """perfect simulation, simulated mean, invariances: on the implementation,
        in the transformed space (Identity on T obs), finite non-degenerate series only"""
        to = [float(v) for v in forward(spec, obs)]
        if not nondegenerate(to):
            return
        from hydrodiy.stat import transform
        idt = transform.Identity()
        a = np.array(to)
        n = len(to)
        base = {"tobs": to, "transform": ("Identity", [])}
        ctx.count(("laws", spec[0], size_cls(n)))
        orc["perfect simulation / mean simulation / invariances (series)"] += 1
        cmean = cond_sum(to)
        big = max(abs(v) for v in to)
        sd = math.sqrt(float(x_ss(to, x_mean(to)) / n))
        kap = big / sd
        # perfect simulation
        for typ in BTYPES:
            r = call(metrics.bias, a, a.copy(), idt, False, typ)
            if typ == "log" and float(x_mean(to)) <= 1e-8:
                continue
            if r[0] != "ok" or not abs(r[1]) <= 1e-12:
                fail(None, f"C04/bias/{typ}/perfect-simulation-not-0",
                     f"bias(obs, obs, type={typ}) = {r}", dict(base, call="bias", type=typ, sim="obs", impl=r))
        for nm, fn in (("nse", metrics.nse), ("kge", metrics.kge)):
            r = call(fn, a, a.copy(), idt, False)
            if r[0] != "ok" or not abs(r[1] - 1) <= 1e-9:
                fail(None, f"C04/{nm}/perfect-simulation-not-1", f"{nm}(obs, obs) = {r}",
                     dict(base, call=nm, sim="obs", impl=r))
        for typ in ("Pearson", "Spearman"):
            r = call(metrics.corr, a, a.copy(), idt, False, "mean", typ)
            if r[0] != "ok" or not abs(r[1] - 1) <= 1e-9:
                fail(None, f"C04/corr/{typ}/perfect-simulation-not-1", f"corr(obs, obs, {typ}) = {r}",
                     dict(base, call="corr", type=typ, sim="obs", impl=r))
        # simulating the observed mean
        m = math.fsum(to) / n
        r = call(metrics.nse, a, np.full(n, m), idt, False)
        if r[0] != "ok" or not abs(r[1]) <= 1e-9 + 1e-13 * n * kap * kap:
            fail(None, "C04/nse/mean-simulation-not-0", f"nse(obs, mean(obs)) = {r}",
                 dict(base, call="nse", sim="mean(obs)", impl=r))
        # a noisy simulation for the invariances
        s = [v + rng.gauss(0, 0.5 * sd) for v in to]
        b = np.array(s)
        if not spread_ok(s):
            return
        r0 = call(metrics.nse, a, b, idt, False)
        al = rng.choice([-3.0, -0.5, 0.25, 2.0, 7.3, rng.uniform(-5, 5) or 1.0])
        be = rng.choice([0.0, 1.0, -2.5 * big, 3.7 * big])
        r1 = call(metrics.nse, al * a + be, al * b + be, idt, False)
        tol = 1e-9 + 1e-12 * n * (big + abs(be / al)) / sd
        if r0[0] != "ok" or r1[0] != "ok" or not close(r1[1], r0[1], tol):
            fail(None, "C04/nse/not-affine-invariant",
                 f"nse = {r0} but after x -> {al}*x + {be} on both series it is {r1}",
                 dict(base, call="nse", tsim=s, a=al, b=be, impl=r0, impl_mapped=r1))
        c = rng.choice([0.5, 4.0, 0.1, 10.0, 3.3, rng.uniform(0.1, 10)])
        if not (nondegenerate([c * v for v in to]) and spread_ok([c * v for v in s])):
            return
        cs = cond_sum(s)
        tolb = 1e-9 + 1e-13 * n * (cmean + cs)
        if not (math.isfinite(tolb) and tolb < 1e-4):
            return
        for typ in BTYPES:
            q0 = call(metrics.bias, a, b, idt, False, typ)
            q1 = call(metrics.bias, c * a, c * b, idt, False, typ)
            if q0[0] == "ok" and q1[0] == "ok" and math.isnan(q0[1]) and math.isnan(q1[1]):
                continue   # log bias of non-positive means, (s+o) = 0 ...
            if typ == "normalised" and abs(float(x_mean(s) + x_mean(to))) < 1e-6 * big:
                continue
            if typ == "log" and not (float(x_mean(s)) > 1e-6 * big and float(x_mean(to)) > 1e-6 * big
                                     and min(c, 1) * min(float(x_mean(s)), float(x_mean(to))) > 1e-8):
                continue
            if q0[0] != "ok" or q1[0] != "ok" or not close(q1[1], q0[1], tolb * (1 + abs(float(x_mean(s) / x_mean(to))))):
                fail(None, f"C04/bias/{typ}/not-scale-invariant",
                     f"bias = {q0} but after scaling both series by {c} it is {q1}",
                     dict(base, call="bias", type=typ, tsim=s, c=c, impl=q0, impl_scaled=q1))
        k0 = call(metrics.kge, a, b, idt, False)
        k1 = call(metrics.kge, c * a, c * b, idt, False)
        if k0[0] != "ok" or k1[0] != "ok" or not close(k1[1], k0[1], tolb * (1 + abs(float(x_mean(s) / x_mean(to))))):
            fail(None, "C04/kge/not-scale-invariant",
                 f"kge = {k0} but after scaling both series by {c} it is {k1}",
                 dict(base, call="kge", tsim=s, c=c, impl=k0, impl_scaled=k1))

    # ------------------------------------------------------------------
    # stored representations and object histories of the continuous scores
    SCORE_CALLS = [("bias/" + t, metrics.bias, (t,), {"type": t}) for t in BTYPES] + \
        [("nse", metrics.nse, (), {}), ("kge", metrics.kge, (), {})] + \
        [(f"corr/{st}/{ty}", metrics.corr, (st, ty), {"stat": st, "type": ty})
         for st in ("mean", "median") for ty in ("Pearson", "Spearman")]

    def call_any(fn, *a, **k):
        """as `call`, any exception reported by its class name"""
        try:
            with np.errstate(all="ignore"):
                return ("ok", float(fn(*a, **k)))
        except Exception as e:      # noqa: BLE001
            return ("err", type(e).__name__)

    def pairs_scored(tobs, tsim, excl):
        if len(tobs) == len(tsim) and excl:
            keep = [not (math.isnan(a) or math.isnan(b)) for a, b in zip(tobs, tsim)]
            return [a for a, k in zip(tobs, keep) if k], [b for b, k in zip(tsim, keep) if k]
        return tobs, tsim

    def rep_tolerance(tobs, tsim, excl):
        """tolerance for two runs of the implementation on the same values held differently
        (bit-identical today; a harmless change of the summation order stays inside), None when
        the series is so ill-conditioned that only the outcome class is compared"""
        fo, fs = pairs_scored(tobs, tsim, excl)
        if len(fo) != len(fs) or len(fo) < 2 or not all(math.isfinite(v) for v in fo + fs):
            return 1e-9      # error / NaN / infinite outcomes: nothing is rounded
        big = max(abs(v) for v in fo)
        sd = math.sqrt(float(x_ss(fo, x_mean(fo)) / len(fo)))
        if sd == 0 or big > 1e100:
            return None
        tol = 1e-9 + 1e-13 * len(fo) * (cond_sum(fo) + cond_sum(fs) + (big / sd) ** 2)
        return tol if math.isfinite(tol) and tol < 1e-4 else None

    def same_res(a, b, tol):
        if tol is None:
            return a[0] == b[0]
        if a[0] != b[0]:
            return False
        if a[0] == "err":
            return a[1] == b[1]
        if math.isnan(a[1]) or math.isnan(b[1]):
            return math.isnan(a[1]) and math.isnan(b[1])
        return a[1] == b[1] or close(a[1], b[1], tol)

    def defn(key, obs, sim, spec, excl):
        """(textbook definition on the transformed series, tolerance) of the score `key`, or
        None outside the property's quantifier - the clauses of do_series, for 1-D simulations"""
        if len(obs) != len(sim):
            return None
        part = key.split("/")
        if part[0] == "corr":      # rows without an observation or without any member are not scored
            rows = [(a, b) for a, b in zip(obs, sim) if not (math.isnan(a) or math.isnan(b))]
            obs, sim = [a for a, _ in rows], [b for _, b in rows]
            if not obs:
                return None
        tobs = [float(v) for v in forward(spec, obs)]
        tsim = [float(v) for v in forward(spec, sim)]
        fo, fs = pairs_scored(tobs, tsim, excl)
        if not (nondegenerate(fo) and all(math.isfinite(v) for v in fs)
                and max([abs(v) for v in fs] + [0]) < 1e100):
            return None
        n = len(fo)
        if part[0] == "bias":
            want = x_bias(fo, fs, part[1])
            if want is None:
                return None
            co, cs = cond_sum(fo), cond_sum(fs)
            if part[1] == "normalised":
                cs = max(cs, cond_sum([a + b for a, b in zip(fo, fs)]))
            if part[1] == "log":
                cs = cs + co
            tolb = 1e-9 + 1e-14 * n * (co + cs)
            return (want, tolb) if math.isfinite(cs) and tolb < 1e-4 else None
        if part[0] == "nse":
            return x_nse(fo, fs), 1e-9
        if not spread_ok(fs):
            return None
        if part[0] == "kge":
            want = x_kge(fo, fs)
            tolk = 1e-9 + 1e-14 * n * (cond_sum(fo) + cond_sum(fs)) * (1 + abs(float(x_mean(fs) / x_mean(fo))))
            return (want, tolk) if want is not None and tolk < 1e-4 else None
        want = x_pearson(fo, fs) if part[2] == "Pearson" else x_pearson(x_midrank(fo), x_midrank(fs))
        return (want, 2e-9) if want is not None else None

    def gen_ens(sim, p):
        ens = [[v] if p == 1 else
               [v * (1 + 0.2 * rng.gauss(0, 1)) if math.isfinite(v) else v for _ in range(p)]
               for v in sim]
        for r in ens:
            if p > 1 and rng.random() < 0.15:
                for j in range(p):
                    if rng.random() < 0.6:
                        r[j] = NAN
        return ens

    def do_repr(obs, sim, spec, excl, label):
        """the same float64 values held in another container / memory layout / byte order give
        the scores of a fresh C-contiguous native float64 copy (which do_series compares with
        the definitions)"""
        p = rng.choice([0, 0, 1, 3])
        ens = gen_ens(sim, p) if p else None
        tol = rep_tolerance([float(v) for v in forward(spec, obs)],
                            [float(v) for v in forward(spec, sim)], excl)
        oa, sa = np.array(obs, dtype=np.float64), np.array(sim, dtype=np.float64)
        ea = sa if ens is None else np.array(ens, dtype=np.float64)
        t0 = make_trans(spec)
        canon = {key: call_any(fn, oa, ea if key.startswith("corr") else sa, t0, excl, *args)
                 for key, fn, args, _ in SCORE_CALLS}
        for _ in range(2):
            ko, ks = rng.choice(FLOAT_REPS), rng.choice(FLOAT_REPS)
            ke = rng.choice(ENS_REPS) if ens is not None else rng.choice(FLOAT_REPS)
            ro, rs = float_repr(rng, obs, ko), float_repr(rng, sim, ks)
            re_ = float_repr(rng, sim, ke) if ens is None else ens_repr(rng, ens, ke)
            t1 = make_trans(spec)
            ctx.count(("repr", ko.split(":")[0], ks.split(":")[0], ke.split(":")[0], p))
            for key, fn, args, _ in SCORE_CALLS:
                second = re_ if key.startswith("corr") else rs
                got = call_any(fn, ro, second, t1, excl, *args)
                orc["score(values held in another container / layout) = score(fresh float64 copy)"] += 1
                if not same_res(got, canon[key], tol):
                    fail(None, f"C04/{key.split('/')[0]}/depends-on-stored-representation",
                         f"{key}(trans={spec}, excludenull={excl}) = {got} with obs held as {ko} and the "
                         f"simulation as {ke if key.startswith('corr') else ks}, but {canon[key]} on fresh "
                         f"C-contiguous float64 copies of the same values",
                         {"call": key, "obs": obs, "sim": sim, "ens": ens, "transform": spec,
                          "excludenull": excl, "obs_held_as": ko,
                          "sim_held_as": ke if key.startswith("corr") else ks,
                          "impl": got, "impl_on_fresh_copies": canon[key],
                          "input_class": "stored representation of the series"})

    def do_session(sid, nsteps):
        """one pair of caller-owned arrays and one transform object through a sequence of
        operations: contents rewritten in place, transform parameters changed, scores called in
        any order / twice / on the same object / with defaulted arguments.  Every call must
        return the definition on what the objects hold AT THAT CALL, and what fresh objects
        holding the same values return."""
        n = rng.choice([4, 7, 8, 9, 16, 33, 128, 129])
        name = rng.choice(TRANSFORMS)
        spec = gen_trans(rng, name)
        T = make_trans(spec)
        pnames = [str(v) for v in T.params.names]
        O, S, E = np.zeros(n), np.zeros(n), np.zeros((n, 3))     # E: a 3-member ensemble around S
        cur = {"obs": None, "sim": None, "ens": None, "spec": (name, [float(v) for v in T.params.values])}
        history, done, last = [], [], None

        def write(which, vals):
            (O if which == "obs" else S)[...] = vals
            cur[which] = [float(v) for v in vals]
            if which == "sim":
                cur["ens"] = gen_ens(cur["sim"], 3)
                E[...] = cur["ens"]

        def fresh_pair():
            o, s, _ = gen_series(rng, n, n=n)
            return o, s

        o, s = fresh_pair()
        write("obs", o)
        write("sim", s)
        history.append(("write-both", {"obs": cur["obs"], "sim": cur["sim"], "ens": cur["ens"]}))

        def brief(h):      # operations without the values written
            return [e[:1] if e[0].startswith("write") else e for e in h]
        for step in range(nsteps):
            kind = rng.choice(["call"] * 6 + ["write-obs", "write-sim", "write-both", "scale-obs",
                                              "set-param", "set-param", "same-object", "repeat", "views"])
            if kind == "set-param" and not pnames:
                kind = "call"
            if kind == "repeat" and last is None:
                kind = "call"
            if kind.startswith("write"):
                o, s = fresh_pair()
                if kind != "write-sim":
                    write("obs", o)
                if kind != "write-obs":
                    write("sim", s)
                history.append((kind, {w: cur[w] for w in ("obs", "sim", "ens")
                                       if kind == "write-both" or (w == "obs") == (kind == "write-obs")}))
                continue
            if kind == "scale-obs":      # the caller's own in-place arithmetic
                c = rng.choice([0.5, 2.0, 10.0])
                np.multiply(O, c, out=O)
                cur["obs"] = [float(v) for v in O]
                history.append((kind, c))
                continue
            if kind == "set-param":
                new = gen_trans(rng, name)[1]
                style = rng.choice(["values", "attribute", "item"])
                if style == "values":
                    T.params.values = list(new)
                else:
                    for pn, v in zip(pnames, new):
                        if style == "attribute":
                            setattr(T, pn, v)
                        else:
                            T[pn] = v
                cur["spec"] = (name, [float(v) for v in T.params.values])
                history.append((kind, style, list(new)))
                continue
            # ---- a call
            if kind == "repeat":
                key, fn, args, kw, excl, style, form = last
            else:
                key, fn, args, kw = rng.choice(SCORE_CALLS)
                excl = rng.random() < 0.5
                style = rng.choice(["positional", "keyword"] + (["default-trans"] if name == "Identity" else []))
                form = {"call": "pair", "same-object": "same-object", "views": "views"}[kind]
                if form == "pair" and key.startswith("corr") and rng.random() < 0.4:
                    form = "ensemble"
            last = (key, fn, args, kw, excl, style, form)
            if form == "same-object":
                a1, a2, vo, vs = O, O, cur["obs"], cur["obs"]
            elif form == "views":      # the kept memory seen through reversed views
                a1, a2, vo, vs = O[::-1], S[::-1], cur["obs"][::-1], cur["sim"][::-1]
            elif form == "ensemble":
                a1, a2, vo, vs = O, E, cur["obs"], [list(r) for r in cur["ens"]]
            else:
                a1, a2, vo, vs = O, S, cur["obs"], cur["sim"]
            cm.mark({"call": key + " (session)", "history": history, "obs": vo, "sim": vs, "transform": cur["spec"]})
            if style == "positional":
                res = call_any(fn, a1, a2, T, excl, *args)
            elif style == "keyword":
                res = call_any(fn, a1, a2, trans=T, excludenull=excl, **kw)
            else:
                res = call_any(fn, a1, a2, excludenull=excl, **kw)
            history.append((kind, key, excl, style))
            rec = {"call": key, "obs": list(vo), "sim": list(vs), "transform": cur["spec"], "excludenull": excl,
                   "arguments": form, "style": style, "transform_at_construction": spec,
                   "history": list(history), "impl": res,
                   "input_class": "object history: caller-owned arrays and one transform object reused"}
            done.append((fn, args, rec))
            ctx.count(("session", key, kind, style, len(done) > 1))
            d = None if form == "ensemble" else defn(key, rec["obs"], rec["sim"], cur["spec"], excl)
            if d is not None:
                orc["object history: score = definition on the current contents"] += 1
                if res[0] != "ok" or not close(res[1], d[0], d[1]):
                    touched = [w for w, arr in (("obs", O), ("sim", S), ("ens", E)) if not same_bits(arr, cur[w])]
                    fail(None, f"C04/{key.split('/')[0]}/object-history-not-the-definition",
                         f"{key}(trans={cur['spec']}, excludenull={excl}, {form}, {style}) = {res} at step "
                         f"{len(history)} of a sequence on the same array / transform objects (last steps: "
                         f"{brief(history[-4:])}); the definition on the values held at that call gives {d[0]!r}"
                         + (f"; the caller's {' and '.join(touched)} array no longer holds what the caller "
                            "wrote: it was modified by a call" if touched else ""),
                         dict(rec, definition=d[0]))
                    return
        # every recorded call again on fresh objects holding the same values
        for fn, args, rec in done:
            key, spec_k, excl = rec["call"], rec["transform"], rec["excludenull"]
            sim1 = rec["sim"] if rec["arguments"] != "ensemble" else [r[0] for r in rec["sim"]]
            tol = rep_tolerance([float(v) for v in forward(spec_k, rec["obs"])],
                                [float(v) for v in forward(spec_k, sim1)], excl)
            ref = call_any(fn, np.array(rec["obs"], dtype=np.float64), np.array(rec["sim"], dtype=np.float64),
                           make_trans(spec_k), excl, *args)
            orc["object history: score = score of fresh objects with the same values"] += 1
            if not same_res(rec["impl"], ref, tol):
                fail(None, f"C04/{key.split('/')[0]}/object-history-differs-from-fresh-objects",
                     f"{key}(trans={spec_k}, excludenull={excl}) returned {rec['impl']} in a sequence of "
                     f"operations on the same objects (last steps: {brief(rec['history'][-4:])}), fresh arrays and a "
                     f"fresh transform holding the same values give {ref}",
                     dict(rec, impl_on_fresh_objects=ref))
                return

    def fl_list(l):
        return [float(v) if v is not None else NAN for v in l]

    # a replay file given on the command line, then the corpus
    extra = []
    rp = getattr(ctx, "replay", None)
    if rp:
        r = rp.get("replay", rp)
        if isinstance(r, dict) and "first_mismatch" in r:
            r = r["first_mismatch"]
        if isinstance(r, dict):
            if r.get("call") == "binary" and "table" in r:
                extra.append({"kind": "binary", "table": r["table"]})
            elif r.get("call") == "confusion_matrix":
                extra.append({"kind": "confusion", "obs": r["obs"], "sim": r["sim"], "ncat": r.get("ncat")})
            elif "obs" in r and "sim" in r and "transform" in r and \
                    not any(isinstance(v, (list, tuple)) for v in r["sim"]):
                extra.append({"kind": "series", "obs": r["obs"], "sim": r["sim"],
                              "transform": r["transform"], "excludenull": r.get("excludenull", False)})
    corpus = extra + cm.load_corpus(PID)
    for case in corpus:
        if case.get("kind") == "series":
            name, params = case["transform"]
            do_series(fl_list(case["obs"]), fl_list(case["sim"]), (name, list(params)),
                      bool(case["excludenull"]), "corpus")
    nser = ctx.scale(100, 900)
    for it in range(nser):
        obs, sim, label = gen_series(rng, maxlen)
        spec = gen_trans(rng)
        excl = rng.random() < 0.6
        do_series(obs, sim, spec, excl, label)
        if it % 2 == 0:
            do_laws([v for v in obs if math.isfinite(v)], spec)
        else:
            do_repr(obs, sim, spec, excl, label)
    for sid in range(ctx.scale(40, 300)):
        do_session(sid, ctx.scale(14, 30))
    for it in range(ctx.scale(40, 200)):
        obs, sim, label = gen_special(rng)
        spec = ("Identity", []) if rng.random() < 0.7 else gen_trans(rng)
        do_series(obs, sim, spec, rng.random() < 0.5, label, special=True)

    # data at the edge of the transform's domain: ensembles (corr), then plain series (all scores)
    for it in range(ctx.scale(110, 1200)):
        big = it % 40 == 7
        p = rng.choice(EDGE_P_BIG) if big else rng.choice(EDGE_P)
        n = rng.choice([3, 4, 6]) if big else rng.choice([2, 3, 5, 8, 9, 12, 20, 40, p, rng.randint(2, 60)])
        do_edge(n, p, coq=it % 2 == 0 and n * p <= ctx.scale(128, 300))
    for it in range(ctx.scale(24, 300)):
        name = rng.choice(["Log", "BoxCox2", "Reciprocal"])
        spec = gen_trans(rng, name)
        if rng.random() < 0.3:
            spec = (name, [rng.choice([1e-6, 1e-4, 0.01, 0.05])] + list(spec[1][1:]))
        obs, sim, label = gen_edge_series(rng, spec, rng.choice([4, 8, 9, 17, 40, rng.randint(4, 60)]))
        do_series(obs, sim, spec, rng.random() < 0.7, label)

    # ------------------------------------------------------------------
    # confusion matrix
    kept = {"conf": None, "bin": None}   # result of the previous call: found unchanged after the next one

    def table_of(df):
        rows = [int(v) for v in df.index]
        cols = [int(v) for v in df.columns]
        tab = [[int(v) if float(v) == int(v) else -999 for v in r] for r in df.values.tolist()]
        return (rows, cols, tab)

    def do_conf(obs, sim, ncat, rep=None):
        """rep = (obs held as, sim held as, ncat held as): the same categories handed over in
        another container / integer type / layout (no Coq case: the values are those of rep=None)"""
        kw = {} if ncat is None else {"ncat": ncat}
        replay = {"call": "confusion_matrix", "obs": obs, "sim": sim, "ncat": ncat}
        aobs, asim, held, kp = obs, sim, "", "C04/confusion_matrix/"
        if rep is not None:
            aobs, asim = int_repr(rng, obs, rep[0]), int_repr(rng, sim, rep[1])
            if aobs is None or asim is None:
                return
            if ncat is not None and rep[2] == "numpy":
                kw = {"ncat": np.int64(ncat)}
            replay.update(obs_held_as=rep[0], sim_held_as=rep[1], ncat_held_as=rep[2],
                          input_class="stored representation of the category series")
            held = f" [obs held as {rep[0]}, sim as {rep[1]}]"
            kp += "stored-representation/"
            cm.mark(replay)
        try:
            df = metrics.confusion_matrix(aobs, asim, **kw)
            res = table_of(df)
        except ValueError:
            res, df = None, None
        except Exception as e:      # noqa: BLE001
            if rep is None:
                raise
            res, df = None, None
            replay["exception"] = repr(e)
        replay["impl"] = res
        ncats = len(set(obs) | set(sim))
        if rep is None:
            i = add(term_conf(ncat, obs, sim, res), replay,
                    ("conf", ncat is None, min(len(obs), 4), ncats,
                     None if not obs else max(obs + sim) + 1 - ncats, res is None))
        else:
            i = None
            ctx.count(("conf-repr", rep[0].split(":")[0], rep[1].split(":")[0], ncat is None, min(len(obs), 4)))
        # the table returned by the previous call is still that table
        prev, kept["conf"] = kept["conf"], None
        if prev is not None and df is not None:
            orc["result of an earlier call unchanged by a later call"] += 1
            try:
                now = table_of(prev[0])
            except Exception as e:      # noqa: BLE001
                now = repr(e)
            if now != prev[1] or prev[0] is df:
                fail(None, "C04/confusion_matrix/earlier-result-changed-by-later-call",
                     f"the table returned for {prev[2]['obs']} / {prev[2]['sim']} was {prev[1]}; after the "
                     f"call for {obs} / {sim} the same object holds {now}",
                     {"call": "confusion_matrix twice", "first": prev[2], "then": replay, "first_result_now": now,
                      "input_class": "operation sequence: an earlier result inspected after a later call"})
        if df is not None:
            kept["conf"] = (df, res, replay)
        if len(obs) != len(sim) or not obs:
            return
        if res is None:
            fail(i, kp + "exception", "confusion_matrix raised on valid category series" + held, replay)
            return
        rows, cols, tab = res
        orc["confusion matrix = pair counts" + (" (stored representations)" if rep else "")] += 1
        count = {}
        for a, b in zip(obs, sim):
            count[(a, b)] = count.get((a, b), 0) + 1
        total = sum(sum(r) for r in tab)
        where = "inferred-ncat" if ncat is None else "given-ncat"
        if total != len(obs):
            fail(i, kp + f"pairs-lost/{where}",
                 f"confusion_matrix({obs}, {sim}, ncat={ncat}) holds {total} of the {len(obs)} pairs: {tab}" + held,
                 replay)
            return
        for (a, b), c in count.items():
            if a not in rows or b not in cols or tab[rows.index(a)][cols.index(b)] != c:
                fail(i, kp + f"wrong-count/{where}",
                     f"pair ({a},{b}) occurs {c} times, table {rows}x{cols} = {tab}" + held, replay)
                return
        if ncat is not None and (rows != list(range(ncat)) or cols != list(range(ncat))
                                 or len(tab) != ncat or any(len(r) != ncat for r in tab)):
            fail(i, kp + "not-requested-size",
                 f"ncat={ncat} but the table has rows {rows} and columns {cols}" + held, replay)

    # ------------------------------------------------------------------
    # binary scores
    def snapshot(d):
        return sorted((k, repr(float(v))) for k, v in d.items())

    def do_bin(tab, rep=None, arg=None):
        """rep: the same four counts handed over in another container / integer type / layout,
        or (rep = "pipeline") as the table `arg` returned by confusion_matrix"""
        (tn, fp), (fn, tp) = tab
        held, kp = "", "C04/binary/"
        if rep is not None:
            if arg is None:
                arg = table_repr(rng, tab, rep)
            if arg is None:
                return
            held = f" [table held as {rep}]"
            kp += "stored-representation/"
            cm.mark({"call": "binary", "table": tab, "table_held_as": rep})
        else:
            arg = tab
        try:
            with np.errstate(all="ignore"):
                s, _ = metrics.binary(arg)
            res = ("ok", s)
        except (ValueError, ZeroDivisionError, OverflowError) as e:
            res = ("err", type(e).__name__ + ": " + str(e))
        except Exception as e:      # noqa: BLE001
            if rep is None:
                raise
            res = ("err", type(e).__name__ + ": " + str(e))
        ad, bc = tp * tn, fp * fn
        replay = {"call": "binary", "table": tab,
                  "impl": res[1] if res[0] == "err" else {k: float(v) for k, v in res[1].items()}}
        mag = max(tn, fp, fn, tp)
        if rep is None:
            exact_terms.append(term_bin(tab, res, 0.0))
            i = add(term_bin(tab, res), replay,
                    ("bin", (ad > bc) - (ad < bc), 0 if mag <= 6 else 1 if mag < 30000 else 2, res[0]))
        else:
            i = None
            replay.update(table_held_as=rep, input_class="stored representation of the table")
            ctx.count(("bin-repr", rep, (ad > bc) - (ad < bc), 0 if mag <= 6 else 1 if mag < 30000 else 2))
        if res[0] == "err":
            kept["bin"] = None
            fail(i, kp + "exception",
                 f"binary({tab}) raised {res[1]} (table with four positive counts)" + held, replay)
            return
        s = res[1]
        # the scores returned by the previous call are still those scores; the scores just
        # returned do not follow later changes of the caller's table
        prev, kept["bin"] = kept["bin"], (s, snapshot(s), replay)
        if prev is not None:
            orc["result of an earlier call unchanged by a later call"] += 1
            now = snapshot(prev[0])
            if now != prev[1] or prev[0] is s:
                fail(None, "C04/binary/earlier-result-changed-by-later-call",
                     f"binary({prev[2]['table']}) returned {dict(prev[1])}; after binary({tab}) the same "
                     f"dictionary holds {dict(now)}",
                     {"call": "binary twice", "first": prev[2], "then": replay, "first_result_now": dict(now),
                      "input_class": "operation sequence: an earlier result inspected after a later call"})
        if isinstance(arg, np.ndarray) and arg.flags.writeable:
            arg[...] = 1
            orc["result unchanged by a later change of the caller's table"] += 1
            if snapshot(s) != kept["bin"][1]:
                fail(None, "C04/binary/result-follows-the-callers-table",
                     f"binary({tab}) returned {dict(kept['bin'][1])}; after the caller overwrote its table with "
                     f"ones the returned dictionary holds {dict(snapshot(s))}" + held,
                     dict(replay, after_overwriting_the_table=dict(snapshot(s))))
            s = dict(kept["bin"][1])
            s = {k: float(v) for k, v in s.items()}
        orc["binary scores = contingency-table definitions" + (" (stored representations)" if rep else "")] += 1
        want = {
            "hitrate": Fraction(tp, tp + fn), "falsealarm": Fraction(fp, fp + tn),
            "precision": Fraction(tp, tp + fp), "accuracy": Fraction(tp + tn, tp + tn + fp + fn),
            "bias": Fraction(tp + fp, tp + fn), "F1": Fraction(2 * tp, 2 * tp + fp + fn),
            "ORSS": Fraction(ad - bc, ad + bc),
        }
        # 1-F and 1-H are formed in floating point: conditioning of theta
        ctheta = (tn + fp) / tn + (tp + fn) / fn
        for k, w in want.items():
            v = float(s[k])
            if math.isnan(v):
                mode = "nan"
                if k == "ORSS":
                    mode = "nan-odds-ratio-" + ("above-1" if ad > bc else "at-1" if ad == bc else "below-1")
                fail(i, kp + f"{k}/{mode}", f"binary({tab})[{k}] is NaN, definition gives {float(w)!r}" + held,
                     replay)
            elif abs(v - float(w)) > (1e-12 + (1e-14 * ctheta if k == "ORSS" else 0)) * (1 + abs(float(w))):
                fail(i, kp + f"{k}/wrong-value",
                     f"binary({tab})[{k}] = {v!r}, definition gives {float(w)!r}" + held, replay)
        # F1 is the harmonic mean of hit rate and precision
        h, pr = want["hitrate"], want["precision"]
        assert want["F1"] == 2 * h * pr / (h + pr)
        den = (tp + fp) * (tp + fn) * (tn + fp) * (tn + fn)
        wm = (ad - bc) / math.sqrt(den)
        v = float(s["MCC"])
        if math.isnan(v) or abs(v - wm) > 1e-12 * (1 + abs(wm)) or abs(v) > 1 + 1e-12:
            fail(i, kp + "MCC/" + ("nan" if math.isnan(v) else "wrong-value"),
                 f"binary({tab})[MCC] = {v!r}, definition gives {wm!r}" + held, replay)
        wl = math.log(Fraction(ad, bc))
        v = float(s["LOR"])
        if math.isnan(v) or abs(v - wl) > 1e-12 + 1e-14 * ctheta + 1e-12 * abs(wl):
            fail(i, kp + "LOR/" + ("nan" if math.isnan(v) else "wrong-value"),
                 f"binary({tab})[LOR] = {v!r}, log(TP*TN/(FP*FN)) = {wl!r}" + held, replay)
        for k in ("truepos", "falsepos", "trueneg", "falseneg"):
            if int(s[k]) != {"truepos": tp, "falsepos": fp, "trueneg": tn, "falseneg": fn}[k]:
                fail(i, kp + f"{k}/wrong-value", f"binary({tab})[{k}] = {s[k]}" + held, replay)

    def do_pipeline():
        """event series -> confusion_matrix -> binary, the table handed over as returned"""
        n = rng.choice([12, 40, 200, rng.randint(8, 400)])
        po, hit = rng.choice([0.1, 0.3, 0.5, 0.8]), rng.choice([0.3, 0.5, 0.7, 0.9])
        obs = [int(rng.random() < po) for _ in range(n)]
        sim = [(o if rng.random() < hit else 1 - o) for o in obs]
        obs[:4], sim[:4] = [0, 0, 1, 1], [0, 1, 0, 1]      # four positive counts
        cnt = [[sum(1 for a, b in zip(obs, sim) if (a, b) == (i, j)) for j in (0, 1)] for i in (0, 1)]
        ko, ks = rng.choice(["list", "bool", "bool", "int64", "uint8", "series:dates", "series:shuffled"]), \
            rng.choice(["list", "bool", "int32", "series:text", "series:dup"])
        ao = obs if ko == "list" else int_repr(rng, obs, ko)
        as_ = sim if ks == "list" else int_repr(rng, sim, ks)
        kw = rng.choice([{}, {"ncat": 2}])
        cm.mark({"call": "confusion_matrix -> binary", "obs": obs, "sim": sim})
        try:
            table = metrics.confusion_matrix(ao, as_, **kw)
        except Exception:      # noqa: BLE001 - reported by do_conf on the same kind of input
            do_conf(obs, sim, kw.get("ncat"), (ko if ko != "list" else "tuple", ks if ks != "list" else "tuple", "python"))
            return
        do_bin(cnt, rep=f"the table returned by confusion_matrix(obs held as {ko}, sim as {ks}, {kw})", arg=table)

    for case in corpus:
        if case.get("kind") == "binary":
            do_bin([[int(v) for v in r] for r in case["table"]])
        if case.get("kind") == "confusion":
            do_conf([int(v) for v in case["obs"]], [int(v) for v in case["sim"]], case["ncat"])
    cats3 = [0, 1, 2]
    for n in (1, 2, 3):
        for obs in itertools.product(cats3, repeat=n):
            for sim in itertools.product(cats3, repeat=n):
                if n == 3 and not ctx.thorough and rng.random() < 0.7:
                    continue
                do_conf(list(obs), list(sim), None)
                if rng.random() < 0.35:
                    do_conf(list(obs), list(sim), rng.choice([3, 4]))
    for it in range(ctx.scale(300, 6000)):
        nc = rng.randint(2, 6)
        n = rng.choice([1, 2, 3, 5, 10, rng.randint(1, 60)])
        present = rng.sample(range(nc), rng.randint(1, nc))
        po = rng.sample(present, rng.randint(1, len(present)))
        ps = rng.sample(present, rng.randint(1, len(present)))
        obs = [rng.choice(po) for _ in range(n)]
        sim = [rng.choice(ps) for _ in range(n)]
        ncat = None if rng.random() < 0.5 else nc
        do_conf(obs, sim, ncat)
        if it % 2 == 0:
            do_conf(obs, sim, ncat, (rng.choice(INT_REPS), rng.choice(INT_REPS), rng.choice(["python", "numpy"])))
    do_conf([0, 1], [0, 1, 1], None)
    do_conf([0, 1, 1], [0], 2)

    for tn, fp, fn, tp in itertools.product(range(1, 7), repeat=4):
        do_bin([[tn, fp], [fn, tp]])
        if rng.random() < 0.12:
            do_bin([[tn, fp], [fn, tp]], rep=rng.choice(TABLE_REPS))
    for kind in TABLE_REPS:      # counts drawn over the whole range the storage type holds
        top = {"int16": 32767, "uint8": 255, "uint16": 65535}.get(kind, 10 ** 6)
        for it in range(ctx.scale(8, 60)):
            hi = rng.choice([top, top, max(2, top // 3), max(2, int(math.isqrt(top)) + 2)])
            do_bin([[rng.randint(1, hi), rng.randint(1, hi)], [rng.randint(1, hi), rng.randint(1, hi)]], rep=kind)
    for it in range(ctx.scale(40, 300)):
        do_pipeline()
    for it in range(ctx.scale(400, 5000)):
        mode = rng.random()
        hi = rng.choice([10, 100, 3000, 10 ** 5, 10 ** 6])
        if mode > 0.8:          # cells of very different magnitudes
            a, b, c, d = (rng.randint(1, rng.choice([3, 100, 10 ** 4, 10 ** 6])) for _ in range(4))
        else:
            a, b, c, d = (rng.randint(1, hi) for _ in range(4))
        if mode < 0.2:          # odds ratio exactly 1: tn*tp = fp*fn
            k1, k2 = rng.randint(1, 30), rng.randint(1, 30)
            u, v = rng.randint(1, min(hi, 1000)), rng.randint(1, min(hi, 1000))
            tn, fp, fn, tp = u * k1, v * k1, u * k2, v * k2
        else:
            tn, fp, fn, tp = a, b, c, d
        do_bin([[tn, fp], [fn, tp]])

    # ------------------------------------------------------------------
    for attempt in range(3):
        bad, nshards, failed = cm.run_case_files(PID, HEADER, "scase", "s_ok", terms,
                                                 shard=300, max_bytes=700000)
        if not (bad or failed) or not tie_disturbed():
            break
        # the shared Gen/ConstsC04.v was rewritten from another tree while the cases ran
        proved = prove_stable(ctx)
        ctx.notes["gen_interference_case_reruns"] = attempt + 1
    if ctx.thorough and not bad and not failed:
        # informational: how many of the bias/nse/binary-rate outputs are not bit-identical to the model
        # (numpy's pairwise summation is transcribed, so 0 is expected; a harmless
        # re-association in the code would show up here, not as a violation)
        drift, _, dfailed = cm.run_case_files(PID, HEADER, "scase", "s_ok", exact_terms,
                                              shard=400, max_bytes=900000)
        ctx.notes["rounding_drift_cases"] = {"not_bit_exact": len(drift), "of": len(exact_terms),
                                             "shards_failed": len(dfailed)}
    ctx.notes["oracle_checks"] = dict(orc)
    ctx.notes["correspondence_cases"] = len(terms)
    ctx.notes["correspondence_mismatches"] = len(bad)
    for k in range(nshards):
        ctx.obligation(f"Cases_{PID}_{k}.agree (model = implementation on the shard)", True)
    cm.settle(ctx, proved, bad, failed, orc_fail, lambda i: replays[i],
              "Model/Scores.v vs stat/metrics.py (bias, nse, kge, corr, confusion_matrix, binary)")
    return ctx.finish()
