"""Shared by the checks of C01 (invertibility) and C02 (Jacobian / monotonicity)
of hydrodiy.stat.transform:

* the catalogue: for each of the 13 classes, constructor-option variants,
  parameter-vector generators (bounds, defaults, exact branch values, one ulp
  either side of the switches, log-uniform magnitudes) driven by the bounds
  RE-EXTRACTED from the source (harness/extractors/c01.py), generators of domain
  points inside the conditioning region stated by the property, and the Coq
  term of the model (coq/Model/Transform.v) for a given method;
* engine E3 (DESIGN 3.2): one goal `close_R (model args x) y_impl tol` per
  evaluation, closed inside Coq by `tr_solve` (= branch tests decided by
  `interval`, final inequality by `interval`), compiled in parallel shards.

All randomness comes from the `rng` passed in (ctx.rng)."""
import math
import re
from concurrent.futures import ThreadPoolExecutor

import numpy as np

from harness import common as cm
from harness.extractors import c01 as ex

CLASSES = list(ex.EXPECTED_CLASSES)
U = 2.0 ** -53
NAN = float("nan")

_TAB = None


def tables():
    global _TAB
    if _TAB is None:
        _TAB = ex.tables(cm.REPO)
    return _TAB


def eps():
    return float(tables()["eps"])


# ----------------------------------------------------------------------------
# Coq real literals (exact binary64 values)

def hx(v):
    v = float(v)
    if math.isnan(v) or math.isinf(v):
        raise ValueError("non-finite literal")
    if v == 0.0:
        return "0"
    h = v.hex()
    return f"({h})" if h.startswith("-") else h


def hxl(vs):
    return "[" + "; ".join(hx(v) for v in vs) + "]"


def hxll(rows):
    return "[" + "; ".join(hxl(r) for r in rows) + "]"


# ----------------------------------------------------------------------------
# catalogue

def ctor_defaults(name):
    """{option: default value} of the class constructor (None for `base`)."""
    t = tables()
    return {nm: ex.sym_value(d, t["eps"], {}) for nm, d in t["classes"][name]["ctor"]}


def bounds(name, opts):
    """{param or constant name: (role, default, min, max)} as floats, from the
    extracted tables, with the constructor options substituted."""
    t = tables()
    c = t["classes"][name]
    full = dict(ctor_defaults(name))
    full.update(opts)
    out = {}
    for role in ("params", "constants"):
        vec = c[role]
        if not vec:
            continue
        for i, n in enumerate(vec["names"]):
            out[n] = (role,
                      ex.sym_value(vec["defaults"][i], t["eps"], full),
                      ex.sym_value(vec["mins"][i], t["eps"], full),
                      ex.sym_value(vec["maxs"][i], t["eps"], full))
    return out


def ctor_variants(name, rng, c02=False):
    """constructor-option settings exercised for a class (first = defaults)."""
    if name == "Log":
        v = [{}, {"base": 10.0}, {"base": 2.0}, {"mininu": 0.5, "base": 3.0},
             {"mininu": 1.0}, {"base": round(rng.uniform(1.5, 20), 3)}]
        if not c02:          # base < 1: forward decreasing; still invertible (C01 only)
            v += [{"base": 0.5}, {"base": round(rng.uniform(0.05, 0.9), 3)}]
        return v
    if name in ("BoxCox2", "BoxCox1lam", "BoxCox1nu", "BoxCox2sym"):
        return [{}, {"mininu": 0.5}, {"mininu": 1.0, "minilam": -1.0}, {"minilam": -3.0},
                {"mininu": 1e-3, "minilam": 0.5},
                {"mininu": round(10 ** rng.uniform(-6, 0), 8), "minilam": round(rng.uniform(-3, 0.9), 3)}]
    if name == "Reciprocal":
        return [{}, {"mininu": 1.0}, {"mininu": 0.5}, {"mininu": 1e-3},
                {"mininu": round(10 ** rng.uniform(-4, 1), 6)}]
    return [{}]


def _ulp_up(x):
    return math.nextafter(x, math.inf)


def _ulp_dn(x):
    return math.nextafter(x, -math.inf)


def _logu(rng, lo, hi):
    return 10 ** rng.uniform(lo, hi)


def _lam_power_specials(e, lo, hi):
    """branch values of the power family: 0, +-EPS exactly, one ulp either side"""
    # 1e-7, 1e-5: between EPS and any threshold moved by orders of magnitude in one method
    s = [0.0, e, _ulp_up(e), _ulp_dn(e), 1e-7, 1e-5, -e, -_ulp_up(e), 1.0, -1e-7, lo, hi,
         -_ulp_dn(e), 2 * e, 1e-9, 1e-3, -1e-9, -1e-5, -1e-3, 0.2, 0.5, 2.0, -0.5]
    return [x for x in s if lo <= x <= hi]


def _yj_lam_specials():
    a0 = 1e-8                      # isclose(lam, 0): |lam| <= atol
    a2 = 1e-8 + 1e-5 * 2.0         # isclose(lam, 2): |lam-2| <= atol + rtol*2
    s = [0.0, a0, _ulp_up(a0), _ulp_dn(a0), -a0, 1e-6, 2.0, 2.0 + a2, 2.0 - a2,
         _ulp_up(2.0 + a2), _ulp_dn(2.0 - a2), 2.0 + 1e-3, 1.0, -1e-4, -_ulp_up(a0),
         2.0 + 1e-5, 2.0 - 1e-5, 2.0 + 1e-4, 2.0 - 1e-4,
         -1.0, 3.0, -1e-6, 1e-3, 0.5, 1.5, 2.5, -0.5]
    return s


def param_vectors(name, opts, rng, n):
    """n parameter/constant settings {name: value} inside the extracted bounds."""
    b = bounds(name, opts)
    e = eps()
    out = []

    def shift_values(lo):       # nu of the log/power family: [mininu, inf)
        return [lo, _ulp_up(lo), lo + 1e-12, lo + 1e-6, lo + 1e-3, lo + 0.1, lo + 1.0, lo + 10.0]

    for k in range(n):
        v = {}
        if name == "Identity" or name == "Softmax":
            pass
        elif name == "Logit":
            v["lower"] = [0.0, -1.0, 1.0, 100.0, -1e3, rng.gauss(0, 5)][k] if k < 6 else rng.gauss(0, 20)
            lo, hi = b["logdelta"][2], b["logdelta"][3]
            v["logdelta"] = [0.0, lo, hi, 1.0, -3.0, 5.0][k] if k < 6 else rng.uniform(lo, hi)
        elif name in ("Log", "Reciprocal"):
            lo = b["nu"][2]
            sv = shift_values(lo)
            v["nu"] = sv[k] if k < len(sv) else lo + _logu(rng, -12, 1)
        elif name in ("BoxCox2", "BoxCox1lam", "BoxCox1nu", "BoxCox2sym"):
            lo = b["nu"][2]
            llo, lhi = b["lam"][2], b["lam"][3]
            sp = _lam_power_specials(e, llo, lhi)
            if k < len(sp):
                v["lam"] = sp[k]
                v["nu"] = [lo, lo + 0.1, lo + 1.0, lo + 1e-3][k % 4]
            else:
                mag = _logu(rng, -12, math.log10(3))
                sign = -1 if (llo < 0 and rng.random() < 0.4) else 1
                v["lam"] = min(max(sign * mag, llo), lhi)
                v["nu"] = lo + _logu(rng, -12, 1)
        elif name == "YeoJohnson":
            sp = _yj_lam_specials()
            v["lam"] = sp[k] if k < len(sp) else \
                rng.choice([1, -1]) * _logu(rng, -12, 0) if rng.random() < 0.5 else rng.uniform(-1, 3)
            v["lam"] = min(max(v["lam"], b["lam"][2]), b["lam"][3])
            v["nu"] = [0.0, 0.5, -0.5, 2.0, -3.0][k % 5] if k < 15 else rng.gauss(0, 3)
            slo = b["scale"][2]
            v["scale"] = [1.0, slo, 2.0, 0.1, 10.0, 1e-3][k % 6] if k < 18 else _logu(rng, math.log10(slo), 3)
        elif name == "LogSinh":
            alo, ahi = b["loga"][2], b["loga"][3]
            blo, bhi = b["logb"][2], b["logb"][3]
            v["loga"] = [-1.0, alo, ahi, -5.0, -0.1, -10.0][k] if k < 6 else rng.uniform(alo, ahi)
            v["logb"] = [0.0, blo, bhi, 1.0, -1.0, 0.3][k] if k < 6 else rng.uniform(blo, bhi)
            xlo = b["xmax"][2]
            v["xmax"] = [1.0, 10.0, xlo, 1e-3, 1e4, 5.0][k] if k < 6 else _logu(rng, -6, 5)
        elif name == "Sinh":
            slo = b["scale"][2]
            v["nu"] = [0.0, 1.0, -1.0, 100.0, -0.01][k % 5] if k < 10 else rng.gauss(0, 10)
            v["scale"] = [1.0, slo, 2.0, 1e-5, 1e3, 0.1][k % 6] if k < 12 else _logu(rng, math.log10(slo), 3)
        elif name == "Manly":
            llo, lhi = b["lam"][2], b["lam"][3]
            sp = [0.0, e, _ulp_up(e), _ulp_dn(e), -e, 1e-7, 0.1, -1e-5, llo, lhi, -_ulp_up(e), 1e-3, -1e-3,
                  1.0, -1.0, 1e-12, 2 * e]
            v["lam"] = sp[k] if k < len(sp) else \
                (rng.choice([1, -1]) * _logu(rng, -3, math.log10(5)) if rng.random() < 0.7
                 else rng.choice([1, -1]) * _logu(rng, -12, -3))
            xlo = b["xmax"][2]
            v["xmax"] = [2.0, 1.0, 10.0, xlo, 1e-3, 1e4][k % 6] if k < 12 else _logu(rng, -6, 5)
        else:
            raise KeyError(name)
        out.append(v)
    return out


def make(name, opts, vals, via_get=False):
    """instance of the transform with the given options and values; returns
    (object, effective stored values)"""
    from hydrodiy.stat import transform as T
    if via_get:
        t = T.get_transform(name, **dict(opts), **dict(vals))
    else:
        t = getattr(T, name)(**opts)
        for k, v in vals.items():
            if k in t.params.names:
                t.params[k] = v
            else:
                t.constants[k] = v
    eff = {k: float(t[k]) for k in vals}
    return t, eff


def full_opts(name, opts):
    d = dict(ctor_defaults(name))
    d.update(opts)
    return d


# ----------------------------------------------------------------------------
# model terms

def model_prefix(name, method, opts, vals):
    """(Coq function applied to its parameters, result kind 'R'|'opt') for
    method in fwd/bwd/jac ; the point is appended by the caller."""
    o = full_opts(name, opts)
    h = hx
    if name == "Identity":
        return {"fwd": "id_fwd", "bwd": "id_bwd", "jac": "id_jac"}[method], "R"
    if name == "Logit":
        a = f"{h(vals['lower'])} {h(vals['logdelta'])}"
        return {"fwd": (f"logit_fwd {a}", "R"), "bwd": (f"logit_bwd {a}", "R"),
                "jac": (f"logit_jac {a}", "opt")}[method]
    if name == "Log":
        bf = "(log_basefactor None)" if o["base"] is None else f"(log_basefactor (Some {h(o['base'])}))"
        return {"fwd": (f"log_fwd {bf} {h(vals['nu'])}", "R"),
                "bwd": (f"log_bwd {bf} {h(vals['nu'])}", "R"),
                "jac": (f"log_jac {h(o['mininu'])} {bf} {h(vals['nu'])}", "opt")}[method]
    if name == "BoxCox2":
        a = f"{h(vals['nu'])} {h(vals['lam'])}"
        return {"fwd": (f"bc2_fwd {a}", "R"), "bwd": (f"bc2_bwd {a}", "R"),
                "jac": (f"bc2_jac {h(o['mininu'])} {a}", "opt")}[method]
    if name in ("BoxCox1lam", "BoxCox1nu", "BoxCox2sym"):
        p = {"BoxCox1lam": "bc1lam", "BoxCox1nu": "bc1nu", "BoxCox2sym": "bc2sym"}[name]
        a = f"{h(o['mininu'])} {h(o['minilam'])} {h(vals['nu'])} {h(vals['lam'])}"
        return {"fwd": (f"{p}_fwd {a}", "R"), "bwd": (f"{p}_bwd {a}", "R"),
                "jac": (f"{p}_jac {a}", "opt")}[method]
    if name == "YeoJohnson":
        a = f"{h(vals['nu'])} {h(vals['scale'])} {h(vals['lam'])}"
        return {"fwd": (f"yj_fwd {a}", "R"), "bwd": (f"yj_bwd {a}", "R"),
                "jac": (f"yj_jac {a}", "R")}[method]
    if name == "LogSinh":
        a = f"{h(vals['loga'])} {h(vals['logb'])} {h(vals['xmax'])}"
        return {"fwd": (f"logsinh_fwd {a}", "opt"), "bwd": (f"logsinh_bwd {a}", "R"),
                "jac": (f"logsinh_jac {a}", "opt")}[method]
    if name == "Reciprocal":
        a = f"{h(vals['nu'])}"
        return {"fwd": (f"recip_fwd {a}", "opt"), "bwd": (f"recip_bwd {a}", "opt"),
                "jac": (f"recip_jac {a}", "opt")}[method]
    if name == "Sinh":
        a = f"{h(vals['nu'])} {h(vals['scale'])}"
        return {"fwd": (f"sinh_fwd {a}", "R"), "bwd": (f"sinh_bwd {a}", "R"),
                "jac": (f"sinh_jac {a}", "R")}[method]
    if name == "Manly":
        a = f"{h(vals['lam'])} {h(vals['xmax'])}"
        return {"fwd": (f"manly_fwd {a}", "R"), "bwd": (f"manly_bwd {a}", "R"),
                "jac": (f"manly_jac {a}", "R")}[method]
    raise KeyError(name)


def goal_scalar(name, method, opts, vals, x, y, tol):
    """Coq proposition: model value at x within tol of the implementation's y
    (y = None: the implementation returned NaN or raised)."""
    f, kind = model_prefix(name, method, opts, vals)
    if kind == "R" and y is not None:
        return f"close_R ({f} {hx(x)}) {hx(y)} {hx(tol)}"
    m = f"({f} {hx(x)})" if kind == "opt" else f"(Some ({f} {hx(x)}))"
    ys = "None" if y is None else f"(Some {hx(y)})"
    return f"close_opt {m} {ys} {hx(tol if y is not None else 0.0)}"


def goal_censored(name, opts, vals, censor, y, out, tol):
    f, kf = model_prefix(name, "fwd", opts, vals)
    g, kg = model_prefix(name, "bwd", opts, vals)
    ff = f"({f})" if kf == "opt" else f"(tot ({f}))"
    gg = f"({g})" if kg == "opt" else f"(tot ({g}))"
    ys = "None" if out is None else f"(Some {hx(out)})"
    return (f"close_opt (backward_censored {ff} {gg} {hx(censor)} {hx(y)}) {ys} "
            f"{hx(tol if out is not None else 0.0)}")


# ----------------------------------------------------------------------------
# domain points (inside the conditioning region stated by the property)

LNMAX = 13.8      # |lam * ln(.)| <= 13.8 for the power family (property text)


def _lnz_limit(lam):
    return min(11.5, LNMAX / abs(lam)) if lam != 0 else 11.5


def points(name, opts, vals, rng, n):
    """n in-domain, well-conditioned points (floats) for forward/jacobian."""
    o = full_opts(name, opts)
    xs = []
    tries = 0
    while len(xs) < n and tries < 50 * n:
        tries += 1
        k = len(xs)
        if name == "Identity":
            x = rng.choice([-1, 1]) * _logu(rng, -5, 5) if k else 0.0
        elif name == "Logit":
            d = math.exp(vals["logdelta"])
            v = [0.5, 1e-3, 1 - 1e-3, 0.1, 0.9][k % 5] if k < 5 else rng.uniform(1e-4, 1 - 1e-4)
            x = vals["lower"] + v * d
            vv = (x - vals["lower"]) / d
            # keep away from the two ends, where upper-lower / 1-value cancel
            if not (1e-5 < vv < 1 - 1e-5) or abs(vals["lower"]) > 1e6 * d:
                continue
        elif name in ("Log", "BoxCox2", "BoxCox1lam", "BoxCox1nu"):
            lam = vals.get("lam", 0.0)
            L = _lnz_limit(lam)
            z = math.exp(rng.uniform(-L, L)) if k else 1.0
            x = z - vals["nu"]
            zz = x + vals["nu"]
            if not zz > 0 or abs(math.log(zz)) > L * 1.0001:
                continue
            # x + nu must not be dominated by rounding of the sum
            if max(abs(x), abs(vals["nu"])) > 1e6 * zz:
                continue
        elif name == "BoxCox2sym":
            lam = vals["lam"]
            L = _lnz_limit(lam)
            if k == 0:
                x = 0.0
            else:
                z = math.exp(rng.uniform(math.log(vals["nu"]) if vals["nu"] > 0 else -L, L))
                x = rng.choice([-1, 1]) * max(z - vals["nu"], 0.0)
            zz = abs(x) + vals["nu"]
            if not zz > 0 or abs(math.log(zz)) > L * 1.0001 or abs(math.log(vals["nu"])) > L:
                continue
        elif name == "YeoJohnson":
            lam = vals["lam"]
            if k == 0:
                w = 0.0
            else:
                neg = rng.random() < 0.5
                ex_ = (2 - lam) if neg else lam
                L = _lnz_limit(ex_)
                w = math.expm1(rng.uniform(math.log(1e-6), L)) if rng.random() < 0.8 else _logu(rng, -9, -3)
                w = -w if neg else w
            x = (w - vals["nu"]) / vals["scale"]
            ww = vals["nu"] + x * vals["scale"]
            ex_ = lam if ww >= eps() else (2 - lam)
            L = _lnz_limit(ex_)
            if abs(math.log1p(abs(ww))) > L * 1.0001:
                continue
            # stay clear of the switch w = EPS (exact invertibility fails in a 1e-10 band)
            if 0 < ww < 1e3 * eps() and ww != 0:
                continue
            if max(abs(vals["nu"]), abs(x * vals["scale"])) > 1e6 * max(abs(ww), 1e-3):
                continue
        elif name == "LogSinh":
            a, b = math.exp(vals["loga"]), math.exp(vals["logb"])
            w = _logu(rng, -4, math.log10(30.0))
            xn = (w - a) / b
            x = xn * vals["xmax"]
            ww = a + b * (x / vals["xmax"])
            if not (1e-4 <= ww <= 40):
                continue
            if max(a, abs(b * xn)) > 1e6 * ww:
                continue
        elif name == "Reciprocal":
            z = _logu(rng, -6, 6)
            x = z - vals["nu"]
            zz = vals["nu"] + x
            if not zz > 0 or max(abs(x), abs(vals["nu"])) > 1e6 * zz:
                continue
        elif name == "Sinh":
            u = rng.choice([-1, 1]) * _logu(rng, -6, 6) if k else 0.0
            x = u / vals["scale"] + vals["nu"]
            uu = (x - vals["nu"]) * vals["scale"]
            if max(abs(x), abs(vals["nu"])) * vals["scale"] > 1e6 * max(abs(uu), 1e-3):
                continue
        elif name == "Manly":
            lam = vals["lam"]
            lim = min(1e3, LNMAX / abs(lam)) if lam != 0 else 1e3
            u = rng.choice([-1, 1]) * _logu(rng, -6, math.log10(lim)) if k else 0.0
            x = u * vals["xmax"]
            if abs(lam * (x / vals["xmax"])) > LNMAX:
                continue
        else:
            raise KeyError(name)
        if math.isfinite(x):
            xs.append(float(x))
    return xs


def guard_points(name, opts, vals, rng):
    """points where an explicit np.where guard of the code yields NaN
    (outside the domain; compared as None) - forward or jacobian."""
    o = full_opts(name, opts)
    if name == "Reciprocal":
        return [("fwd", -vals["nu"]), ("fwd", -vals["nu"] - 1.0), ("jac", -vals["nu"] - 0.5)]
    if name == "LogSinh":
        a, b = math.exp(vals["loga"]), math.exp(vals["logb"])
        return [("fwd", (-a / b - 1.0) * vals["xmax"]), ("jac", (-a / b - 0.5) * vals["xmax"])]
    if name == "Logit":
        d = math.exp(vals["logdelta"])
        return [("jac", vals["lower"] - 0.5 * d), ("jac", vals["lower"] + 1.5 * d)]
    if name in ("Log", "BoxCox2", "BoxCox1lam", "BoxCox1nu"):
        m = o["mininu"]
        if m > 1e-6:       # 0 < x + nu <= mininu : forward defined, jacobian NaN
            return [("jac", 0.5 * m - vals["nu"])]
    return []


# ----------------------------------------------------------------------------
# input class X (C01, oracle only): exponents at / just either side of EVERY
# threshold at which some method could switch branch (EPS and the isclose windows
# 1e-8 around 0, 1e-8 + 2e-5 around 2) x arguments whose logarithm is large
# (x + nu resp. 1 + |w| from 1e-100 to 1e100).  A pair forward/backward that
# selects its branch from two different tests agrees to ~lam*ln(z)^2/2 only,
# which is invisible for |ln z| <= 11.5 (the points of `points`) and lam <= 1e-8.
# Inside the property's region: |lam*ln z| <= 13.8, no cancellation in x + nu.
# Measured on the unchanged code: round-trip error <= 0.06 x the oracle's tolerance (worst at
# |lam| = 1.5e-10, where the tolerance is the widened one of c01.rt_rtol); no failure with the
# tolerance divided by 15.

XLOGS = [1e-100, 1e-30, 1e-12, 1e12, 1e30, 1e100]     # x + nu, resp. |w| (>= 1e12 only)
TINY_MININU = 1e-120                                  # lets x + nu = 1e-100 be formed exactly


def _pm(vals):
    out = []
    for v in vals:
        out += [v, -v] if v != 0 else [v]
    return out


def threshold_offsets(e, wide=True):
    """distances from a branch value (0, or 2 for Yeo-Johnson) at and around every
    threshold met in the module: EPS, isclose atol = 1e-8, isclose at 2 = 1e-8 + 2e-5
    (`wide`: the last one too)"""
    a0, a2 = 1e-8, 1e-8 + 1e-5 * 2.0
    s = [0.0, e, _ulp_up(e), _ulp_dn(e), 1.5 * e, 2 * e, 1e-9, 2e-9, 5e-9,
         a0, _ulp_up(a0), _ulp_dn(a0), 2e-8, 1e-7, 1e-5, 1e-3, 0.1]
    if wide:
        s += [5 * e, 1.5e-8, 5e-8, 1e-6, 2e-5, a2, _ulp_up(a2), _ulp_dn(a2), 2.5e-5, 3e-5, 5e-5, 1e-4, 1e-2]
    return s


def extreme_vectors(name):
    """[(constructor options, parameter values)] of input class X"""
    e = eps()
    out = []
    if name == "Log":
        for opts in ({}, {"base": 10.0}, {"base": 2.0}, {"base": 0.5}, {"mininu": 1.0, "base": 3.0},
                     {"mininu": TINY_MININU}, {"mininu": TINY_MININU, "base": 10.0}):
            lo = full_opts(name, opts)["mininu"]
            for nu in (lo, lo + 1e-3, 1.0, 30.0):
                if nu >= lo:
                    out.append((dict(opts), {"nu": nu}))
    elif name in ("BoxCox2", "BoxCox1lam", "BoxCox1nu", "BoxCox2sym"):
        for opts in ({}, {"minilam": -3.0}, {"mininu": 1.0, "minilam": -1.0},
                     {"mininu": TINY_MININU, "minilam": -1.0}):
            b = bounds(name, opts)
            lo, llo, lhi = b["nu"][2], b["lam"][2], b["lam"][3]
            k = 0
            for lam in _pm(threshold_offsets(e, wide=False)):
                if not llo <= lam <= lhi:
                    continue
                k += 1
                for nu in ((lo, 1.0), (lo + 1e-3, 30.0))[k % 2]:
                    if nu >= lo:
                        out.append((dict(opts), {"nu": nu, "lam": lam}))
    elif name == "YeoJohnson":
        b = bounds(name, {})
        combos = [(0.0, 1.0), (0.5, b["scale"][2]), (-3.0, 1e-3), (100.0, 10.0), (0.0, 1e3), (-0.5, 2.0)]
        k = 0
        for centre in (0.0, 2.0):
            for d in _pm(threshold_offsets(e)):
                lam = centre + d
                if not b["lam"][2] <= lam <= b["lam"][3]:
                    continue
                for j in range(2):
                    nu, sc = combos[(k + j) % len(combos)]
                    out.append(({}, {"nu": nu, "scale": sc, "lam": lam}))
                k += 1
    return out


def extreme_points(name, opts, vals):
    """points of input class X for the (effective) values `vals`, inside the
    conditioning region of the property"""
    xs = []
    if name in ("Log", "BoxCox2", "BoxCox1lam", "BoxCox1nu", "BoxCox2sym"):
        nu, lam = vals["nu"], vals.get("lam", 0.0)
        if name == "BoxCox2sym" and not (nu > 0 and abs(lam * math.log(nu)) <= LNMAX):
            return xs
        for z in XLOGS:
            x = z - nu
            if name == "BoxCox2sym" and x <= 0:
                continue
            for s in ((1, -1) if name == "BoxCox2sym" else (1,)):
                zz = abs(x) + nu if name == "BoxCox2sym" else x + nu
                if not zz > 0 or abs(lam * math.log(zz)) > LNMAX:
                    continue
                if max(abs(x), abs(nu)) > 1e6 * zz:      # same rule as `points`
                    continue
                xs.append(float(s * x))
    elif name == "YeoJohnson":
        nu, sc, lam = vals["nu"], vals["scale"], vals["lam"]
        for a in XLOGS:
            if a < 1:
                continue
            for w in (a, -a):
                x = (w - nu) / sc
                ww = nu + x * sc
                ex_ = lam if ww >= eps() else 2 - lam
                if abs(ex_ * math.log1p(abs(ww))) > LNMAX or not math.isfinite(x):
                    continue
                xs.append(float(x))
    return xs


# ----------------------------------------------------------------------------
# stateful mode (C01, oracle only): ONE object taken through a sequence of
# parameter settings, changed the ways the public API offers

STYLES = ("attr", "item", "vector-item", "vector-attr", "values", "reset")


def value_names(t):
    return [str(n) for n in t.params.names] + [str(n) for n in t.constants.names]


def stored_values(t):
    return {n: float(t[n]) for n in value_names(t)}


def apply_step(t, style, changes):
    """change the stored values of `t` in place.  attr: t.lam = v; item: t["lam"] = v;
    vector-item: t.params["lam"] = v; vector-attr: t.params.lam = v (all four assign ONE
    element of the existing array); values: t.params.values = [...] (new array);
    reset: t.reset() (parameters back to their defaults, `changes` ignored)"""
    if style == "reset":
        t.reset()
        return
    if style == "values":
        for vec in (t.params, t.constants):
            names = [str(n) for n in vec.names]
            if any(n in changes for n in names):
                vec.values = [changes[n] if n in changes else float(vec[n]) for n in names]
        return
    for k, v in changes.items():
        vec = t.params if k in [str(n) for n in t.params.names] else t.constants
        if style == "attr":
            setattr(t, k, v)
        elif style == "item":
            t[k] = v
        elif style == "vector-item":
            vec[k] = v
        elif style == "vector-attr":
            setattr(vec, k, v)
        else:
            raise KeyError(style)


def stateful_plan(name, opts, rng, nsteps):
    """(first setting, [(style, {name: value})]): settings drawn from `param_vectors`
    (branch values first) in random order; element-wise styles change either every
    value or one value only (the others keep what the history left)"""
    nspecial = {"BoxCox2": 23, "BoxCox1lam": 23, "BoxCox1nu": 23, "BoxCox2sym": 23, "YeoJohnson": 27,
                "Manly": 17}.get(name, 8)
    vecs = param_vectors(name, opts, rng, nspecial + 6)
    rng.shuffle(vecs)
    first, steps = vecs[0], []
    off = rng.randrange(len(STYLES))
    for i in range(nsteps):
        style = STYLES[(i + off) % len(STYLES)]
        target = dict(vecs[(i + 1) % len(vecs)])
        if style not in ("reset", "values") and len(target) > 1 and rng.random() < 0.5:
            k = sorted(target)[rng.randrange(len(target))]
            target = {k: target[k]}
        steps.append((style, {} if style == "reset" else target))
    return first, steps


# ----------------------------------------------------------------------------
# forward-error amplification of the implementation's own float algorithm at a
# point (a priori bound; tolerance = 1e-10*max(1,|y|) + 16*2^-53*A)

def _amp_pow_fwd(z, lam, nu_like, x_like):
    """(z^lam - 1)/lam or ln z, z = x_like + nu_like computed in floats"""
    e = eps()
    canc = max(abs(x_like), abs(nu_like), z) / z          # relative error of z
    if abs(lam) > e:
        p = z ** lam
        return (p * (1 + abs(lam * math.log(z))) + 1) / abs(lam) + canc * p + abs((p - 1) / lam)
    return 1 + abs(math.log(z)) + canc


def _amp_pow_bwd(y, lam, nu):
    """(lam*y+1)^(1/lam) - nu or exp(y) - nu"""
    e = eps()
    if abs(lam) > e:
        u = lam * y + 1
        if not u > 0:
            return math.inf
        p = u ** (1 / lam)
        return p * ((abs(lam * y) + 1) / (u * abs(lam)) + abs(math.log(u)) / abs(lam) + 1) + abs(nu)
    return math.exp(y) * (1 + abs(y)) + abs(nu)


def amp(name, method, opts, vals, x, out):
    o = full_opts(name, opts)
    e = eps()
    try:
        if name == "Identity":
            return 0.0
        if name == "Logit":
            lower, d = vals["lower"], math.exp(vals["logdelta"])
            M = max(abs(lower), abs(lower + d), abs(x))
            if method == "bwd":
                return d + abs(lower)
            v = (x - lower) / d
            r = 1 + M / d
            if method == "fwd":
                return r / (1 - v) + 1 / v + abs(out)
            return abs(out) * r * (1 + v / (1 - v) + 1)
        if name == "Log":
            bf = 1.0 if o["base"] is None else math.log(o["base"])
            if method == "bwd":
                return math.exp(bf * x) * (1 + abs(bf * x)) + abs(vals["nu"])
            z = x + vals["nu"]
            canc = max(abs(x), abs(vals["nu"]), z) / z
            if method == "fwd":
                return (1 + abs(math.log(z)) + canc) / abs(bf) * 2
            return abs(out) * (canc + 2)
        if name in ("BoxCox2", "BoxCox1lam", "BoxCox1nu"):
            nu, lam = vals["nu"], vals["lam"]
            if method == "bwd":
                return _amp_pow_bwd(x, lam, nu)
            z = x + nu
            if method == "fwd":
                return _amp_pow_fwd(z, lam, nu, x)
            canc = max(abs(x), abs(nu), z) / z
            return abs(out) * (canc * abs(lam - 1) + abs((lam - 1) * math.log(z)) + 2)
        if name == "BoxCox2sym":
            nu, lam = vals["nu"], vals["lam"]
            if method == "fwd":
                return _amp_pow_fwd(abs(x) + nu, lam, nu, x) + _amp_pow_fwd(nu, lam, nu, 0.0)
            if method == "bwd":
                y0 = (nu ** lam - 1) / lam if abs(lam) > e else math.log(nu)
                yy = abs(x) + y0
                a1 = _amp_pow_bwd(yy, lam, nu)
                # rounding of |y| + y0 (and of y0 itself) propagated through backward
                if abs(lam) > e:
                    u = lam * yy + 1
                    der = u ** (1 / lam - 1) if u > 0 else math.inf
                else:
                    der = math.exp(yy)
                return a1 + der * (max(abs(x), abs(y0)) + _amp_pow_fwd(nu, lam, nu, 0.0))
            z = abs(x) + nu
            return abs(out) * (abs((lam - 1) * math.log(z)) + abs(lam - 1) + 2)
        if name == "YeoJohnson":
            nu, sc, lam = vals["nu"], vals["scale"], vals["lam"]
            if method == "bwd":
                y = x
                if y >= e:
                    a = _amp_pow_bwd(y, lam if abs(lam) > 1e-8 else 0.0, 1.0)
                else:
                    l2 = 2 - lam
                    a = _amp_pow_bwd(-y, l2 if abs(l2) > 2.001e-5 else 0.0, 1.0)
                return (a + abs(nu) + abs(out * sc)) / sc
            w = nu + x * sc
            cw = max(abs(nu), abs(x * sc), abs(w))          # abs error of w / U
            if w >= e:
                z, ex_ = w + 1, (lam if abs(lam) > 1e-8 else 0.0)
            else:
                z, ex_ = -w + 1, ((2 - lam) if abs(2 - lam) > 2.001e-5 else 0.0)
            if method == "fwd":
                return _amp_pow_fwd(z, ex_, 1.0, abs(w)) + cw * z ** (ex_ - 1)
            return abs(out) * (abs((ex_ - 1) * math.log(z)) + abs(ex_ - 1) * (1 + cw / z) + 3)
        if name == "LogSinh":
            a, b, xmax = math.exp(vals["loga"]), math.exp(vals["logb"]), vals["xmax"]
            if method == "bwd":
                y = x
                w = b * y
                L = math.log(1 + math.sqrt(1 + math.exp(-2 * w))) if w > -300 else -w
                return xmax * (abs(y) + (abs(L) * 2 + a * 2) / b) * 2
            xn = x / xmax
            w = a + b * xn
            cw = max(a, abs(b * xn), abs(w)) * 3
            if method == "fwd":
                return (cw * (1 + 1 / w) + 1 / w + abs(w) + abs(out * b)) / b
            return abs(out) * (cw / w + 3)
        if name == "Reciprocal":
            nu = vals["nu"]
            if method == "bwd":
                return abs(1 / x) + abs(nu)
            z = nu + x
            canc = max(abs(x), abs(nu), z) / z
            return abs(out) * (canc + 1) * (2 if method == "jac" else 1)
        if name == "Sinh":
            nu, sc = vals["nu"], vals["scale"]
            if method == "bwd":
                return abs(math.sinh(x) / sc) * (1 + abs(x)) + abs(nu)
            u = (x - nu) * sc
            cu = max(abs(x), abs(nu)) * sc * 2
            if method == "fwd":
                return cu + abs(out)
            return abs(out) * (1 + cu * abs(u) / (1 + u * u) + 2)
        if name == "Manly":
            lam, xmax = vals["lam"], vals["xmax"]
            if method == "bwd":
                y = x
                if abs(lam) > e:
                    u = 1 + lam * y
                    if not u > 0:
                        return math.inf
                    return xmax * ((1 + abs(lam * y)) / u + abs(math.log(u))) / abs(lam) * 2
                return abs(xmax * y)
            u = x / xmax
            if method == "fwd":
                if abs(lam) > e:
                    p = math.exp(lam * u)
                    return (p * (1 + abs(lam * u)) + 1) / abs(lam) + abs(out)
                return abs(u)
            return abs(out) * (1 + abs(lam * u) * 2)
    except (OverflowError, ValueError, ZeroDivisionError):
        return math.inf
    raise KeyError(name)


def tolerance(name, method, opts, vals, x, out, base=1e-10):
    a = amp(name, method, opts, vals, x, out)
    if not math.isfinite(a):
        return None
    return base * max(1.0, abs(out)) + 16 * U * a


# ----------------------------------------------------------------------------
# engine E3

E3_HEADER = ("From Coq Require Import Reals List.\n"
             "From Hy Require Import Base.Num Model.Transform Proofs.TransformTac.\n"
             "Import ListNotations.\nOpen Scope R_scope.\n")


def _write_shard(path, goals, tolerant):
    lines = [E3_HEADER.rstrip("\n")]
    # header is 4 lines; goal k is on line 5 + k
    for k, g in goals:
        if tolerant:
            lines.append(f"Goal ({g}) \\/ True. Proof. first [ left; timeout 120 tr_solve | "
                         f"idtac \"E3MISMATCH {k}\"; right; exact I ]. Qed.")
        else:
            lines.append(f"Goal {g}. Proof. timeout 120 tr_solve. Qed.")
    path.write_text("\n".join(lines) + "\n")


def run_e3(pid, goals, shard=48, timeout=1500):
    """goals: list of Coq propositions.  Each shard file is first compiled with
    every goal closed by `tr_solve ... Qed` (kernel-checked); a shard that does
    not compile is compiled again in a form that lists the goals `tr_solve`
    cannot close.  Returns (mismatching goal indices, number of shards whose
    strict form compiled, [(first index, log)] of shards that could not be
    evaluated at all)."""
    d = cm.scratch() / f"e3_{pid}_{len(list(cm.scratch().glob('e3_*')))}"
    d.mkdir()
    shards = []
    for si, k in enumerate(range(0, len(goals), shard)):
        shards.append((si, [(i, goals[i]) for i in range(k, min(k + shard, len(goals)))]))

    def one(sh):
        si, gl = sh
        p = d / f"E3_{pid}_{si}.v"
        _write_shard(p, gl, False)
        rc, out = cm.coqc_file(p, timeout=timeout)
        if rc == 0:
            return si, True, [], None
        p2 = d / f"E3_{pid}_{si}_t.v"
        _write_shard(p2, gl, True)
        rc2, out2 = cm.coqc_file(p2, timeout=timeout)
        bad = [int(m) for m in re.findall(r"E3MISMATCH (\d+)", out2)]
        if rc2 != 0 or not bad:
            return si, False, bad, (out[-1500:] + "\n---- tolerant form ----\n" + out2[-1500:])
        return si, False, bad, None

    bad, nok, failed = [], 0, []
    with ThreadPoolExecutor(max_workers=cm.NCPU) as exr:
        for si, ok, b, log in exr.map(one, shards):
            if ok:
                nok += 1
            bad += b
            if log is not None:
                failed.append((shards[si][1][0][0], log))
    return sorted(set(bad)), nok, len(shards), failed


# ----------------------------------------------------------------------------
# running the implementation

def call(t, method, arr):
    """t.<method>(arr) -> (list of floats | None when it raised, exception name)"""
    f = {"fwd": t.forward, "bwd": t.backward, "jac": t.jacobian}[method]
    try:
        with np.errstate(all="ignore"):
            r = f(np.array(arr, dtype=np.float64))
        return [float(v) for v in np.asarray(r, dtype=np.float64).ravel()], None
    except Exception as e:      # noqa: BLE001 - any exception of the implementation is an outcome
        return None, type(e).__name__


def softmax_rows(rng, n_rows, n_cols, smax=0.999):
    rows = []
    for _ in range(n_rows):
        g = [rng.gammavariate(rng.choice([0.5, 1.0, 3.0]), 1.0) + 1e-9 for _ in range(n_cols)]
        s = rng.choice([0.5, 0.9, 0.1, 1e-3, smax, rng.uniform(0.01, smax)])
        tot = sum(g)
        rows.append([v / tot * s for v in g])
    return rows
