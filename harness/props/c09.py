"""C09 - CSV files with comment headers round-trip through write_csv / read_csv.

Correspondence (exact, inside Coq) of Model/CsvHeader.v with csv.py:
  _csvhead, _header2comment, the header loop of read_csv (on text files the
  harness writes and on the files write_csv itself produced), pathlib's
  stem/suffix, PurePosixPath normalisation, and the file-name logic of
  write_csv/read_csv observed on real directories (listing + zip members +
  outcome of read_csv), with stale files.
Oracle (independent of the model): full write_csv -> read_csv round trips on
generated frames; exact rational comparison of the numeric values.  The frames
are built through every everyday route to a DataFrame (default RangeIndex;
explicit integer / text / float / date / time-zone aware / two-level row labels;
sorted, filtered, strided, reversed, concatenated frames, i.e. permuted, gapped
and duplicated integer labels, views of larger frames; single 2-D blocks in C
and Fortran order; narrower integer dtypes): with write_index=False the cells by
POSITION are what the property speaks of, whatever the labels.
Sessions: ONE directory (and ONE archive) taken through a sequence of
write_csv / read_csv / file removals in one process, the same path strings
re-used under changing storage modes; after each write the frame just written
must be read back under its name (every step also goes through the model)."""
import gzip
import io
import json
import os
import re
import shutil
import string
import sys
import zipfile
from fractions import Fraction
from pathlib import Path, PurePosixPath

from harness import common as cm

PID = "C09"
HEADER = ("From Coq Require Import ZArith NArith List String Ascii.\n"
          "From Hy Require Import Base.Num Model.CsvHeader.\n"
          "Open Scope string_scope.")

RESERVED = ["nrow", "ncol", "time_generated", "author", "source_file", "work_dir", "python_version",
            "pandas_version", "numpy_version", "python_inc", "python_lib"]


# ----------------------------------------------------------------------------
# Coq terms

def cs(s):
    """Coq string term; characters outside printable ASCII are written as `ch <code>`."""
    parts, cur = [], []
    for c in s:
        o = ord(c)
        if o > 255:
            raise ValueError("non-latin character in a case string")
        if 32 <= o <= 126:
            cur.append('""' if c == '"' else c)
        else:
            if cur:
                parts.append('"' + "".join(cur) + '"')
                cur = []
            parts.append(f"ch {o}")
    if cur or not parts:
        parts.append('"' + "".join(cur) + '"')
    if len(parts) == 1:
        return parts[0] if parts[0].startswith('"') else f"({parts[0]})"
    return "(" + " ++ ".join(parts) + ")"


def cslist(l):
    return "[" + "; ".join(cs(x) for x in l) + "]"


def cdict(items):
    return "[" + "; ".join(f"({cs(k)}, {cs(v)})" for k, v in items) + "]"


def cn(n):
    return f"{int(n)}%N"


def cmembers(ms):
    return "[" + "; ".join(f"({cs(k)}, {cm.coq_z(t)})" for k, t in ms) + "]"


def ckind(k):
    if k[0] == "text":
        return f"KText {cm.coq_z(k[1])}"
    if k[0] == "gz":
        return f"KGz {cm.coq_z(k[1])}"
    return f"KZip {cmembers(k[1])}"


def cfs(fs):
    return "[" + "; ".join(f"({cs(n)}, {ckind(k)})" for n, k in fs) + "]"


def coutcome(o):
    return f"(ROk {cm.coq_z(o[1])})" if o[0] == "ok" else {"notfound": "RNotFound", "nomember": "RNoMember",
                                                          "badfile": "RBadFile"}.get(o[0], "ROther")


# ----------------------------------------------------------------------------
# generators (everything from ctx.rng)

LOWER = string.ascii_lowercase
KEYCH = LOWER + string.digits + "_"
PRINT = "".join(chr(i) for i in range(32, 127))
SPACES = [" ", " ", " ", "\t", "\x0b", "\x0c", "\x1c", "\x1f"]


def rword(rng, alphabet, lo, hi):
    return "".join(rng.choice(alphabet) for _ in range(rng.randint(lo, hi)))


def okkey(rng):
    while True:
        k = rword(rng, KEYCH, 1, rng.choice([3, 8, 25]))
        if k not in RESERVED and not k.startswith("comment") and not k.startswith("python_environment"):
            return k


def okval(rng, dashes=False):
    """single-line value, stripped, non-empty; colons and hashes allowed"""
    kind = rng.random()
    if kind < 0.35:
        v = rword(rng, LOWER + "  ", 1, 20)
    elif kind < 0.7:
        v = rword(rng, LOWER + string.digits + " :#,;=/.-_\"'()", 1, 30)
    else:
        v = rword(rng, PRINT, 1, 40)
    if dashes:
        pos = rng.randint(0, len(v))
        v = v[:pos] + "-" * rng.choice([9, 10, 10, 11, 25]) + v[pos:]
    v = v.strip()
    return v if v else "x"


def gen_comment_in(rng):
    kind = rng.random()
    if kind < 0.15:
        return {"kind": "str", "value": okval(rng) if rng.random() < 0.8 else ""}
    if kind < 0.35:
        n = rng.choice([0, 1, 2, 3, 5, 11, 12, 101])
        return {"kind": "list", "items": [okval(rng) for _ in range(n)]}
    n = rng.choice([0, 1, 2, 3, 4, 6])
    items, seen = [], set()
    for _ in range(n):
        r = rng.random()
        if r < 0.5:
            k = okkey(rng)
        elif r < 0.8:
            k = rword(rng, LOWER + string.ascii_uppercase + ": _-", 0, 12)   # upper case, colons, blanks
        else:
            k = rword(rng, PRINT, 1, 30)
        if k in seen:
            continue
        seen.add(k)
        if items and rng.random() < 0.15:       # a key that collides with an earlier one once normalised
            k2 = items[0][0].upper() + ":"
            if k2 not in seen:
                seen.add(k2)
                items.append([k2, okval(rng)])
        items.append([k, okval(rng, dashes=rng.random() < 0.1) if rng.random() < 0.9 else ""])
    return {"kind": "dict", "items": items}


def gen_header_line(rng):
    """a header line as _header2comment receives it (no newline)"""
    r = rng.random()
    if r < 0.08:
        return "-" * rng.choice([9, 10, 11, 50])
    if r < 0.14:
        return rng.choice(["", " ", ":", " : ", "a:", ":b", "::", "a", "#", "# x : y"])
    if r < 0.24:     # no colon at all
        return rword(rng, PRINT.replace(":", ""), 0, 45)
    if r < 0.36:     # colon near the end of the window
        n = rng.choice([27, 28, 29, 30, 31, 32, 45])
        return rword(rng, LOWER + "_", n, n) + rng.choice([":", " : ", ":  "]) + rng.choice(["", "v", okval(rng)])
    if r < 0.5:      # keys needing normalisation
        k = rng.choice(SPACES + [""]) + rword(rng, LOWER + string.ascii_uppercase + "   _", 1, 14) \
            + rng.choice(SPACES + ["", ""])
        return k + rng.choice([":", " : ", " :", ": "]) + rng.choice(SPACES + [""]) + \
            rng.choice(["", " ", okval(rng)]) + rng.choice(SPACES + ["", ""])
    if r < 0.62:     # dashes somewhere
        k = okkey(rng)
        return rng.choice(["", "-" * rng.choice([3, 10]), k]) + rng.choice([" : ", ""]) + \
            okval(rng, dashes=True)
    if r < 0.7:      # arbitrary printable
        return rword(rng, PRINT + "\t", 0, 50)
    if r < 0.76:     # duplicate-prone short keys
        return rng.choice(["a", "b", "A ", "a b", "a  b", "comment_01", "comment_02"]) + " : " + okval(rng)
    return okkey(rng) + " : " + okval(rng)


COLCH = string.ascii_letters + string.digits + " -_"


def gen_colnames(rng, n, dots=False, blanks=True):
    names, seen = [], set()
    alpha = COLCH + ("..." if dots else "")
    while len(names) < n:
        s = rword(rng, alpha, 1, rng.choice([1, 3, 8, 12]))
        if not blanks:
            s = s.strip() or "c"
        elif rng.random() < 0.08:
            s = rng.choice([" ", "  ", "\t"]) + s if rng.random() < 0.5 else s + rng.choice([" ", "  "])
            s = s.replace("\t", " ") if not dots else s
        if s.strip() in seen or s.replace(".", "_").strip() in seen:
            continue
        seen.add(s.strip())
        seen.add(s.replace(".", "_").strip())
        names.append(s)
    return names


NA_LIKE = {"", "#n/a", "#n/a n/a", "#na", "-1.#ind", "-1.#qnan", "-nan", "1.#ind", "1.#qnan", "<na>", "n/a",
           "na", "null", "nan", "none", "true", "false", "inf", "-inf", "+inf", "infinity", "-infinity",
           "+infinity", "yes", "no", "t", "f"}


def gen_text_cell(rng):
    while True:
        r = rng.random()
        if r < 0.4:
            s = rword(rng, LOWER + string.ascii_uppercase + " ", 1, 12)
        else:
            s = rword(rng, LOWER + string.digits + ',,"":#;. -_/()\'', 1, 16)
        s = s.strip()
        if not s or s.lower() in NA_LIKE or not re.search("[g-z]", s.lower()):
            continue          # a letter that cannot belong to a number / hexadecimal / exponent
        try:
            float(s)
            continue
        except ValueError:
            pass
        return s


FLOAT_FORMATS = ["%0.5f", "%0.5f", "%0.3f", "%0.1f", "%0.0f", "%0.10f", "%0.20f", "%.6e", "%.12e", "%g", None]


def gen_float(rng):
    r = rng.random()
    if r < 0.05:
        return rng.choice([0.0, -0.0, 1.0, -1.0, 0.5, 0.000005, 0.000015, 1e-7, -3e-9, 123456789.125, 1e15, -2.5e17])
    scale = 10.0 ** rng.randint(-4, 7)
    return rng.gauss(0.0, 1.0) * scale


def gen_float_zeroish(rng):
    """columns of dry days / zero flow: exact zeros of both signs, values below the resolution of the format"""
    r = rng.random()
    if r < 0.3:
        return 0.0
    if r < 0.36:
        return -0.0
    if r < 0.46:
        return rng.choice([1.0, -1.0]) * rng.choice([1e-9, 3e-7, 4e-6, 2e-12, 4.9e-324])
    return gen_float(rng)


INT_DTYPES = [("int8", 2 ** 7), ("int16", 2 ** 15), ("int32", 2 ** 31), ("uint8", None), ("uint32", None),
              ("uint64", None)]
TZS = [None, None, "UTC", "Europe/Paris", "Australia/Sydney", "America/New_York"]
DATE_STARTS = ["2001-01-01", "2021-03-27 22:00", "2021-10-30 23:00", "2022-04-02 12:00", "1999-12-31 23:00",
               "2020-02-28"]


def gen_frame_route(rng, nrows, coltypes):
    """how the DataFrame object is obtained from the cells (write_index=False: labels must not matter)"""
    n = nrows
    r = rng.random()
    if r < 0.16 or (n == 1 and r < 0.3):      # explicit integer labels
        k = rng.random()
        if k < 0.3:
            labels = rng.sample(range(n), n)                                     # a permutation of 0..n-1
        elif k < 0.55:
            labels = sorted(rng.sample(range(2 * n + 2), n))                    # gaps
        elif k < 0.7:
            o = rng.choice([1, 2, n, -1, -n, 10 ** 6])
            labels = [o + i for i in range(n)]                                   # shifted
        elif k < 0.85:
            labels = [rng.randrange(max(1, n // 2 + 1)) for _ in range(n)]       # duplicated labels
        else:
            labels = rng.sample(range(-n, 3 * n + 1), n)                         # anything
        fr = {"route": "labels", "labels": labels}
    elif r < 0.24:
        k = rng.random()
        if k < 0.5:
            labels = [f"row{i}" for i in rng.sample(range(n + 3), n)]
        elif k < 0.75:
            labels = [str(i) for i in rng.sample(range(n), n)]                   # digits as text
        else:
            labels = [rng.choice([0.0, 0.5, -1.0, float(i), i + 0.25]) for i in range(n)]
        fr = {"route": "labels", "labels": labels}
    elif r < 0.32:
        fr = {"route": "dates", "start": rng.choice(DATE_STARTS), "freq": rng.choice(["D", "h", "30min", "7D"]),
              "tz": rng.choice(TZS)}
    elif r < 0.36:
        fr = {"route": "multi", "labels": [[rng.randrange(3) for _ in range(n)], rng.sample(range(n), n)]}
    elif r < 0.46:
        fr = {"route": "reverse"}
    elif r < 0.54:
        fr = {"route": "stride", "step": rng.choice([2, 2, 3]), "offset": rng.choice([0, 0, 1, 2])}
    elif r < 0.64:
        fr = {"route": "mask", "keep": sorted(rng.sample(range(2 * n + rng.choice([0, 1, 3])), n)),
              "how": rng.choice(["getitem", "loc"])}
    elif r < 0.78:
        fr = {"route": "sort", "perm": rng.sample(range(n), n)}
    elif r < 0.86 and n >= 2:
        fr = {"route": "concat", "split": rng.randint(1, n - 1)}
    elif r < 0.94 and all(t == "float" for t in coltypes):
        fr = {"route": "block", "order": rng.choice(["C", "F", "T"])}
    else:
        fr = {"route": "range"}
    if rng.random() < 0.1 and fr["route"] in ("labels", "dates", "sort", "mask"):
        fr["index_name"] = rng.choice(["index", "idx", "time", "0"])
    return fr


def gen_roundtrip(rng, maxrows, frames=False):
    nrows = rng.choice([1, 1, 2, 3, rng.randint(1, maxrows)])
    if frames:
        nrows = rng.choice([2, 3, 4, rng.randint(1, maxrows), rng.randint(2, maxrows)])
    ncols = rng.randint(1, 6)
    names = gen_colnames(rng, ncols)
    cols = []
    allfloat = frames and rng.random() < 0.15
    for nm in names:
        t = "float" if allfloat else rng.choice(["float", "float", "int", "text"])
        col = {"name": nm, "type": t}
        if t == "float":
            g = gen_float_zeroish if rng.random() < (0.5 if frames else 0.15) else gen_float
            vals = [g(rng) for _ in range(nrows)]
        elif t == "int":
            big = rng.random() < 0.1
            vals = [rng.randint(-9 * 10 ** 18, 9 * 10 ** 18) if big else rng.randint(-10 ** 6, 10 ** 6)
                    for _ in range(nrows)]
            if rng.random() < 0.3:            # a narrower / unsigned integer dtype that holds the values
                dt, lim = rng.choice(INT_DTYPES)
                if lim is None:
                    vals = [abs(v) % (2 ** 8 if dt == "uint8" else 2 ** 32) if dt != "uint64" else abs(v)
                            for v in vals]
                else:
                    vals = [(v + lim) % (2 * lim) - lim for v in vals]
                col["dtype"] = dt
        else:
            vals = [gen_text_cell(rng) for _ in range(nrows)]
        col["values"] = vals
        cols.append(col)
    comment = []
    for _ in range(rng.choice([0, 1, 2, 3, 5])):
        k = okkey(rng)
        if k not in [c[0] for c in comment]:
            comment.append([k, okval(rng, dashes=rng.random() < 0.08)])
    stemname = rword(rng, LOWER + string.digits + "_-", 1, 8)
    if stemname.startswith("-"):
        stemname = "f" + stemname
    mode = rng.choice(["plain", "compress", "compress", "archive"])
    if mode == "plain":
        fname = stemname + rng.choice([".csv", ".csv", ".txt", ".dat", ""])
    elif mode == "compress":
        fname = stemname + rng.choice([".csv", ".csv", ".zip", ".zip", "", "", ".txt", ".CSV", ".csv.zip"])
    else:
        fname = rng.choice(["folder_01/", "a/b/", "sub-dir/x_y/"]) + stemname + rng.choice([".csv", ".csv", ".txt", ""])
    case = {"call": "roundtrip", "columns": cols, "comment": comment, "mode": mode, "filename": fname,
            "float_format": rng.choice(FLOAT_FORMATS), "sys": rng.random() < 0.3}
    if frames:
        case["frame"] = gen_frame_route(rng, nrows, [c["type"] for c in cols])
    return case


def gen_files(rng):
    S = rword(rng, LOWER, 1, 4)
    cands = [S, S + ".csv", S + ".gz", S + ".zip", S + ".csv.gz", S + ".txt", S + ".csv.zip", S + ".csv.csv",
             S + ".x.csv"]
    tagc = [100]

    def tag():
        tagc[0] += 1
        return tagc[0]
    pre = []
    if rng.random() < 0.6:
        for c in cands:
            if rng.random() < 0.22:
                if c.endswith(".gz"):
                    pre.append([c, ["gz", tag()]])
                elif c.endswith(".zip"):
                    ms = [[m, tag()] for m in [S + ".csv", S, S + ".zip", S + ".csv.csv", S + ".txt", "other.csv"]
                          if rng.random() < 0.35]
                    pre.append([c, ["zip", ms]])
                else:
                    pre.append([c, ["text", tag()]])
    name = rng.choice(cands + [S + ".dat", S + ".tar.gz", S + ".CSV", S + ".csv", S + ".zip", S])
    mode = rng.choice(["plain", "compress", "compress"])
    rname = name if rng.random() < 0.7 else rng.choice(cands)
    return {"call": "files", "pre": pre, "mode": mode, "name": name, "tag": 7, "rname": rname}


def gen_archive(rng):
    S = rword(rng, LOWER, 1, 4)
    paths = [f"folder_01/{S}.csv", f"a/b/{S}.csv", f"./a//b/{S}.csv", f"a/./b/{S}.csv", f"{S}.csv", f"{S}",
             f"a/b/{S}.csv/", f"x/../{S}.csv", f"a/b/{S}", f".//{S}.csv", f"a/b/./{S}.csv"]
    pre = [[str(PurePosixPath(p)), 200 + i] for i, p in enumerate(paths) if rng.random() < 0.12]
    pre = [list(x) for x in dict((a, b) for a, b in pre).items()]
    path = rng.choice(paths)
    rpath = path if rng.random() < 0.6 else rng.choice(paths)
    return {"call": "archive", "pre": pre, "path": path, "tag": 7, "rpath": rpath}


def gen_stale(rng, S, cands, tagc):
    pre = []
    for c in cands:
        if rng.random() < 0.22:
            tagc[0] += 1
            if c.endswith(".gz"):
                pre.append([c, ["gz", tagc[0]]])
            elif c.endswith(".zip"):
                ms = []
                for m in [S + ".csv", S, S + ".zip", S + ".csv.csv", S + ".txt", "other.csv"]:
                    if rng.random() < 0.35:
                        tagc[0] += 1
                        ms.append([m, tagc[0]])
                pre.append([c, ["zip", ms]])
            else:
                pre.append([c, ["text", tagc[0]]])
    return pre


def gen_session(rng):
    """one directory, one process: a few names written again and again under changing storage modes, files
    removed in between, each write followed by a read"""
    S = rword(rng, LOWER, 1, 4)
    cands = [S, S + ".csv", S + ".gz", S + ".zip", S + ".csv.gz", S + ".txt", S + ".csv.zip", S + ".csv.csv",
             S + ".x.csv"]
    tagc = [100]
    pre = gen_stale(rng, S, cands, tagc) if rng.random() < 0.3 else []
    shapes = [S, S + ".csv", S + ".csv", S + ".zip", S + ".txt", S + ".dat", S + ".CSV", S + ".x.csv",
              S + ".csv.zip"]
    pool = []
    for nm in rng.sample(shapes, rng.choice([1, 1, 2, 2, 3])):
        if nm not in pool:
            pool.append(nm)
    steps, tag = [], 300
    for i in range(rng.choice([2, 3, 4, 5, 6, 8])):
        name = rng.choice(pool)
        if rng.random() < (0.45 if i else 0.15):
            rm = [name] if rng.random() < 0.7 else []
            for c in rng.sample(cands, rng.choice([0, 0, 1, 2])):
                if c not in rm:
                    rm.append(c)
            if rng.random() < 0.3:
                rm.append(Path(name).stem + ".zip")
            if rm:
                steps.append({"op": "remove", "names": rm})
        tag += 1
        plain_able = Path(name).suffix not in (".gz", ".zip")
        mode = rng.choice(["plain", "compress"]) if plain_able or rng.random() < 0.2 else "compress"
        r = rng.random()
        rname = name if r < 0.75 else rng.choice(pool) if r < 0.9 else rng.choice(cands)
        steps.append({"op": "write", "mode": mode, "name": name, "tag": tag, "rname": rname})
    return {"call": "session", "pre": pre, "aspath": rng.random() < 0.6, "steps": steps}


def gen_arcsession(rng):
    """one caller-supplied archive taken through several write_csv calls (members in sub-folders, written twice,
    normalised paths), each followed by a read"""
    S = rword(rng, LOWER, 1, 4)
    paths = [f"folder_01/{S}.csv", f"a/b/{S}.csv", f"./a//b/{S}.csv", f"a/./b/{S}.csv", f"{S}.csv", f"{S}",
             f"a/b/{S}", f".//{S}.csv", f"a/b/{S}.txt", f"a/{S}.csv", f"b/{S}.csv", f"sub-dir/x_y/{S}.csv"]
    pre = [[str(PurePosixPath(p)), 200 + i] for i, p in enumerate(paths) if rng.random() < 0.06]
    pre = [list(x) for x in dict((a, b) for a, b in pre).items()]
    steps, tag, used = [], 300, []
    for _ in range(rng.choice([2, 3, 4, 6])):
        tag += 1
        path = rng.choice(paths)
        used.append(path)
        r = rng.random()
        rpath = path if r < 0.6 else rng.choice(used) if r < 0.85 else rng.choice(paths)
        steps.append({"path": path, "tag": tag, "rpath": rpath})
    return {"call": "arcsession", "pre": pre, "handle": rng.choice(["reopen", "reopen", "append", "write"]),
            "steps": steps}


# ----------------------------------------------------------------------------
# running the implementation

class Impl:
    def __init__(self, ctx):
        cm.use_impl()
        import numpy as np
        import pandas as pd
        from hydrodiy.io import csv
        self.np, self.pd, self.csv = np, pd, csv
        self.root = cm.scratch() / "c09"
        shutil.rmtree(self.root, ignore_errors=True)
        self.root.mkdir(parents=True)
        self.src = self.root / "script.py"
        self.src.write_text("# source\n")
        self.n = 0

    def fresh(self):
        self.n += 1
        d = self.root / f"d{self.n}"
        d.mkdir()
        return d

    def done(self, d):
        shutil.rmtree(d, ignore_errors=True)

    # --- _csvhead
    def csvhead(self, case):
        c = case["comment"]
        if c["kind"] == "str":
            arg = c["value"]
        elif c["kind"] == "list":
            arg = list(c["items"]) if case.get("aslist", True) else tuple(c["items"])
        else:
            arg = {k: v for k, v in c["items"]}
        head = self.csv._csvhead(case["nrow"], case["ncol"], arg, source_file=self.src,
                                 write_sys_info=case["sys"], author=case["author"])
        return [str(x) for x in head]

    def envinfo(self, case):
        if not case["sys"]:
            return f"(NoSys {cs(self.src.name)})"
        dist = "None"
        if self.csv.HAS_DISTUTILS:
            from distutils.sysconfig import get_python_inc, get_python_lib
            dist = f"(Some ({cs(get_python_inc())}, {cs(get_python_lib())}))"
        return ("(WithSys {| s_source := %s; s_workdir := %s; s_osname := %s; s_python := %s; "
                "s_pandas := %s; s_numpy := %s; s_distutils := %s |})" % (
                    cs(str(self.src)), cs(os.getcwd()), cs(os.name), cs(sys.version.replace("\n", " ")),
                    cs(self.pd.__version__), cs(self.np.__version__), dist))

    # --- text file + read_csv
    def read_text(self, lines, colline, ncols):
        d = self.fresh()
        try:
            p = d / "f.csv"
            with open(p, "w", newline="\n") as fo:
                for l in lines:
                    fo.write(l + "\n")
                fo.write(colline + "\n")
                fo.write(",".join(["1"] * ncols) + "\n")
            data, comment = self.csv.read_csv(p)
            return list(comment.items()), [str(c) for c in data.columns]
        finally:
            self.done(d)

    # --- directories
    @staticmethod
    def small_text(tag):
        return f"# stale\nv\n{tag}\n"

    def populate(self, d, pre):
        for name, k in pre:
            p = d / name
            if k[0] == "text":
                p.write_text(self.small_text(k[1]))
            elif k[0] == "gz":
                with gzip.open(p, "wb") as g:
                    g.write(self.small_text(k[1]).encode())
            else:
                with zipfile.ZipFile(p, "w") as z:
                    for m, t in k[1]:
                        z.writestr(m, self.small_text(t))

    @staticmethod
    def tag_of(txt):
        ls = [l for l in txt.splitlines() if l.strip()]
        return int(ls[-1])

    def listing(self, d):
        out = []
        for p in sorted(d.iterdir(), key=lambda q: q.name.encode()):
            raw = p.read_bytes()
            if zipfile.is_zipfile(p):
                with zipfile.ZipFile(p) as z:
                    out.append([p.name, ["zip", [[m, self.tag_of(z.read(m).decode())] for m in z.namelist()]]])
            elif raw[:2] == b"\x1f\x8b":
                out.append([p.name, ["gz", self.tag_of(gzip.decompress(raw).decode())]])
            else:
                out.append([p.name, ["text", self.tag_of(raw.decode())]])
        return out

    def outcome(self, fn):
        try:
            data, _ = fn()
            return ["ok", int(data.iloc[0, 0])]
        except KeyError:
            return ["nomember"]
        except (zipfile.BadZipFile, gzip.BadGzipFile):
            return ["badfile"]
        except ValueError as e:
            if "Cannot find valid file" in str(e):
                return ["notfound"]
            return ["other", f"ValueError: {e}"]
        except Exception as e:  # noqa
            return ["other", f"{type(e).__name__}: {e}"]

    def outcome_run(self, fn):
        """outcome + the caller's comment `run` that came back with it"""
        got = {}

        def fn2():
            data, comment = fn()
            got["run"] = comment.get("run")
            return data, comment
        out = self.outcome(fn2)
        return out, got.get("run")

    def session(self, case):
        """[None | dict(pre, listing, outcome, run)] per step"""
        d = self.fresh()
        wrap = (lambda q: q) if case["aspath"] else str
        res = []
        try:
            self.populate(d, case["pre"])
            for st in case["steps"]:
                if st["op"] == "remove":
                    for nm in st["names"]:
                        (d / nm).unlink(missing_ok=True)
                    res.append(None)
                    continue
                pre = self.listing(d)
                df = self.pd.DataFrame({"v": [st["tag"]]})
                self.csv.write_csv(df, wrap(d / st["name"]), {"run": f"r{st['tag']}"}, self.src,
                                   compress=st["mode"] == "compress", write_sys_info=False)
                lst = self.listing(d)
                out, run = self.outcome_run(lambda: self.csv.read_csv(wrap(d / st["rname"])))
                res.append({"pre": pre, "listing": lst, "outcome": out, "run": run})
            return res
        finally:
            self.done(d)

    def arcsession(self, case):
        """dict(pre, members | None when refused, outcome, run) per step"""
        d = self.fresh()
        farc = d / "arc.zip"
        res = []

        def members_of(arc):
            return [[m, self.tag_of(arc.read(m).decode())] for m in arc.namelist()]

        def write(arc, st):
            df = self.pd.DataFrame({"v": [st["tag"]]})
            try:
                self.csv.write_csv(df, st["path"], {"run": f"r{st['tag']}"}, self.src, archive=arc,
                                   write_sys_info=False)
                return False
            except ValueError as e:
                if "already exists" not in str(e):
                    raise
                return True
        try:
            one = None
            if case["handle"] == "write":         # one handle, opened for writing, kept for the whole session
                one = zipfile.ZipFile(farc, "w")
                for m, t in case["pre"]:
                    one.writestr(m, self.small_text(t))
            else:
                with zipfile.ZipFile(farc, "w") as arc:
                    for m, t in case["pre"]:
                        arc.writestr(m, self.small_text(t))
                if case["handle"] == "append":    # one handle, opened for appending
                    one = zipfile.ZipFile(farc, "a")
            try:
                for st in case["steps"]:
                    if one is not None:
                        pre = members_of(one)
                        refused = write(one, st)
                        members = members_of(one)
                        out, run = self.outcome_run(lambda: self.csv.read_csv(st["rpath"], archive=one))
                    else:
                        with zipfile.ZipFile(farc, "r") as arc:
                            pre = members_of(arc)
                        with zipfile.ZipFile(farc, "a") as arc:
                            refused = write(arc, st)
                        with zipfile.ZipFile(farc, "r") as arc:
                            members = members_of(arc)
                            out, run = self.outcome_run(lambda: self.csv.read_csv(st["rpath"], archive=arc))
                    res.append({"pre": pre, "members": None if refused else members, "outcome": out, "run": run})
            finally:
                if one is not None:
                    one.close()
            return res
        finally:
            self.done(d)

    # --- the DataFrame object of a round trip
    def build_frame(self, case):
        pd, np = self.pd, self.np
        cols = case["columns"]
        n = len(cols[0]["values"])
        fr = case.get("frame") or {"route": "range"}
        route = fr["route"]

        def mk(rows, index=None, extra=None):
            data = {c["name"]: [c["values"][i] for i in rows] for c in cols}
            if extra:
                data.update(extra)
            return pd.DataFrame(data, index=index)

        if route == "range":
            df = mk(range(n))
        elif route == "labels":
            df = mk(range(n), index=list(fr["labels"]))
        elif route == "dates":
            df = mk(range(n), index=pd.date_range(fr["start"], periods=n, freq=fr["freq"], tz=fr["tz"]))
        elif route == "multi":
            df = mk(range(n), index=pd.MultiIndex.from_arrays([list(x) for x in fr["labels"]]))
        elif route == "reverse":          # df.iloc[::-1] of the frame stored upside down
            df = mk(range(n - 1, -1, -1)).iloc[::-1]
        elif route == "stride":           # every step-th row of a longer frame
            st, o = fr["step"], fr["offset"]
            m = o + st * (n - 1) + 1
            rows = [(j - o) // st if j >= o and (j - o) % st == 0 else j % n for j in range(m)]
            df = mk(rows).iloc[o::st]
        elif route == "mask":             # a filtered frame
            keep = list(fr["keep"])
            m = max(keep) + 1
            pos = {j: i for i, j in enumerate(keep)}
            rows = [pos.get(j, j % n) for j in range(m)]
            mask = np.zeros(m, dtype=bool)
            mask[keep] = True
            big = mk(rows)
            df = big.loc[mask] if fr.get("how") == "loc" else big[mask]
        elif route == "sort":             # a frame sorted by a column
            perm = list(fr["perm"])
            df = mk(perm, extra={"sort#key": perm}).sort_values("sort#key").drop(columns="sort#key")
        elif route == "concat":           # two frames put on top of each other, labels kept
            k = fr["split"]
            df = pd.concat([mk(range(k)), mk(range(k, n))])
        elif route == "block":            # one 2-D block of floats
            if fr["order"] == "T":
                arr = np.array([c["values"] for c in cols], dtype=np.float64).T
            else:
                arr = np.array([[c["values"][i] for c in cols] for i in range(n)], dtype=np.float64,
                               order=fr["order"])
            df = pd.DataFrame(arr, columns=[c["name"] for c in cols])
        else:
            raise ValueError(f"unknown frame route {route!r}")
        dts = {c["name"]: c["dtype"] for c in cols if c.get("dtype")}
        if dts:
            df = df.astype(dts)
        if fr.get("index_name") is not None:
            df.index.name = fr["index_name"]
        if df.shape != (n, len(cols)) or [str(c) for c in df.columns] != [c["name"] for c in cols]:
            raise AssertionError("harness: frame route did not produce the cells of the case")
        for j, c in enumerate(cols):
            if [x for x in df.iloc[:, j].tolist()] != list(c["values"]):
                raise AssertionError(f"harness: frame route {route!r} did not produce the cells of the case")
        return df

    def files(self, case):
        d = self.fresh()
        try:
            self.populate(d, case["pre"])
            df = self.pd.DataFrame({"v": [case["tag"]]})
            self.csv.write_csv(df, d / case["name"], "c", self.src, compress=case["mode"] == "compress",
                               write_sys_info=False)
            lst = self.listing(d)
            out = self.outcome(lambda: self.csv.read_csv(d / case["rname"]))
            return lst, out
        finally:
            self.done(d)

    def archive(self, case):
        d = self.fresh()
        try:
            farc = d / "arc.zip"
            df = self.pd.DataFrame({"v": [case["tag"]]})
            with zipfile.ZipFile(farc, "w") as arc:
                for m, t in case["pre"]:
                    arc.writestr(m, self.small_text(t))
                try:
                    self.csv.write_csv(df, case["path"], "c", self.src, archive=arc, write_sys_info=False)
                    refused = False
                except ValueError as e:
                    if "already exists" not in str(e):
                        raise
                    refused = True
            with zipfile.ZipFile(farc, "r") as arc:
                members = [[m, self.tag_of(arc.read(m).decode())] for m in arc.namelist()]
                out = self.outcome(lambda: self.csv.read_csv(case["rpath"], archive=arc))
            return (None if refused else members), out
        finally:
            self.done(d)

    # --- full round trip
    def roundtrip(self, case):
        """returns dict(error=...) or dict(columns, nrows, values (by position), comment, text)"""
        pd = self.pd
        d = self.fresh()
        try:
            df = self.build_frame(case)
            comment = {k: v for k, v in case["comment"]}
            kw = dict(float_format=case["float_format"], write_sys_info=case["sys"], author="tester")
            text = None
            try:
                if case["mode"] == "archive":
                    farc = d / "arc.zip"
                    with zipfile.ZipFile(farc, "w") as arc:
                        self.csv.write_csv(df, case["filename"], comment, self.src, archive=arc, **kw)
                    with zipfile.ZipFile(farc, "r") as arc:
                        names = arc.namelist()
                        if len(names) == 1:
                            text = arc.read(names[0]).decode()
                        df2, c2 = self.csv.read_csv(case["filename"], archive=arc)
                else:
                    self.csv.write_csv(df, d / case["filename"], comment, self.src,
                                       compress=case["mode"] == "compress", **kw)
                    files = sorted(p.name for p in d.iterdir())
                    if len(files) == 1:
                        p = d / files[0]
                        if zipfile.is_zipfile(p):
                            with zipfile.ZipFile(p) as z:
                                if len(z.namelist()) == 1:
                                    text = z.read(z.namelist()[0]).decode()
                        else:
                            text = p.read_text()
                    df2, c2 = self.csv.read_csv(d / case["filename"])
            except Exception as e:  # noqa
                return {"error": f"{type(e).__name__}: {e}", "etype": type(e).__name__, "text": text}
            vals = []
            for j in range(df2.shape[1]):
                col = df2.iloc[:, j]
                vals.append([col.iloc[i] for i in range(len(col))])
            return {"columns": [str(c) for c in df2.columns], "nrows": int(df2.shape[0]), "values": vals,
                    "comment": list(c2.items()), "text": text}
        finally:
            self.done(d)


# ----------------------------------------------------------------------------
# oracle of the round trip (independent of the model)

def parser_truncation(text):
    """pandas' default float parser keeps the first 17 digits of the printed number (leading zeros
    included) and drops the others: one unit of the 17th digit, as an exact rational (0 when the text
    has at most 17 digits)"""
    m = re.fullmatch(r"[-+]?(\d*)(?:\.(\d*))?(?:[eE]([-+]?\d+))?", text)
    if not m:
        raise ValueError(text)
    ip, fp, ex = m.group(1) or "", m.group(2) or "", int(m.group(3) or 0)
    if len(ip) + len(fp) <= 17:
        return Fraction(0)
    return Fraction(10) ** (len(ip) - 17 + ex)


def float_tolerance(fmt, x):
    """largest admissible |x' - x|, as an exact rational: half a unit of the last digit the format prints,
    plus what the CSV parser of pandas (library, not hydrodiy) loses: the digits beyond the 17th and a few ulps"""
    ax = abs(Fraction(x))
    text = repr(float(x)) if fmt is None else fmt % x
    slack = 2 * parser_truncation(text) + ax / 2 ** 48 + Fraction(1, 10 ** 300)
    if fmt is None:
        return slack
    m = re.fullmatch(r"%0?\.(\d+)f", fmt)
    if m:
        return Fraction(1, 2 * 10 ** int(m.group(1))) + slack
    m = re.fullmatch(r"%\.(\d+)e", fmt)
    if m:
        return ax / (2 * 10 ** int(m.group(1))) + slack
    if fmt == "%g":
        return ax / (2 * 10 ** 5) + slack
    raise ValueError(fmt)


def judge_roundtrip(case, res):
    """list of (key, what) failures of the property on this round trip"""
    names = [c["name"] for c in case["columns"]]
    nrows = len(case["columns"][0]["values"])
    blank = names[0] != names[0].lstrip() or names[-1] != names[-1].rstrip()
    mode = case["mode"]
    if "error" in res:
        if res["etype"] == "KeyError" and mode == "compress":
            return [("C09/names/compressed-member-not-found",
                     f"write_csv(compress=True) to {case['filename']!r} cannot be read back: {res['error']}")]
        stripped = list(names)
        stripped[0] = stripped[0].lstrip()
        stripped[-1] = stripped[-1].rstrip()
        if blank and (len(set(stripped)) < len(stripped) or "" in stripped):
            return [("C09/roundtrip/column-name-blank-stripped",
                     f"column names {names!r}: read_csv fails after stripping the outer blanks: {res['error']}")]
        return [(f"C09/roundtrip/exception/{mode}/{res['etype']}", f"round trip raised {res['error']}")]
    out = []
    if res["columns"] != names:
        stripped = list(names)
        stripped[0] = stripped[0].lstrip()
        stripped[-1] = stripped[-1].rstrip()
        if blank and res["columns"] == stripped:
            out.append(("C09/roundtrip/column-name-blank-stripped",
                        f"column names {names!r} come back as {res['columns']!r}"))
        else:
            out.append(("C09/roundtrip/column-names", f"column names {names!r} come back as {res['columns']!r}"))
    if res["nrows"] != nrows:
        out.append(("C09/roundtrip/row-count", f"{nrows} rows written, {res['nrows']} read"))
        return out
    if len(res["values"]) != len(names):
        out.append(("C09/roundtrip/column-count", f"{len(names)} columns written, {len(res['values'])} read"))
        return out
    for j, c in enumerate(case["columns"]):
        got = res["values"][j]
        for i, x in enumerate(c["values"]):
            y = got[i]
            if c["type"] == "text":
                if not isinstance(y, str) or y != x:
                    out.append(("C09/roundtrip/text-value", f"text {x!r} in column {c['name']!r} comes back as {y!r}"))
                    break
            else:
                tn = type(y).__name__
                if isinstance(y, bool) or tn.startswith("bool"):
                    fy = None
                elif isinstance(y, int) or tn.startswith("int") or tn.startswith("uint"):
                    fy = Fraction(int(y))
                elif isinstance(y, float) or tn.startswith("float"):
                    fy = Fraction(float(y)) if float(y) == float(y) and abs(float(y)) != float("inf") else None
                else:
                    fy = None
                if fy is None:
                    out.append(("C09/roundtrip/numeric-value", f"number {x!r} comes back as {y!r}"))
                    break
                if c["type"] == "int":
                    if fy != x or "int" not in tn:
                        out.append(("C09/roundtrip/integer-value", f"integer {x!r} comes back as {y!r}"))
                        break
                else:
                    if abs(fy - Fraction(x)) > float_tolerance(case["float_format"], x):
                        out.append(("C09/roundtrip/numeric-value",
                                    f"{x!r} written with {case['float_format']!r} comes back as {y!r}"))
                        break
    cd = dict(res["comment"])
    for k, v in case["comment"]:
        if cd.get(k) != v:
            if re.search("-{10}", v) and k not in cd:
                out.append(("C09/roundtrip/comment-with-dashes-dropped",
                            f"comment {k!r}: {v!r} is not returned (contains ten dashes)"))
            else:
                out.append(("C09/roundtrip/comment-changed", f"comment {k!r}: {v!r} comes back as {cd.get(k)!r}"))
    if cd.get("nrow") != str(nrows) or cd.get("ncol") != str(len(names)):
        out.append(("C09/roundtrip/nrow-ncol",
                    f"recorded counts nrow={cd.get('nrow')!r} ncol={cd.get('ncol')!r} for a {nrows}x{len(names)} frame"))
    return out


def must_read_back(mode, name, pre_names):
    """hypotheses of the property on the directory (statement of C09_names_roundtrip_plain / _compress): a plain
    file under a name that does not announce a compressed file is read back whatever else the directory holds; a
    compressed file is read back unless an OLDER file shadows it - the name itself (when it is not the zip
    container that gets overwritten) or <stem>.gz, which read_csv tries before <stem>.zip"""
    p = Path(name)
    if mode == "plain":
        return p.suffix not in (".gz", ".zip")
    if p.suffix == ".zip":
        return True
    return name not in pre_names and (p.stem + ".gz") not in pre_names


SIMPLE_LINE = re.compile(r"([a-z0-9_]{1,25}) : (\S(?:.*\S)?)")


def judge_header_lines(lines, got):
    """function-level statement of the property: among stripped header lines, a
    line `key : value` with a plain key that occurs once must yield key -> value"""
    out = []
    keys = {}
    for l in lines:
        m = SIMPLE_LINE.fullmatch(l)
        if m:
            keys.setdefault(m.group(1), []).append(m.group(2))
    # keys produced by other lines (normalised keys of non-simple lines) may overwrite: only judge when
    # no other line starts (case-insensitively, blanks aside) with the same key followed by a colon
    gd = dict(got)
    for k, vs in keys.items():
        if len(vs) != 1 or k in RESERVED or k.startswith("comment"):
            continue
        others = [l for l in lines if not SIMPLE_LINE.fullmatch(l)
                  and re.sub(" +", "_", l.split(":")[0].strip().lower()) == k]
        if others:
            continue
        v = vs[0]
        if gd.get(k) != v:
            if re.search("-{10}", v):
                out.append(("C09/header2comment/comment-with-dashes-dropped",
                            f"header line {k + ' : ' + v!r} is not returned (value contains ten dashes)"))
            else:
                out.append(("C09/header2comment/comment-changed",
                            f"header line {k + ' : ' + v!r} gives {gd.get(k)!r}"))
    return out


# ----------------------------------------------------------------------------

FIXED_REPLAYS = [
    # DESIGN section 6 row 16: compress=True under a .zip / extension-less / non-.csv name
    {"call": "files", "pre": [], "mode": "compress", "name": "t.zip", "tag": 7, "rname": "t.zip"},
    {"call": "files", "pre": [], "mode": "compress", "name": "t", "tag": 7, "rname": "t"},
    {"call": "files", "pre": [], "mode": "compress", "name": "t.txt", "tag": 7, "rname": "t.txt"},
    {"call": "files", "pre": [], "mode": "compress", "name": "t.csv", "tag": 7, "rname": "t.csv"},
    {"call": "files", "pre": [], "mode": "plain", "name": "t.csv", "tag": 7, "rname": "t.csv"},
    # row 17: a comment value containing ten dashes
    {"call": "header2comment", "lines": ["k1 : v: 1 # x", "k2 : ---------- x", "-" * 50]},
    {"call": "roundtrip", "columns": [{"name": "a", "type": "float", "values": [1.5, 2.25]},
                                      {"name": "b c", "type": "text", "values": ["x,y", "q\"r: #s"]}],
     "comment": [["k1", "v: 1 # x"], ["k2", "---------- x"]], "mode": "plain", "filename": "t.csv",
     "float_format": "%0.5f", "sys": False},
    {"call": "roundtrip", "columns": [{"name": "a", "type": "int", "values": [1, 2]}],
     "comment": [["k1", "v"]], "mode": "compress", "filename": "t.zip", "float_format": "%0.5f", "sys": False},
    # row 17: outer blanks of the first / last column name
    {"call": "roundtrip", "columns": [{"name": " a", "type": "int", "values": [1, 2]},
                                      {"name": "b ", "type": "int", "values": [3, 4]}],
     "comment": [], "mode": "plain", "filename": "t.csv", "float_format": "%0.5f", "sys": False},
]


def run(ctx):
    ctx.rule = ("_csvhead on str/list/dict comments (keys with upper case, colons, collisions), with and without "
                "system information; _header2comment on lines built to reach every branch (rules of 9/10/11 dashes "
                "at the start or inside, colon at index 26..31 of the 30-character window, blank/empty values, keys "
                "with blanks/tabs/upper case, duplicates, colon-less lines up to the three-digit counter); read_csv "
                "header loop on written text files; pathlib stem/suffix and PurePosixPath normalisation; "
                "write_csv/read_csv on directories with stale files (plain/compress x 15 name shapes) and archives; "
                "full round trips (float/int/text columns, 11 float formats, plain/compress/archive); the same "
                "with the frame reached by each route to a DataFrame (explicit integer labels permuted / with gaps / "
                "shifted / duplicated, text, float, date, time-zone aware and two-level labels, reversed, strided, "
                "filtered, sorted and concatenated frames, 2-D float blocks in C/F order, integer dtypes of 8..64 "
                "bits, columns rich in zeros and values below the format's resolution); sessions in one directory "
                "(2..8 writes over 1..3 names, storage mode changed, files removed in between, read after each "
                "write, paths as str or Path) and on one archive (handle re-opened / kept open for appending / for "
                "writing); "
                "non-trivial = distinct (call, branch signature)")
    ctx.trusted = cm.STD_TRUST + [
        "pathlib/zipfile/gzip of CPython 3.12 are modelled (stem, suffix, PurePosixPath string, member lookup) and "
        "validated by the correspondence only",
        "Python's Unicode-aware str.strip/lower/sorted are modelled on ASCII text only (generators are ASCII)"]
    ctx.tested_not_proved = [
        "the CSV body: pandas to_csv/read_csv quoting, type inference, float formatting and parsing (numeric values "
        "to the precision of the float format, equal text values, same number of rows): round trips only",
        "pandas writes the column line as the comma-joined names when no quoting is needed (correspondence on the "
        "files write_csv produced)",
        "readline()/file iteration, zip and gzip containers, datetime/getuser/sys information strings"]
    proved = cm.prove(ctx)
    im = Impl(ctx)
    rng = ctx.rng
    terms, replays = [], []
    orc_fail = set()

    dist = {}

    def tally(*key):
        k = "/".join(str(x) for x in key)
        dist[k] = dist.get(k, 0) + 1

    def add(term, replay, sig):
        terms.append(term)
        replays.append(replay)
        ctx.count(sig)
        tally("cases", sig[0])
        if len(terms) % 250 == 1:
            ctx.sample({k: (v if len(str(v)) < 300 else str(v)[:300] + "...") for k, v in replay.items()})
        return len(terms) - 1

    def fail(idx, key, what):
        orc_fail.add(idx)
        ctx.failure(key, replays[idx], what)

    def do_case(case):
        cm.mark(case)
        c = case["call"]
        if c == "csvhead":
            head = im.csvhead(case)
            cmt = case["comment"]
            if cmt["kind"] == "str":
                cterm = f"(CStr {cs(cmt['value'])})"
                nkeys = 1
            elif cmt["kind"] == "list":
                cterm = f"(CList {cslist(cmt['items'])})"
                nkeys = len(set(range(len(cmt["items"]))))
            else:
                cterm = f"(CDict {cdict(cmt['items'])})"
                nkeys = len({re.sub(':', '', k).lower() for k, _ in cmt["items"]})
            # the time stamp and the resolved author are inputs of the model, read off the header itself
            tl = [l for l in head if l.startswith("# time_generated : ")]
            time = tl[-1][len("# time_generated : "):] if tl else ""
            author = case["author"]
            if author is None:
                al = [l for l in head if l.startswith("# author : ")]
                author = al[-1][len("# author : "):] if al else ""
            add(f"HHead {cn(case['nrow'])} {cn(case['ncol'])} {cterm} {cs(time)} {cs(author)} {im.envinfo(case)} "
                f"{cslist(head)}", dict(case, impl=head[:12]),
                ("csvhead", cmt["kind"], min(nkeys, 4), case["sys"], case["author"] is None,
                 cmt["kind"] == "dict" and nkeys < len(cmt["items"])))
        elif c == "header2comment":
            got = [[k, v] for k, v in im.csv._header2comment(list(case["lines"])).items()]
            ncomm = sum(1 for k, _ in got if k.startswith("comment_"))
            idx = add(f"HParse {cslist(case['lines'])} {cdict(got)}", dict(case, impl=got),
                      ("h2c", min(len(case["lines"]), 5), min(len(got), 5), min(ncomm, 3), ncomm >= 10,
                       any(re.search("-{10}", l) for l in case["lines"]),
                       any(re.match("-{10}", l) for l in case["lines"])))
            for key, what in judge_header_lines(case["lines"], got):
                fail(idx, key, what)
        elif c == "read_header":
            got, cols = im.read_text(case["lines"], case["colline"], case["ncols"])
            txt = "".join(l + "\n" for l in case["lines"]) + case["colline"] + "\n"
            idx = add(f"HRead {cs(txt)} {cdict(got)} {cslist(cols)}",
                      dict(case, impl_comment=got, impl_columns=cols),
                      ("read", min(len(case["lines"]), 4), min(len(cols), 3),
                       case["colline"] != case["colline"].strip(), "." in case["colline"]))
            stripped = [re.sub("^# *", "", l) for l in case["lines"]]
            for key, what in judge_header_lines(stripped, got):
                fail(idx, key.replace("header2comment", "read_csv"), what)
        elif c == "pathlib":
            p = Path(case["name"])
            add(f"HSuffix {cs(case['name'])} {cs(p.stem)} {cs(p.suffix)}",
                dict(case, impl=[p.stem, p.suffix]),
                ("pathlib", case["name"].count(".") if case["name"].count(".") < 3 else 3,
                 case["name"].startswith("."), case["name"].endswith("."), p.suffix != ""))
        elif c == "posixnorm":
            s = str(PurePosixPath(case["path"]))
            s2 = str(PurePosixPath(Path(case["path"])))
            add(f"HNorm {cs(case['path'])} {cs(s)}", dict(case, impl=s),
                ("norm", case["path"][:1] == "/", case["path"][:2] == "//", "//" in case["path"][1:],
                 "/./" in case["path"], s == case["path"]))
            add(f"HNorm {cs(case['path'])} {cs(s2)}", dict(case, impl=s2, via="Path"), ("norm-via-path",))
        elif c == "files":
            lst, out = im.files(case)
            idx = add(f"HFiles {cfs(case['pre'])} {'Compress' if case['mode'] == 'compress' else 'Plain'} "
                      f"{cs(case['name'])} {cm.coq_z(case['tag'])} {cfs(lst)} {cs(case['rname'])} {coutcome(out)}",
                      dict(case, impl_listing=lst, impl_outcome=out),
                      ("files", case["mode"], min(len(case["pre"]), 2), out[0], case["name"] == case["rname"],
                       Path(case["name"]).suffix))
            tally("files-outcome", case["mode"], out[0])
            # property: in a fresh directory, what was written under a name is read back under that name
            plain_ok = case["mode"] == "plain" and Path(case["name"]).suffix not in (".gz", ".zip")
            if not case["pre"] and case["rname"] == case["name"] and (case["mode"] == "compress" or plain_ok) \
                    and out != ["ok", case["tag"]]:
                key = "C09/names/compressed-member-not-found" if out[0] == "nomember" and case["mode"] == "compress" \
                    else f"C09/names/{case['mode']}-not-read-back/{out[0]}"
                fail(idx, key, f"write_csv({case['name']!r}, compress={case['mode'] == 'compress'}) then "
                               f"read_csv({case['rname']!r}) -> {out}; files {lst}")
        elif c == "archive":
            members, out = im.archive(case)
            earc = "None" if members is None else f"(Some {cmembers(members)})"
            idx = add(f"HArch {cmembers(case['pre'])} {cs(case['path'])} {cm.coq_z(case['tag'])} {earc} "
                      f"{cs(case['rpath'])} {coutcome(out)}",
                      dict(case, impl_members=members, impl_outcome=out),
                      ("archive", members is None, out[0], case["path"] == case["rpath"], min(len(case["pre"]), 2)))
            tally("archive-outcome", "refused" if members is None else "added", out[0])
            if members is not None and case["rpath"] == case["path"] and out != ["ok", case["tag"]]:
                fail(idx, "C09/names/archive-member-not-read-back",
                     f"write_csv({case['path']!r}, archive=...) then read_csv -> {out}; members {members}")
        elif c == "session":
            res = im.session(case)
            seen = {}
            for k, (st, r) in enumerate(zip(case["steps"], res)):
                if st["op"] != "write":
                    continue
                out = r["outcome"]
                rep = dict(case, step=k, impl_steps=res[:k + 1])
                earlier = seen.get(st["name"])
                idx = add(f"HFiles {cfs(r['pre'])} {'Compress' if st['mode'] == 'compress' else 'Plain'} "
                          f"{cs(st['name'])} {cm.coq_z(st['tag'])} {cfs(r['listing'])} {cs(st['rname'])} "
                          f"{coutcome(out)}", rep,
                          ("session", st["mode"], out[0], st["name"] == st["rname"], min(len(r["pre"]), 2),
                           "first" if earlier is None else "same-mode" if earlier == st["mode"] else "mode-changed",
                           k > 0 and case["steps"][k - 1]["op"] == "remove"))
                seen[st["name"]] = st["mode"]
                tally("session-outcome", st["mode"], out[0])
                # property: what was written under a name is read back under that name (directory hypotheses of
                # the theorems), whatever was written, read or removed before in this directory / process
                if st["rname"] == st["name"] and must_read_back(st["mode"], st["name"], [n for n, _ in r["pre"]]):
                    tally("session-judged", st["mode"])
                    how = (f"step {k} of a session in one directory: write_csv({st['name']!r}, "
                           f"compress={st['mode'] == 'compress'}) then read_csv({st['rname']!r}) -> {out}; "
                           f"files before {r['pre']}, after {r['listing']}; earlier steps {case['steps'][:k]}")
                    if out[0] == "ok" and out[1] != st["tag"]:
                        fail(idx, "C09/session/older-frame-read-back", how)
                    elif out[0] != "ok":
                        key = "C09/names/compressed-member-not-found" \
                            if out[0] == "nomember" and st["mode"] == "compress" and k == 0 and not case["pre"] \
                            else f"C09/session/{st['mode']}-not-read-back/{out[0]}"
                        fail(idx, key, how)
                    elif r["run"] != f"r{st['tag']}":
                        fail(idx, "C09/session/comment-changed",
                             how + f"; comment run={r['run']!r} instead of {'r' + str(st['tag'])!r}")
        elif c == "arcsession":
            res = im.arcsession(case)
            for k, (st, r) in enumerate(zip(case["steps"], res)):
                members, out = r["members"], r["outcome"]
                earc = "None" if members is None else f"(Some {cmembers(members)})"
                rep = dict(case, step=k, impl_steps=res[:k + 1])
                idx = add(f"HArch {cmembers(r['pre'])} {cs(st['path'])} {cm.coq_z(st['tag'])} {earc} "
                          f"{cs(st['rpath'])} {coutcome(out)}", rep,
                          ("arcsession", case["handle"], members is None, out[0], st["path"] == st["rpath"],
                           min(len(r["pre"]), 3)))
                tally("arcsession-outcome", case["handle"], "refused" if members is None else "added", out[0])
                if members is not None and st["rpath"] == st["path"]:
                    how = (f"step {k} of a session on one archive ({case['handle']}): write_csv({st['path']!r}, "
                           f"archive=...) then read_csv -> {out}; members {members}; earlier steps "
                           f"{case['steps'][:k]}")
                    if out[0] == "ok" and out[1] != st["tag"]:
                        fail(idx, "C09/session/archive-older-frame-read-back", how)
                    elif out[0] != "ok":
                        fail(idx, "C09/names/archive-member-not-read-back", how)
                    elif r["run"] != f"r{st['tag']}":
                        fail(idx, "C09/session/comment-changed",
                             how + f"; comment run={r['run']!r} instead of {'r' + str(st['tag'])!r}")
        elif c == "roundtrip":
            res = im.roundtrip(case)
            fails = judge_roundtrip(case, res)
            tally("roundtrip", case["mode"], "error" if "error" in res else "ok")
            tally("roundtrip-format", case["float_format"])
            route = (case.get("frame") or {}).get("route", "range")
            tally("roundtrip-frame", route)
            sig = ("roundtrip", case["mode"], Path(case["filename"]).suffix, case["float_format"],
                   tuple(sorted({c2["type"] for c2 in case["columns"]})), min(len(case["comment"]), 2),
                   "error" in res) if route == "range" else \
                  ("roundtrip-frame", route, case["mode"], case["float_format"] is None,
                   tuple(sorted({c2["type"] for c2 in case["columns"]})), "error" in res)
            rep = dict(case, impl={k: (v if k != "values" else str(v)[:400]) for k, v in res.items() if k != "text"})
            text = res.get("text")
            lines, nh = [], 0
            if text is not None:
                lines = text.split("\n")
                while nh < len(lines) and lines[nh].startswith("#"):
                    nh += 1
            if text is not None and "error" not in res and nh < len(lines) and '"' not in lines[nh]:
                # the file write_csv produced, through the model of the reader
                htxt = "".join(l + "\n" for l in lines[:nh + 1])
                idx = add(f"HRead {cs(htxt)} {cdict(res['comment'])} {cslist(res['columns'])}", rep, sig)
                # pandas writes the unquoted names joined by commas (assumption of the column-name theorem)
                ctx.count(("colline", lines[nh] == ",".join(c2["name"] for c2 in case["columns"])))
                if lines[nh] != ",".join(c2["name"] for c2 in case["columns"]):
                    ctx.notes.setdefault("colline_not_joined_names", []).append(
                        [lines[nh], [c2["name"] for c2 in case["columns"]]])
            else:
                ctx.count(sig)
                idx = None
            for key, what in fails:
                if idx is not None:
                    fail(idx, key, what)
                else:
                    ctx.failure(key, rep, what)
        else:
            raise ValueError(f"unknown case {c!r}")

    # ---- replay given on the command line, corpus, recorded defects
    first = []
    if getattr(ctx, "replay", None):
        r = ctx.replay.get("replay", ctx.replay)
        if isinstance(r, dict) and "first_mismatch" in r:
            r = r["first_mismatch"]
        if isinstance(r, dict) and "call" in r:
            first.append({k: v for k, v in r.items() if not k.startswith("impl")})
    for case in first + cm.load_corpus(PID) + FIXED_REPLAYS:
        do_case(json.loads(json.dumps(case)))

    # ---- _csvhead
    for _ in range(ctx.scale(160, 2000)):
        sysinfo = rng.random() < 0.4
        do_case({"call": "csvhead", "nrow": rng.choice([0, 1, 7, 10, 365, 10 ** 6, rng.randint(0, 10 ** 9)]),
                 "ncol": rng.choice([0, 1, 2, 12, rng.randint(0, 500)]), "comment": gen_comment_in(rng),
                 "sys": sysinfo, "author": rng.choice([None, "toto", "J. Doe: hydrologist", ""]),
                 "aslist": rng.random() < 0.7})
    # ---- _header2comment
    for _ in range(ctx.scale(450, 6000)):
        n = rng.choice([0, 1, 2, 3, 5, 8, 14])
        do_case({"call": "header2comment", "lines": [gen_header_line(rng) for _ in range(n)]})
    # the counter of colon-less lines: one, two and three digits
    do_case({"call": "header2comment", "lines": [f"line {i}" for i in range(1, 104)] + ["k : v", ""]})
    # ---- read_csv header loop
    for _ in range(ctx.scale(220, 3000)):
        n = rng.choice([0, 1, 2, 4, 9])
        lines = []
        for _i in range(n):
            body = gen_header_line(rng).replace("\r", " ")
            lines.append("#" + rng.choice(["", " ", " ", "  ", "#", "# ", " #"]) + body)
        ncols = rng.randint(1, 5)
        names = gen_colnames(rng, ncols, dots=rng.random() < 0.3)
        colline = rng.choice(["", "", "", " ", "\t"]) + ",".join(names) + rng.choice(["", "", "", " ", "  "])
        if colline.startswith("#") or not colline.strip():
            colline = "c" + colline
            names[0] = "c" + names[0]
        do_case({"call": "read_header", "lines": lines, "colline": colline, "ncols": ncols})
    # ---- pathlib / PurePosixPath
    for _ in range(ctx.scale(300, 3000)):
        nm = rword(rng, "abz019_-.. ", 1, 9)
        if nm in (".", "..") or not nm.strip():
            nm = "a" + nm
        do_case({"call": "pathlib", "name": nm})
    for nm in ["a", ".a", "a.", "a.b", ".a.b", "a..b", "a.b.", "..a", "a..", "...", "a.csv.gz", ".zip", "a.zip",
               "a.csv.zip"]:
        do_case({"call": "pathlib", "name": nm})
    for _ in range(ctx.scale(200, 2000)):
        do_case({"call": "posixnorm", "path": rword(rng, "ab..///", 0, 10)})
    for p in ["", ".", "/", "//", "///", "//a", "///a", "a/", "a//b", "./a", "a/./b", "a/..", "..", "a/b/."]:
        do_case({"call": "posixnorm", "path": p})
    # ---- names on real directories
    for _ in range(ctx.scale(350, 5000)):
        do_case(gen_files(rng))
    for _ in range(ctx.scale(120, 1500)):
        do_case(gen_archive(rng))
    # ---- sessions: one directory / one archive, names re-used, storage mode changed, files removed in between
    for _ in range(ctx.scale(70, 1000)):
        do_case(gen_session(rng))
    for _ in range(ctx.scale(20, 300)):
        do_case(gen_arcsession(rng))
    # ---- full round trips (oracle) + the reader model on the files produced
    maxrows = ctx.scale(12, 60)
    for _ in range(ctx.scale(400, 6000)):
        do_case(gen_roundtrip(rng, maxrows))
    # ---- the same, the frame reached by every route to a DataFrame (row labels, views, blocks, dtypes)
    for _ in range(ctx.scale(160, 2500)):
        do_case(gen_roundtrip(rng, maxrows, frames=True))

    bad, nshards, failed = cm.run_case_files(PID, HEADER, "hcase", "h_ok", terms, shard=700, max_bytes=250000)
    ctx.notes["correspondence_cases"] = len(terms)
    ctx.notes["distribution"] = dict(sorted(dist.items()))
    ctx.notes["correspondence_mismatches"] = len(bad)
    for k in range(nshards):
        ctx.obligation(f"Cases_{PID}_{k}.agree (model = implementation on the shard)", True)
    cm.settle(ctx, proved, bad, failed, orc_fail, lambda i: replays[i],
              "Model/CsvHeader.v vs io/csv.py")
    return ctx.finish()
