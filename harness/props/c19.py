"""C19 - batches partition the work; option grids enumerate every combination once."""
import json

from harness import common as cm

PID = "C19"
HEADER = ("From Coq Require Import ZArith List String.\nFrom Hy Require Import Base.Num Model.Hyruns.\n"
          "Open Scope string_scope.")

IDENTS = ["a", "ab", "abc", "month", "month2", "site_id", "x1", "x10", "alpha", "GR4J", "GR4", "calib",
          "obj_fun", "v2", "nse", "nse_log", "kge_x", "xkge"]
INTS = [0, 1, 2, 3, 10, 11, 12, 20, 21, 100, 101, 110, -1, -10, -11, 5, 7, 31, 13]


def cv(v):
    if isinstance(v, bool):
        raise TypeError
    if isinstance(v, int):
        return f"(VInt {cm.coq_z(v)})"
    return f"(VStr {cm.coq_string(v)})"


def cvlist(vs):
    return "[" + "; ".join(cv(v) for v in vs) + "]"


def cdict(d, f):
    return "[" + "; ".join(f"({cm.coq_string(k)}, {f(v)})" for k, v in d.items()) + "]"


def ckn(kn):
    return ("{| k_context := %s; k_taskopt := %s; k_manopt := %s |}"
            % tuple(cm.coq_string(kn[k]) for k in ("context_name", "task_options_name",
                                                   "manager_options_name")))


def cmanager(name, context, options, tasks):
    return ("{| m_name := %s; m_context := %s; m_options := %s; m_tasks := [%s] |}"
            % (cm.coq_string(name), cdict(context, cv), cdict(options, cvlist),
               "; ".join(cdict(t, cv) for t in tasks)))


def rand_spec(rng, maxprod=48):
    while True:
        spec = rand_spec1(rng)
        n = 1
        for v in spec.values():
            n *= len(v) if isinstance(v, list) else 1
        if n <= maxprod:
            return spec


def rand_spec1(rng):
    nopt = rng.randint(1, 4)
    keys = rng.sample(IDENTS, nopt)
    spec = {}
    for k in keys:
        kind = rng.random()
        if kind < 0.2:
            spec[k] = rng.choice([rng.choice(INTS), rng.choice(IDENTS)])  # bare scalar
        else:
            nv = rng.randint(1, 5)
            if rng.random() < 0.5:
                spec[k] = rng.sample(INTS, nv)
            else:
                spec[k] = rng.sample(IDENTS, nv)
    return spec


def rand_context(rng):
    n = rng.choice([0, 0, 1, 2, 3])
    keys = rng.sample(["ctx_a", "folder", "version", "nens", "tag"], n)
    return {k: rng.choice([rng.randint(0, 100), rng.choice(IDENTS)]) for k in keys}


KEYNAMES = [
    {"context_name": "context", "task_options_name": "options", "manager_options_name": "options"},
    {"context_name": "config", "task_options_name": "items", "manager_options_name": "options"},
    {"context_name": "ctx", "task_options_name": "opts", "manager_options_name": "all_opts"},
    {"context_name": "context", "task_options_name": "task_options", "manager_options_name": "taskid"},
]


def with_keynames(hyruns, kn, fn):
    try:
        for k, v in kn.items():
            hyruns.set_dict_keyname(k, v)
        return fn()
    finally:
        hyruns.reset_dict_keyname()


def mfield_term(key, val, kn):
    if key == "name":
        return f"MName {cm.coq_string(val)}"
    if key == "tasks":
        ts = []
        for td in val:
            items = []
            for k, v in td.items():
                if k == "taskid":
                    items.append(f"({cm.coq_string(k)}, TId {cm.coq_z(v)})")
                elif k == kn["context_name"]:
                    items.append(f"({cm.coq_string(k)}, TCtx {cdict(v, cv)})")
                elif k == kn["task_options_name"]:
                    items.append(f"({cm.coq_string(k)}, TOpts {cdict(v, cv)})")
                else:
                    raise KeyError(k)
            ts.append("[" + "; ".join(items) + "]")
        return "MTasks [" + "; ".join(ts) + "]"
    if key == kn["context_name"]:
        return f"MCtx {cdict(val, cv)}"
    if key == kn["manager_options_name"]:
        return f"MOpts {cdict(val, cvlist)}"
    raise KeyError(key)


def run(ctx):
    ctx.rule = ("get_batch: every (n,k,i) with n<=N, k in 0..n+1, i in -1..k (exhaustive), plus random n up "
                "to 1e6; SiteBatch.search on random duplicate-free site lists; option managers with 1-4 "
                "options of 1-5 values (ints, identifier strings, bare scalars), contexts, 4 key-name "
                "settings; JSON round trip; non-trivial = distinct (kind, shape) signature")
    ctx.trusted = cm.STD_TRUST + [
        "numpy.array_split sizes n//k+[i<n%k] and re.search on metacharacter-free strings are assumptions of the model, validated by the correspondence"]
    ctx.tested_not_proved = ["json.dump/json.load round trip (library)", "__str__/log glue"]
    # Props/PyTieScores.vo: the argument checks of get_batch as TRANSLATED from hyruns.py = the model
    proved = cm.prove(ctx, extractors=["pygen"], extra_targets=["Props/PyTieScores.vo"])
    cm.use_impl()
    from hydrodiy.io import hyruns
    rng = ctx.rng
    terms, replays = [], []
    orc_fail = set()

    def add(term, replay, sig):
        terms.append(term)
        replays.append(replay)
        ctx.count(sig)
        if len(terms) % 400 == 1:
            ctx.sample(replay)
        return len(terms) - 1

    def fail(idx, key, what):
        orc_fail.add(idx)
        ctx.failure(key, replays[idx], what)

    # ---- batches: exhaustive small + random large
    N = ctx.scale(26, 60)
    triples = []
    for n in range(0, N + 1):
        for k in range(0, n + 2):
            for i in range(-1, k + 1):
                triples.append((n, k, i))
    for _ in range(ctx.scale(300, 3000)):
        n = rng.randint(27, 3000)
        k = rng.randint(max(1, n // 40), n + 2)
        i = rng.randint(-1, k)
        triples.append((n, k, i))
    # large n, few batches: only (first element, length) are compared
    for _ in range(ctx.scale(200, 2000)):
        n = rng.randint(10 ** 3, 10 ** 6)
        k = rng.randint(1, 64)
        i = rng.randint(0, k - 1)
        b = hyruns.get_batch(n, k, i)
        ok_contig = bool((b[1:] - b[:-1] == 1).all()) if len(b) > 1 else True
        idx = add(f"HBatchSum {cm.coq_z(n)} {cm.coq_z(k)} {cm.coq_z(i)} {cm.coq_z(b[0])} {cm.coq_z(len(b))}",
                  {"call": "get_batch", "n": n, "k": k, "i": i, "impl_first": int(b[0]), "impl_len": len(b)},
                  ("batchsum", k, n % k == 0))
        if not ok_contig:
            fail(idx, "C19/get_batch/partition", f"get_batch({n},{k},{i}) is not contiguous")
    for (n, k, i) in triples:
        try:
            out = [int(x) for x in hyruns.get_batch(n, k, i)]
        except ValueError:
            out = None
        idx = add(f"HBatch {cm.coq_z(n)} {cm.coq_z(k)} {cm.coq_z(i)} {cm.coq_option(out, cm.coq_zlist)}",
                  {"call": "get_batch", "n": n, "k": k, "i": i, "impl": out},
                  ("batch", min(n, 5), out is None, n % max(k, 1) == 0))
        valid = n >= 1 and 1 <= k <= n and 0 <= i < k
        if valid != (out is not None):
            fail(idx, "C19/get_batch/rejection", f"get_batch({n},{k},{i}) accepted={out is not None}")
    # oracle: partition property per (n,k)
    nk = sorted({(n, k) for (n, k, i) in triples if 1 <= k <= n and (n <= 60 or k <= 40)})
    for (n, k) in nk:
        bs = [[int(x) for x in hyruns.get_batch(n, k, i)] for i in range(k)]
        flat = [x for b in bs for x in b]
        sizes = [len(b) for b in bs]
        ctx.count()
        if flat != list(range(n)) or max(sizes) - min(sizes) > 1:
            idx = add(f"HBatch {cm.coq_z(n)} {cm.coq_z(k)} 0%Z {cm.coq_option(bs[0], cm.coq_zlist)}",
                      {"call": "get_batch all batches", "n": n, "k": k, "batches": bs if n < 50 else "large"},
                      ("batch-part", 0))
            fail(idx, "C19/get_batch/partition",
                 f"batches of get_batch({n},{k},.) do not partition range({n}) evenly")
    # ---- SiteBatch.search
    for _ in range(ctx.scale(150, 1500)):
        n = rng.randint(1, 25)
        sites = rng.sample(range(100, 400), n)
        k = rng.randint(1, n)
        s = rng.choice(sites) if rng.random() < 0.85 else 7
        sb = hyruns.SiteBatch(sites, k)
        out = sb.search(s)
        idx = add(f"HSearch {cm.coq_zlist(sites)} {cm.coq_z(k)} {cm.coq_z(s)} {cm.coq_option(out, cm.coq_z)}",
                  {"call": "SiteBatch.search", "sites": sites, "nbatch": k, "site": s, "impl": out},
                  ("search", min(n, 4), out is None))
        if s in sites:
            if out is None or s not in sb[out]:
                fail(idx, "C19/search/wrong-batch", f"search({s}) -> {out}")
        elif out is not None:
            fail(idx, "C19/search/phantom", f"search of an unknown site -> {out}")
    # ---- option managers
    for _ in range(ctx.scale(160, 2500)):
        spec = rand_spec(rng, ctx.scale(48, 200))
        context = rand_context(rng)
        kn = rng.choice(KEYNAMES)
        opm = hyruns.OptionManager("mgr" if rng.random() < 0.5 else "Task Manager", **context)
        opm.from_cartesian_product(**spec)
        options = {k: list(v) for k, v in opm.options.items()}
        tasks = [dict(t) for t in opm.tasks]
        spec_t = "[" + "; ".join(
            f"({cm.coq_string(k)}, " + (f"OIter {cvlist(v)}" if isinstance(v, list) else f"OBare {cv(v)}") + ")"
            for k, v in spec.items()) + "]"
        rep = {"call": "OptionManager.from_cartesian_product", "spec": spec, "context": context,
               "keynames": kn}
        idx = add(f"HProduct {spec_t} {cdict(options, cvlist)} [{'; '.join(cdict(t, cv) for t in tasks)}]",
                  dict(rep, impl_tasks=tasks[:6]), ("product", len(spec), len(tasks) > 1))
        # oracle: every combination exactly once
        lists = [v if isinstance(v, list) else [v] for v in spec.values()]
        want = [[]]
        for l in lists:
            want = [w + [x] for w in want for x in l]
        got = [tuple(t[k] for k in spec) for t in tasks]
        if sorted(map(repr, got)) != sorted(repr(tuple(w)) for w in want) or \
                any(list(t.keys()) != list(spec.keys()) for t in tasks):
            fail(idx, "C19/product/enumeration", "tasks are not every combination exactly once")
        if [opm.get_task(i).options for i in range(opm.ntasks)] != tasks:
            fail(idx, "C19/get_task", "get_task(i).options differs from tasks[i]")
        # find: every value of one option, plus an absent value
        key = rng.choice(list(spec))
        vals = lists[list(spec).index(key)]
        for v in list(vals) + [rng.choice([99, "zzz", "mon", 1, "x"])]:
            found = [int(i) for i in opm.find(**{key: v})]
            idx = add(f"HFind {cdict(options, cvlist)} {cm.coq_string(key)} {cv(v)} {cm.coq_zlist(found)}",
                      dict(rep, call="find", key=key, value=v, impl=found),
                      ("find", len(found) > 0, len(spec)))
            if found != [i for i, t in enumerate(tasks) if t[key] == v]:
                fail(idx, "C19/find/wrong-tasks", f"find({key}={v!r}) -> {found}")
        # to_dict / from_dict under the key names
        dd = with_keynames(hyruns, kn, opm.to_dict)
        try:
            fields = "[" + "; ".join(f"({cm.coq_string(k)}, {mfield_term(k, v2, kn)})"
                                     for k, v2 in dd.items()) + "]"
        except KeyError as e:
            fields = "[]"
        man = cmanager(opm.name, context, options, tasks)
        idx = add(f"HDict {ckn(kn)} {man} {fields}", dict(rep, call="to_dict", impl=str(dd)[:400]),
                  ("dict", kn["context_name"], len(context) > 0))

        def rt():
            d2 = json.loads(json.dumps(opm.to_dict())) if rng.random() < 0.5 else opm.to_dict()
            return hyruns.OptionManager.from_dict(d2)
        try:
            opm2 = with_keynames(hyruns, kn, rt)
            ab, ba = bool(opm == opm2), bool(opm2 == opm)
            same_tasks = [dict(t) for t in opm2.tasks] == tasks and opm2.name == opm.name \
                and dict(opm2.context) == context
        except Exception as e:  # noqa
            ab = ba = same_tasks = False
        idx = add(f"HRound {ckn(kn)} {man} {cm.coq_bool(ab)} {cm.coq_bool(ba)}",
                  dict(rep, call="from_dict(to_dict())", eq_ab=ab, eq_ba=ba), ("round", kn["context_name"]))
        if not (ab and ba and same_tasks):
            fail(idx, "C19/roundtrip/not-equal", "manager differs after to_dict/from_dict")

    bad, nshards, failed = cm.run_case_files(PID, HEADER, "hcase", "h_ok", terms, shard=1500, max_bytes=200000)
    ctx.notes["correspondence_cases"] = len(terms)
    ctx.notes["correspondence_mismatches"] = len(bad)
    for k in range(nshards):
        ctx.obligation(f"Cases_{PID}_{k}.agree (model = implementation on the shard)", True)
    cm.settle(ctx, proved, bad, failed, orc_fail, lambda i: replays[i],
              "Model/Hyruns.v vs hyruns.py")
    return ctx.finish()
