"""C19 - batches partition the work; option grids enumerate every combination once."""
import copy
import json

import numpy as np

from harness import common as cm

PID = "C19"
HEADER = ("From Coq Require Import ZArith List String.\nFrom Hy Require Import Base.Num Model.Hyruns.\n"
          "Open Scope string_scope.")

IDENTS = ["a", "ab", "abc", "month", "month2", "site_id", "x1", "x10", "alpha", "GR4J", "GR4", "calib",
          "obj_fun", "v2", "nse", "nse_log", "kge_x", "xkge"]
INTS = [0, 1, 2, 3, 10, 11, 12, 20, 21, 100, 101, 110, -1, -10, -11, 5, 7, 31, 13]


def cv(v):
    if isinstance(v, bool):
        raise TypeError
    if isinstance(v, int):
        return f"(VInt {cm.coq_z(v)})"
    return f"(VStr {cm.coq_string(v)})"


def cvlist(vs):
    return "[" + "; ".join(cv(v) for v in vs) + "]"


def cdict(d, f):
    return "[" + "; ".join(f"({cm.coq_string(k)}, {f(v)})" for k, v in d.items()) + "]"


def ckn(kn):
    return ("{| k_context := %s; k_taskopt := %s; k_manopt := %s |}"
            % tuple(cm.coq_string(kn[k]) for k in ("context_name", "task_options_name",
                                                   "manager_options_name")))


def cmanager(name, context, options, tasks):
    return ("{| m_name := %s; m_context := %s; m_options := %s; m_tasks := [%s] |}"
            % (cm.coq_string(name), cdict(context, cv), cdict(options, cvlist),
               "; ".join(cdict(t, cv) for t in tasks)))


def rand_spec(rng, maxprod=48):
    while True:
        spec = rand_spec1(rng)
        n = 1
        for v in spec.values():
            n *= len(v) if isinstance(v, list) else 1
        if n <= maxprod:
            return spec


def rand_spec1(rng):
    nopt = rng.randint(1, 4)
    keys = rng.sample(IDENTS, nopt)
    spec = {}
    for k in keys:
        kind = rng.random()
        if kind < 0.2:
            spec[k] = rng.choice([rng.choice(INTS), rng.choice(IDENTS)])  # bare scalar
        else:
            nv = rng.randint(1, 5)
            if rng.random() < 0.5:
                spec[k] = rng.sample(INTS, nv)
            else:
                spec[k] = rng.sample(IDENTS, nv)
    return spec


def rand_context(rng):
    n = rng.choice([0, 0, 1, 2, 3])
    keys = rng.sample(["ctx_a", "folder", "version", "nens", "tag"], n)
    return {k: rng.choice([rng.randint(0, 100), rng.choice(IDENTS)]) for k in keys}


KEYNAMES = [
    {"context_name": "context", "task_options_name": "options", "manager_options_name": "options"},
    {"context_name": "config", "task_options_name": "items", "manager_options_name": "options"},
    {"context_name": "ctx", "task_options_name": "opts", "manager_options_name": "all_opts"},
    {"context_name": "context", "task_options_name": "task_options", "manager_options_name": "taskid"},
]


def with_keynames(hyruns, kn, fn):
    try:
        for k, v in kn.items():
            hyruns.set_dict_keyname(k, v)
        return fn()
    finally:
        hyruns.reset_dict_keyname()


def mfield_term(key, val, kn):
    if key == "name":
        return f"MName {cm.coq_string(val)}"
    if key == "tasks":
        ts = []
        for td in val:
            items = []
            for k, v in td.items():
                if k == "taskid":
                    items.append(f"({cm.coq_string(k)}, TId {cm.coq_z(v)})")
                elif k == kn["context_name"]:
                    items.append(f"({cm.coq_string(k)}, TCtx {cdict(v, cv)})")
                elif k == kn["task_options_name"]:
                    items.append(f"({cm.coq_string(k)}, TOpts {cdict(v, cv)})")
                else:
                    raise KeyError(k)
            ts.append("[" + "; ".join(items) + "]")
        return "MTasks [" + "; ".join(ts) + "]"
    if key == kn["context_name"]:
        return f"MCtx {cdict(val, cv)}"
    if key == kn["manager_options_name"]:
        return f"MOpts {cdict(val, cvlist)}"
    raise KeyError(key)


# ---------------------------------------------------------------------------------------------
# stored representations and object histories (state / identity / representation)

def pyval(v):
    """Python value of an option value / site id given in any scalar representation"""
    if isinstance(v, (bool, np.bool_)):
        raise TypeError("bool")
    if isinstance(v, (int, np.integer)):
        return int(v)
    if isinstance(v, str):                       # numpy.str_ is a str
        return str(v)
    raise TypeError(type(v).__name__)


def int_rep(rng, v):
    """the integer v (a small count) as a Python int or as a numpy integer scalar of at least 32 bits
    (narrow / unsigned types are left out: correct integer arithmetic on them can overflow or promote)"""
    kind = rng.choice(["int", "int", "int64", "int32", "intp"])
    return (kind, v) if kind == "int" else (f"np.{kind}", getattr(np, kind)(v))


def scalar_rep(rng, v):
    """a value of an option / a site id as the Python object or as the numpy scalar"""
    if rng.random() < 0.5:
        return "py", v
    if isinstance(v, int):
        return "np.int64", np.int64(v)
    return "np.str_", np.str_(v)


def container_rep(rng, vals, kinds=None):
    """(name, object): the values `vals` (all integers or all strings, no duplicates) stored in one of the
    containers a caller may hold them in.  Every object can be iterated more than once."""
    import pandas as pd
    isint = all(isinstance(v, int) for v in vals)
    n = len(vals)
    if kinds is None:
        kinds = ["list", "list", "tuple", "ndarray", "ndarray_strided", "ndarray_negstride", "ndarray_readonly",
                 "pd.Index", "pd.Series_shuffled_index", "pd.Series_text_index", "dict_keys", "ndarray_object"]
        if isint:
            kinds += ["ndarray_int32", "ndarray_bigendian"]
            if n >= 2 and len({vals[i + 1] - vals[i] for i in range(n - 1)}) == 1 and vals[1] != vals[0]:
                kinds += ["range"] * 6
    kind = rng.choice(kinds)
    base = np.array(vals)
    if kind == "list":
        return kind, list(vals)
    if kind == "tuple":
        return kind, tuple(vals)
    if kind == "range":
        d = vals[1] - vals[0]
        return kind, range(vals[0], vals[-1] + (1 if d > 0 else -1), d)
    if kind == "ndarray":
        return kind, base.copy()
    if kind == "ndarray_int32":
        return kind, base.astype(np.int32)
    if kind == "ndarray_bigendian":
        return kind, base.astype(">i8")
    if kind == "ndarray_object":
        a = np.empty(n, dtype=object)
        a[:] = list(vals)
        return kind, a
    if kind == "ndarray_strided":
        return kind, np.repeat(base, 2)[::2]
    if kind == "ndarray_negstride":
        return kind, base[::-1].copy()[::-1]
    if kind == "ndarray_readonly":
        a = base.copy()
        a.setflags(write=False)
        return kind, a
    if kind == "pd.Index":
        return kind, pd.Index(list(vals))
    if kind == "pd.Series_shuffled_index":
        idx = list(range(n))
        rng.shuffle(idx)
        return kind, pd.Series(list(vals), index=idx)
    if kind == "pd.Series_text_index":
        return kind, pd.Series(list(vals), index=[f"r{j % 3}" for j in range(n)])   # duplicated labels
    if kind == "dict_keys":
        return kind, dict.fromkeys(vals).keys()
    raise KeyError(kind)


# containers on which OptionManager.__eq__ can be evaluated (== of two such objects is one truth value);
# json.dumps accepts only the list
EQ_CONTAINERS = ("list", "tuple", "range", "bare")


def infer_keynames(hyruns):
    """the key names in force, read off to_dict() of a one-task manager (public interface only)"""
    opm = hyruns.OptionManager("probe", zz_ctx=1)
    opm.from_cartesian_product(zz_opt=[5])
    d = opm.to_dict()
    out = {}
    for k, v in d.items():
        if v == {"zz_ctx": 1}:
            out["context_name"] = k
        elif v == {"zz_opt": [5]}:
            out["manager_options_name"] = k
    for k, v in d["tasks"][0].items():
        if v == {"zz_opt": 5}:
            out["task_options_name"] = k
    if len(out) != 3:
        raise KeyError("key names not recognised")
    return out


KN_POOL = {key: sorted({kn[key] for kn in KEYNAMES}) for key in KEYNAMES[0]}


def derive_spec(rng, prev, maxprod):
    """the option dictionary of the next from_cartesian_product call on a manager built with `prev`"""
    if prev is None or rng.random() < 0.25:
        return rand_spec(rng, maxprod)
    for _ in range(20):
        kind = rng.choice(["same", "values", "values", "permute", "keys"])
        spec = {k: (list(v) if isinstance(v, list) else v) for k, v in prev.items()}
        if kind == "values":        # same options, other values
            for k in rng.sample(list(spec), rng.randint(1, len(spec))):
                pool = INTS if isinstance(spec[k], int) or (isinstance(spec[k], list) and spec[k]
                                                             and isinstance(spec[k][0], int)) else IDENTS
                spec[k] = rng.sample(pool, rng.randint(1, 5))
        elif kind == "permute":
            for k in spec:
                if isinstance(spec[k], list):
                    rng.shuffle(spec[k])
            items = list(spec.items())
            rng.shuffle(items)
            spec = dict(items)
        elif kind == "keys":        # one option dropped and / or one added
            if len(spec) > 1 and rng.random() < 0.6:
                del spec[rng.choice(list(spec))]
            free = [k for k in IDENTS if k not in spec]
            if len(spec) < 4 and rng.random() < 0.7:
                spec[rng.choice(free)] = rng.sample(rng.choice([INTS, IDENTS]), rng.randint(1, 4))
        n = 1
        for v in spec.values():
            n *= len(v) if isinstance(v, list) else 1
        if n <= maxprod:
            return spec
    return rand_spec(rng, maxprod)


# ---------------------------------------------------------------------------------------------
# confusable values: families of pairwise DISTINCT integers / identifier-like strings that only differ by
# what a normalisation, a loose comparison or a pattern match would ignore (letter case, leading / trailing /
# inner underscores, trailing digits and leading zeros of the digit suffix, one value a prefix / suffix /
# infix of the other, one character of a long identifier, words that read as Python / JSON constants, letters
# outside ASCII with their case / compatibility twins, sign, factor 10, repeated / reversed digits, neighbours
# of 2**31 / 2**32 / 2**53 / 2**63 / 10**18 / 10**30, an integer next to identifiers that carry its digits).
# Every string is an identifier ([A-Za-z_][A-Za-z0-9_]* or str.isidentifier()): no regex metacharacter, no
# digit-only text, no white space - the property's quantifier.

CONF_BASES = ["gr4j", "nse", "kge", "model", "q", "p", "a", "x", "site", "mm", "obs", "sim", "ab", "log", "id",
              "GR4J", "Sac", "awbm", "nse_log", "obj_fun", "x1", "v2", "month", "qTot", "kgeX"]
CONF_RESERVED = ["None", "none", "NONE", "True", "true", "TRUE", "False", "false", "nan", "NaN", "NAN", "inf",
                 "Inf", "INF", "null", "Null", "int", "Int", "str", "e", "E", "l", "I", "O", "o", "_", "__", "_0",
                 "_1", "e1", "E1", "x0", "X0", "j", "J", "and", "AND", "or", "Or", "s", "S", "w", "W", "d", "D",
                 "b", "B", "Z", "z", "A", "a"]
CONF_UNICODE = [["é", "É", "e", "E", "eé"], ["ß", "ss", "SS", "s", "ẞ"],
                ["µ", "μ", "Μ", "M", "u"], ["ñ", "Ñ", "n", "N", "nn"],
                ["äx", "Äx", "ax", "äX", "xä"], ["ı", "i", "I", "İx", "ix"],
                ["ſ", "s", "S", "ſs", "ss"], ["ﬁ", "fi", "FI", "f", "Fi"]]
CONF_BIG = [2 ** 31 - 1, 2 ** 31, 2 ** 32, 2 ** 53, 2 ** 63 - 1, 2 ** 63, 2 ** 64, 10 ** 15, 10 ** 18, 10 ** 30]
STR_KINDS = ["case", "case", "underscore", "digits", "affix", "long", "reserved", "unicode"]
INT_KINDS = ["sign", "sign", "digits_int", "big"]
LETTERS = "abcdefghijklmnopqrstuvwxyzABCDEFGHIJKLMNOPQRSTUVWXYZ"


def is_ident(s):
    return isinstance(s, str) and s.isidentifier() and s != "self"


def rand_case(rng, s):
    return "".join(c.upper() if rng.random() < 0.5 else c.lower() for c in s)


def conf_pool(rng, kind, maxlen=80):
    """every member of one family (distinct values), in a random order"""
    if kind == "case":
        b = rng.choice(CONF_BASES + IDENTS)
        pool = [b, b.lower(), b.upper(), b.capitalize(), b.swapcase(), b.title(), rand_case(rng, b),
                rand_case(rng, b), b[0].swapcase() + b[1:], b[:-1] + b[-1].swapcase()]
    elif kind == "underscore":
        b = rng.choice(CONF_BASES + IDENTS)
        i = rng.randint(1, len(b)) if len(b) > 1 else 1
        pool = [b, "_" + b, b + "_", "__" + b, b + "__", "_" + b + "_", b[:i] + "_" + b[i:],
                b[:i] + "__" + b[i:], b.replace("_", ""), b.replace("_", "__")]
    elif kind == "digits":
        b = rng.choice(CONF_BASES + IDENTS).rstrip("0123456789") or "x"
        d = str(rng.randint(1, 9))
        pool = [b, b + d, b + "0" + d, b + "00" + d, b + d + "0", b + d + d, b + "0", b + d + "_", b + "_" + d,
                b + d + "1", b + "1" + d, "_" + d, b + d * 3]
    elif kind == "affix":
        b, t = rng.sample(CONF_BASES + IDENTS, 2)
        pool = [b, b + t, t + b, b + b, t + b + t, b + "_" + t, b[:-1], b[1:], b + b[-1], b[0] + b, b + b + b,
                b[::-1], t]
    elif kind == "long":
        n = rng.randint(24, maxlen)
        s = rng.choice(LETTERS + "_") + "".join(rng.choice(LETTERS + "_0123456789") for _ in range(n - 1))
        m = rng.randint(1, n - 2)

        def other(c):
            return rng.choice([x for x in LETTERS if x.lower() != c.lower()])
        pool = [s, other(s[0]) + s[1:], s[:m] + other(s[m]) + s[m + 1:], s[:-1] + other(s[-1]), s[:-1], s + "x",
                s[1:], s[:m] + s[m + 1] + s[m] + s[m + 2:], s[:m] + s[m + 1:], s[:m] + s[m] + s[m:], s.swapcase()]
    elif kind == "reserved":
        pool = rng.sample(CONF_RESERVED, 12)
    elif kind == "unicode":
        pool = list(rng.choice(CONF_UNICODE))
    elif kind == "sign":
        z = rng.randint(1, 120)
        pool = [z, -z, 10 * z, -10 * z, 10 * z + 1, 100 * z, z + 1, z - 1, 0, -z - 1, 1 - z]
    elif kind == "digits_int":
        z = rng.randint(1, 120)
        s = str(z)
        pool = [z, int(s[::-1]), int(s * 2), int(s + s[-1]), int(s[0] + s), int(s + "0"), int("1" + s), int(s + "1"),
                int(s[0] + "0" + s[1:]), -int(s * 2), z % 10, z // 10]
    elif kind == "big":
        a = rng.choice(CONF_BIG)
        pool = [a, a - 1, a + 1, -a, -a - 1, -a + 1, a + 2, 10 * a, a // 10, a + 10, 2 * a]
    elif kind == "mixed":
        z = rng.randint(0, 120)
        p = rng.choice(["x", "v", "e", "_", "a", "month", "X", "E"])
        pool = [z, -z, 10 * z, z + 1, f"{p}{z}", f"_{z}", f"{p}{z}_", f"{p}_{z}", f"{p}0{z}", f"{p}{z}0", p,
                f"{p.swapcase()}{z}", f"{p}{z + 1}"]
    else:
        raise KeyError(kind)
    out = []
    for v in pool:
        if (isinstance(v, int) or is_ident(v)) and not any(type(v) is type(w) and v == w for w in out):
            out.append(v)
    rng.shuffle(out)
    return out


def conf_family(rng, kinds, nmax=5, maxlen=80):
    """(kind, chosen values (>= 2 when the family has them), other members of the family)"""
    kind = rng.choice(kinds)
    pool = conf_pool(rng, kind, maxlen)
    n = min(len(pool), rng.randint(2, nmax))
    return kind, pool[:n], pool[n:]


def conf_spec(rng, maxprod, maxlen=80):
    """option dictionary with at least one option whose values are a family of confusable values;
    returns (spec, near: option -> members of the family that are NOT values of the option, kinds)"""
    while True:
        nopt = rng.randint(1, 4)
        if rng.random() < 0.3:       # the names of the options are confusable as well
            keys = [k for k in conf_pool(rng, rng.choice(["case", "underscore", "digits", "affix"])) if k][:nopt]
        else:
            keys = rng.sample(IDENTS, nopt)
        spec, near, kinds = {}, {}, []
        nfam = 0
        for j, k in enumerate(keys):
            q = rng.random()
            if q < 0.6 or (j == len(keys) - 1 and nfam == 0):
                which = rng.random()
                kind, vals, rest = conf_family(rng, STR_KINDS if which < 0.55 else INT_KINDS if which < 0.8
                                               else ["mixed"], maxlen=maxlen)
                if rng.random() < 0.08:
                    vals, rest = vals[0], vals[1:] + rest            # one member given bare
                spec[k], near[k] = vals, rest
                kinds.append(kind)
                nfam += 1
            elif q < 0.7:
                spec[k] = rng.choice([rng.choice(INTS), rng.choice(IDENTS)])
            else:
                spec[k] = rng.sample(rng.choice([INTS, IDENTS]), rng.randint(1, 5))
        n = 1
        for v in spec.values():
            n *= len(v) if isinstance(v, list) else 1
        if n <= maxprod:
            return spec, near, tuple(sorted(kinds))


def same_value(a, b):
    """the two option values are equal (an integer is never equal to a text)"""
    return type(a) is type(b) and a == b


def run(ctx):
    ctx.rule = ("get_batch: every (n,k,i) with n<=N, k in 0..n+1, i in -1..k (exhaustive), plus random n up "
                "to 1e6; SiteBatch.search on random duplicate-free site lists; option managers with 1-4 "
                "options of 1-5 values (ints, identifier strings, bare scalars), contexts, 4 key-name "
                "settings; JSON round trip; the same statements along object histories (results of get_batch / "
                "SiteBatch[i] modified in place by the caller, several SiteBatch / OptionManager objects alive, "
                "from_cartesian_product called again on the same manager, key names set / reset between to_dict "
                "and from_dict) and for the stored representations of the same values (Python / numpy integer "
                "scalars, lists, tuples, ranges, numpy arrays of several dtypes / strides / byte orders / read-only, "
                "pandas Index / Series, dict keys; text site ids); CONFUSABLE values: option values / option names / site ids "
                "drawn from families of distinct integers and identifier strings that differ only by letter case, "
                "leading / trailing / inner underscores, digit suffixes and their leading zeros, prefix / suffix / "
                "infix, one character of a 24-60 (thorough: 400) character identifier, words reading as Python / JSON "
                "constants, non-ASCII letters with their case / compatibility twins, sign, factor 10, repeated / "
                "reversed digits, neighbours of 2**31 .. 10**30, an integer beside identifiers carrying its digits "
                "(mixed integer / text lists) - find asked for every value of every option, for the family members "
                "that are not values, and for two options at once; non-trivial = distinct (kind, shape) signature")
    ctx.trusted = cm.STD_TRUST + [
        "numpy.array_split sizes n//k+[i<n%k] and re.search on metacharacter-free strings are assumptions of the model, validated by the correspondence"]
    ctx.tested_not_proved = ["json.dump/json.load round trip (library)", "__str__/log glue"]
    # Props/PyTieScores.vo: the argument checks of get_batch as TRANSLATED from hyruns.py = the model
    proved = cm.prove(ctx, extractors=["pygen"], extra_targets=["Props/PyTieScores.vo"])
    cm.use_impl()
    from hydrodiy.io import hyruns
    # the default key names, read before any of them is changed (public interface only)
    try:
        defaults = infer_keynames(hyruns)
    except Exception:  # noqa
        defaults = dict(KEYNAMES[0])
    rng = ctx.rng
    terms, replays = [], []
    orc_fail = set()

    def add(term, replay, sig):
        terms.append(term)
        replays.append(replay)
        ctx.count(sig)
        if len(terms) % 400 == 1:
            ctx.sample(replay)
        return len(terms) - 1

    def fail(idx, key, what):
        orc_fail.add(idx)
        ctx.failure(key, replays[idx], what)

    # ---- batches: exhaustive small + random large
    N = ctx.scale(26, 60)
    triples = []
    for n in range(0, N + 1):
        for k in range(0, n + 2):
            for i in range(-1, k + 1):
                triples.append((n, k, i))
    for _ in range(ctx.scale(300, 3000)):
        n = rng.randint(27, 3000)
        k = rng.randint(max(1, n // 40), n + 2)
        i = rng.randint(-1, k)
        triples.append((n, k, i))
    # large n, few batches: only (first element, length) are compared
    for _ in range(ctx.scale(200, 2000)):
        n = rng.randint(10 ** 3, 10 ** 6)
        k = rng.randint(1, 64)
        i = rng.randint(0, k - 1)
        b = hyruns.get_batch(n, k, i)
        ok_contig = bool((b[1:] - b[:-1] == 1).all()) if len(b) > 1 else True
        idx = add(f"HBatchSum {cm.coq_z(n)} {cm.coq_z(k)} {cm.coq_z(i)} {cm.coq_z(b[0])} {cm.coq_z(len(b))}",
                  {"call": "get_batch", "n": n, "k": k, "i": i, "impl_first": int(b[0]), "impl_len": len(b)},
                  ("batchsum", k, n % k == 0))
        if not ok_contig:
            fail(idx, "C19/get_batch/partition", f"get_batch({n},{k},{i}) is not contiguous")
    for (n, k, i) in triples:
        try:
            out = [int(x) for x in hyruns.get_batch(n, k, i)]
        except ValueError:
            out = None
        idx = add(f"HBatch {cm.coq_z(n)} {cm.coq_z(k)} {cm.coq_z(i)} {cm.coq_option(out, cm.coq_zlist)}",
                  {"call": "get_batch", "n": n, "k": k, "i": i, "impl": out},
                  ("batch", min(n, 5), out is None, n % max(k, 1) == 0))
        valid = n >= 1 and 1 <= k <= n and 0 <= i < k
        if valid != (out is not None):
            fail(idx, "C19/get_batch/rejection", f"get_batch({n},{k},{i}) accepted={out is not None}")
    # oracle: partition property per (n,k)
    nk = sorted({(n, k) for (n, k, i) in triples if 1 <= k <= n and (n <= 60 or k <= 40)})
    for (n, k) in nk:
        bs = [[int(x) for x in hyruns.get_batch(n, k, i)] for i in range(k)]
        flat = [x for b in bs for x in b]
        sizes = [len(b) for b in bs]
        ctx.count()
        if flat != list(range(n)) or max(sizes) - min(sizes) > 1:
            idx = add(f"HBatch {cm.coq_z(n)} {cm.coq_z(k)} 0%Z {cm.coq_option(bs[0], cm.coq_zlist)}",
                      {"call": "get_batch all batches", "n": n, "k": k, "batches": bs if n < 50 else "large"},
                      ("batch-part", 0))
            fail(idx, "C19/get_batch/partition",
                 f"batches of get_batch({n},{k},.) do not partition range({n}) evenly")
    # ---- SiteBatch.search
    for _ in range(ctx.scale(150, 1500)):
        n = rng.randint(1, 25)
        sites = rng.sample(range(100, 400), n)
        k = rng.randint(1, n)
        s = rng.choice(sites) if rng.random() < 0.85 else 7
        sb = hyruns.SiteBatch(sites, k)
        out = sb.search(s)
        idx = add(f"HSearch {cm.coq_zlist(sites)} {cm.coq_z(k)} {cm.coq_z(s)} {cm.coq_option(out, cm.coq_z)}",
                  {"call": "SiteBatch.search", "sites": sites, "nbatch": k, "site": s, "impl": out},
                  ("search", min(n, 4), out is None))
        if s in sites:
            try:
                inside = out is not None and s in sb[out]
            except Exception:  # noqa   (a batch number out of range)
                inside = False
            if not inside:
                fail(idx, "C19/search/wrong-batch", f"search({s}) -> {out}")
        elif out is not None:
            fail(idx, "C19/search/phantom", f"search of an unknown site -> {out}")
    # ---- option managers
    for _ in range(ctx.scale(160, 2500)):
        spec = rand_spec(rng, ctx.scale(48, 200))
        context = rand_context(rng)
        kn = rng.choice(KEYNAMES)
        opm = hyruns.OptionManager("mgr" if rng.random() < 0.5 else "Task Manager", **context)
        opm.from_cartesian_product(**spec)
        options = {k: list(v) for k, v in opm.options.items()}
        tasks = [dict(t) for t in opm.tasks]
        spec_t = "[" + "; ".join(
            f"({cm.coq_string(k)}, " + (f"OIter {cvlist(v)}" if isinstance(v, list) else f"OBare {cv(v)}") + ")"
            for k, v in spec.items()) + "]"
        rep = {"call": "OptionManager.from_cartesian_product", "spec": spec, "context": context,
               "keynames": kn}
        idx = add(f"HProduct {spec_t} {cdict(options, cvlist)} [{'; '.join(cdict(t, cv) for t in tasks)}]",
                  dict(rep, impl_tasks=tasks[:6]), ("product", len(spec), len(tasks) > 1))
        # oracle: every combination exactly once
        lists = [v if isinstance(v, list) else [v] for v in spec.values()]
        want = [[]]
        for l in lists:
            want = [w + [x] for w in want for x in l]
        if any(list(t.keys()) != list(spec.keys()) for t in tasks) or \
                sorted(repr(tuple(t[k] for k in spec)) for t in tasks) != sorted(repr(tuple(w)) for w in want):
            fail(idx, "C19/product/enumeration", "tasks are not every combination exactly once")
            continue
        if [opm.get_task(i).options for i in range(opm.ntasks)] != tasks:
            fail(idx, "C19/get_task", "get_task(i).options differs from tasks[i]")
        # find: every value of one option, plus an absent value
        key = rng.choice(list(spec))
        vals = lists[list(spec).index(key)]
        for v in list(vals) + [rng.choice([99, "zzz", "mon", 1, "x"])]:
            found = [int(i) for i in opm.find(**{key: v})]
            idx = add(f"HFind {cdict(options, cvlist)} {cm.coq_string(key)} {cv(v)} {cm.coq_zlist(found)}",
                      dict(rep, call="find", key=key, value=v, impl=found),
                      ("find", len(found) > 0, len(spec)))
            if found != [i for i, t in enumerate(tasks) if t[key] == v]:
                fail(idx, "C19/find/wrong-tasks", f"find({key}={v!r}) -> {found}")
        # to_dict / from_dict under the key names
        dd = with_keynames(hyruns, kn, opm.to_dict)
        try:
            fields = "[" + "; ".join(f"({cm.coq_string(k)}, {mfield_term(k, v2, kn)})"
                                     for k, v2 in dd.items()) + "]"
        except Exception as e:  # noqa  (an exported dictionary of an unexpected structure: the model term
            fields = "[]"           # cannot be built; the correspondence case then disagrees and is reported)
        man = cmanager(opm.name, context, options, tasks)
        idx = add(f"HDict {ckn(kn)} {man} {fields}", dict(rep, call="to_dict", impl=str(dd)[:400]),
                  ("dict", kn["context_name"], len(context) > 0))

        def rt():
            d2 = json.loads(json.dumps(opm.to_dict())) if rng.random() < 0.5 else opm.to_dict()
            return hyruns.OptionManager.from_dict(d2)
        try:
            opm2 = with_keynames(hyruns, kn, rt)
            ab, ba = bool(opm == opm2), bool(opm2 == opm)
            same_tasks = [dict(t) for t in opm2.tasks] == tasks and opm2.name == opm.name \
                and dict(opm2.context) == context
        except Exception as e:  # noqa
            ab = ba = same_tasks = False
        idx = add(f"HRound {ckn(kn)} {man} {cm.coq_bool(ab)} {cm.coq_bool(ba)}",
                  dict(rep, call="from_dict(to_dict())", eq_ab=ab, eq_ba=ba), ("round", kn["context_name"]))
        if not (ab and ba and same_tasks):
            fail(idx, "C19/roundtrip/not-equal", "manager differs after to_dict/from_dict")

    # ---- option managers whose values (and option names) are CONFUSABLE: distinct values that a loose
    #      comparison / normalisation / pattern match would take for one another.  find is asked for every
    #      value of every option, for members of the same family that are not values of the option, and for
    #      two options at once; enumeration, get_task, to_dict and the round trip are checked on the same grids
    maxlen = ctx.scale(60, 400)

    def spec_term(spec):
        return "[" + "; ".join(
            f"({cm.coq_string(k)}, " + (f"OIter {cvlist(v)}" if isinstance(v, list) else f"OBare {cv(v)}") + ")"
            for k, v in spec.items()) + "]"

    def confusable_manager(spec, near, kinds):
        context = rand_context(rng)
        if rng.random() < 0.3 and context:      # a context entry named like an option / holding one of its values
            k0 = rng.choice(list(spec))
            v0 = spec[k0][0] if isinstance(spec[k0], list) else spec[k0]
            context[rng.choice(list(context))] = v0
            if rng.random() < 0.5:
                context[k0] = v0
        kn = rng.choice(KEYNAMES)
        opm = hyruns.OptionManager("mgr" if rng.random() < 0.5 else "Task Manager", **copy.deepcopy(context))
        rep = {"call": "OptionManager.from_cartesian_product", "spec": spec, "families": list(kinds),
               "context": context, "keynames": kn}
        try:
            opm.from_cartesian_product(**copy.deepcopy(spec))
            options = {str(k): [pyval(x) for x in v] for k, v in opm.options.items()}
            tasks = [{str(k): pyval(x) for k, x in t.items()} for t in opm.tasks]
        except Exception as e:  # noqa
            idx = add(f"HProduct {spec_term(spec)} [] [[(\"raised\", VInt 0%Z)]]",
                      dict(rep, raised=f"{type(e).__name__}: {e}"[:200]), ("conf-product", "raised"))
            fail(idx, "C19/product/enumeration",
                 f"from_cartesian_product raised / stored no option values ({type(e).__name__})")
            return
        idx = add(f"HProduct {spec_term(spec)} {cdict(options, cvlist)} [{'; '.join(cdict(t, cv) for t in tasks)}]",
                  dict(rep, impl_tasks=tasks[:6], impl_ntasks=len(tasks)),
                  ("conf-product", kinds, len(spec), len(tasks) > 1))
        lists = [v if isinstance(v, list) else [v] for v in spec.values()]
        want = [[]]
        for l in lists:
            want = [w + [x] for w in want for x in l]
        if any(list(t.keys()) != list(spec.keys()) for t in tasks) or \
                sorted(repr(tuple(t[k] for k in spec)) for t in tasks) != sorted(repr(tuple(w)) for w in want):
            fail(idx, "C19/product/enumeration",
                 f"tasks are not every combination exactly once (confusable values {kinds}: {len(tasks)} tasks, "
                 f"{len(want)} combinations)")
            return
        try:
            same = [dict(opm.get_task(i).options) for i in range(opm.ntasks)] == [dict(t) for t in opm.tasks]
        except Exception:  # noqa
            same = False
        if not same:
            fail(idx, "C19/get_task", "get_task(i).options differs from tasks[i]")

        def ask(kw):
            try:
                return [int(i) for i in opm.find(**kw)], None
            except Exception as e:  # noqa
                return None, f"{type(e).__name__}: {e}"[:200]

        # find, one option: every value, the members of the family that are not values, an unrelated value
        for key, vals in zip(spec, lists):
            absent = list(near.get(key, []))[:3] + [rng.choice([99, "zzz", "mon", 1, "x"])]
            for j, v in enumerate(list(vals) + absent):
                found, err = ask({key: v})
                expect = [i for i, t in enumerate(tasks) if same_value(t[key], v)]
                idx = add(f"HFind {cdict(options, cvlist)} {cm.coq_string(key)} {cv(v)} "
                          f"{cm.coq_zlist(found if found is not None else [-1])}",
                          dict(rep, call="find", key=key, value=v, impl=found, expected=expect, raised=err),
                          ("conf-find", kinds, bool(found), j < len(vals), type(v).__name__))
                if found != expect:
                    others = sorted({repr(tasks[i][key]) for i in (found or []) if i not in expect})
                    fail(idx, "C19/find/wrong-tasks",
                         f"find({key}={v!r}) -> {found}, the tasks whose option {key} equals {v!r} are {expect}"
                         + (f" (tasks with {key} in {others} returned as well)" if others else ""))
        # find, two options at once: the tasks whose two options equal the two requested values
        if len(spec) >= 2:
            for _q in range(min(4, len(tasks))):
                k1, k2 = rng.sample(list(spec), 2)
                t0 = rng.choice(tasks)
                v1 = t0[k1]
                v2 = t0[k2] if rng.random() < 0.8 or not near.get(k2) else rng.choice(near[k2])
                found, err = ask({k1: v1, k2: v2})
                expect = [i for i, t in enumerate(tasks) if same_value(t[k1], v1) and same_value(t[k2], v2)]
                ctx.count(("conf-find2", kinds, bool(found)))
                if found != expect:
                    ctx.failure("C19/find/wrong-tasks",
                                dict(rep, call="find with two options", request={k1: v1, k2: v2}, impl=found,
                                     expected=expect, raised=err),
                                f"find({k1}={v1!r}, {k2}={v2!r}) -> {found}, the tasks whose options equal the "
                                f"requested values are {expect}")
        # to_dict / from_dict under the key names
        try:
            dd = with_keynames(hyruns, kn, opm.to_dict)
            fields = "[" + "; ".join(f"({cm.coq_string(k)}, {mfield_term(k, v2, kn)})"
                                     for k, v2 in dd.items()) + "]"
        except Exception as e:  # noqa
            dd, fields = None, "[]"
        man = cmanager(opm.name, context, options, tasks)
        add(f"HDict {ckn(kn)} {man} {fields}", dict(rep, call="to_dict", impl=str(dd)[:400]),
            ("conf-dict", kn["context_name"], len(context) > 0))
        as_json = rng.random() < 0.6

        def rt():
            d2 = json.loads(json.dumps(opm.to_dict())) if as_json else opm.to_dict()
            return hyruns.OptionManager.from_dict(d2)
        try:
            opm2 = with_keynames(hyruns, kn, rt)
            ab, ba = bool(opm == opm2), bool(opm2 == opm)
            t2 = [dict(t) for t in opm2.tasks]
            same_tasks = len(t2) == len(tasks) and opm2.name == opm.name and dict(opm2.context) == context and \
                all(list(a) == list(b) and all(same_value(a[k], b[k]) for k in a) for a, b in zip(t2, tasks))
            err = None
        except Exception as e:  # noqa
            ab = ba = same_tasks = False
            err = f"{type(e).__name__}: {e}"[:200]
        idx = add(f"HRound {ckn(kn)} {man} {cm.coq_bool(ab)} {cm.coq_bool(ba)}",
                  dict(rep, call="from_dict(to_dict())", json=as_json, eq_ab=ab, eq_ba=ba, raised=err),
                  ("conf-round", kn["context_name"], as_json, kinds))
        if not (ab and ba and same_tasks):
            fail(idx, "C19/roundtrip/not-equal",
                 "manager differs after to_dict/from_dict (confusable values " + ", ".join(kinds) + ")")

    # every kind of family at least once per run, then random grids
    for kind in sorted(set(STR_KINDS + INT_KINDS + ["mixed"])):
        for _ in range(ctx.scale(2, 12)):
            pool = conf_pool(rng, kind, maxlen)
            n = min(len(pool), rng.randint(2, 5))
            spec, near = {rng.choice(IDENTS): pool[:n]}, {}
            near[list(spec)[0]] = pool[n:]
            if rng.random() < 0.6:
                k2 = rng.choice([k for k in IDENTS if k not in spec])
                spec[k2] = rng.sample(rng.choice([INTS, IDENTS]), rng.randint(1, 4))
            confusable_manager(spec, near, (kind,))
    for _ in range(ctx.scale(60, 1000)):
        confusable_manager(*conf_spec(rng, ctx.scale(24, 120), maxlen))

    # ---- SiteBatch.search on CONFUSABLE site ids (all integers or all texts, no duplicates): every site is
    #      searched and must be in the batch returned, in that batch only; members of the family that are not
    #      sites are in no batch
    for _ in range(ctx.scale(60, 800)):
        text = rng.random() < 0.6
        pools = [conf_pool(rng, rng.choice(STR_KINDS if text else INT_KINDS), maxlen)
                 for _f in range(rng.randint(1, 3))]
        if not text:             # numpy.array of Python integers: 64-bit site ids
            pools = [[v for v in p if -2 ** 63 <= v < 2 ** 63] for p in pools]
        members = []
        for p in pools:
            members += [v for v in p if v not in members]
        if len(members) < 2:
            continue
        n = rng.randint(2, len(members))
        sites, outside = members[:n], members[n:]
        znum = {s: 1000 + j for j, s in enumerate(members)}       # the model works on distinct numbers
        nums = [znum[s] for s in sites]
        k = rng.randint(1, n)
        cname, cont = container_rep(rng, sites, ["list", "list", "tuple", "ndarray_object" if text else "list"])
        rep = {"call": "SiteBatch(siteids, nbatch).search(site)", "sites": sites, "container": cname, "nbatch": k}
        try:
            sb = hyruns.SiteBatch(cont, k)
            batches = [[pyval(x) for x in sb[i]] for i in range(k)]
        except Exception as e:  # noqa
            idx = add(f"HSearch {cm.coq_zlist(nums)} {cm.coq_z(k)} {cm.coq_z(nums[0])} None",
                      dict(rep, raised=f"{type(e).__name__}: {e}"[:200]), ("conf-sb", "raised"))
            fail(idx, "C19/search/wrong-batch", f"SiteBatch of {n} distinct sites raised {type(e).__name__}")
            continue
        flat = [x for b in batches for x in b]
        if len(flat) != n or any(not same_value(a, b) for a, b in zip(flat, sites)) or \
                max(map(len, batches)) - min(map(len, batches)) > 1:
            idx = add(f"HSearch {cm.coq_zlist(nums)} {cm.coq_z(k)} {cm.coq_z(nums[0])} None",
                      dict(rep, impl_batches=str(batches)[:600]), ("conf-sb", "batches"))
            fail(idx, "C19/search/wrong-batch",
                 f"the batches of SiteBatch({cname} of {n} distinct sites, {k}) are not the sites in order in "
                 "batches of even size")
            continue
        for s in sites + outside[:3]:
            try:
                out = sb.search(s)
                out = None if out is None else int(out)
                err = None
            except Exception as e:  # noqa
                out, err = "raised", f"{type(e).__name__}: {e}"[:200]
            idx = add(f"HSearch {cm.coq_zlist(nums)} {cm.coq_z(k)} {cm.coq_z(znum[s])} "
                      f"{cm.coq_option(None if out == 'raised' else out, cm.coq_z)}",
                      dict(rep, site=s, impl=out, raised=err),
                      ("conf-sb", text, out is None, min(n, 4)))
            holds = [i for i, b in enumerate(batches) if any(same_value(s, x) for x in b)]
            if out == "raised":
                fail(idx, "C19/search/wrong-batch", f"search({s!r}) raised")
            elif holds:
                if out not in holds:
                    fail(idx, "C19/search/wrong-batch",
                         f"search({s!r}) -> {out}, the site is in batch {holds[0]} (sites {sites}, {k} batches)")
            elif out is not None:
                fail(idx, "C19/search/phantom", f"search({s!r}) of a text / number that is not a site -> {out}")


    # =========================================================================================
    # state / identity / representation: the same statements along object histories and for
    # every stored representation of the same numbers / values
    # ---- get_batch: integer arguments in any integer representation; results modified in place by
    #      the caller between calls (a batch handed out must not be shared with a later answer)
    for _ in range(ctx.scale(100, 800)):
        n = rng.randint(1, 40) if rng.random() < 0.8 else rng.randint(41, 400)
        k = rng.randint(1, min(n, 12)) if rng.random() < 0.7 else rng.randint(1, n)
        hist = []
        rounds = []
        for rnd in range(2):
            order = list(range(k))
            rng.shuffle(order)
            got = {}
            for i in order:
                (tn, an), (tk, ak), (ti, ai) = int_rep(rng, n), int_rep(rng, k), int_rep(rng, i)
                step = {"op": "get_batch", "nelements": f"{tn}({n})", "nbatch": f"{tk}({k})",
                        "ibatch": f"{ti}({i})"}
                hist.append(step)
                try:
                    b = hyruns.get_batch(an, ak, ai)
                    out = [int(x) for x in b]
                except Exception as e:  # noqa
                    b, out = None, None
                    step["raised"] = f"{type(e).__name__}: {e}"[:200]
                got[i] = out
                step["impl"] = out if out is None or len(out) <= 12 else out[:3] + ["...", out[-1], f"len={len(out)}"]
                idx = add(f"HBatch {cm.coq_z(n)} {cm.coq_z(k)} {cm.coq_z(i)} {cm.coq_option(out, cm.coq_zlist)}",
                          {"call": "get_batch after the listed operations", "n": n, "k": k, "i": i, "impl": out,
                           "history": list(hist)},
                          ("batch-life", rnd, tn, tk, ti, min(n, 3)))
                if out is None:
                    fail(idx, "C19/get_batch/rejection", f"get_batch({tn}({n}),{tk}({k}),{ti}({i})) raised")
                elif rnd == 1 and out != rounds[0][i]:
                    fail(idx, "C19/get_batch/partition",
                         f"get_batch({n},{k},{i}) differs after the caller modified earlier results in place")
                # the caller modifies what it was given
                if b is not None and len(b) and rng.random() < 0.8:
                    how = rng.choice(["shift", "fill", "reverse"])
                    try:
                        if how == "shift":
                            b[:] = [x + 1000 for x in out]
                        elif how == "fill":
                            b[:] = [-1] * len(out)
                        else:
                            b[:] = out[::-1]
                        hist.append({"op": f"in-place modification of that result ({how})"})
                    except (ValueError, TypeError):      # a read-only / immutable result cannot be modified: fine
                        pass
            rounds.append(got)
            if all(v is not None for v in got.values()):
                flat = [x for i in range(k) for x in got[i]]
                sizes = [len(got[i]) for i in range(k)]
                ctx.count()
                if flat != list(range(n)) or max(sizes) - min(sizes) > 1:
                    idx = add(f"HBatch {cm.coq_z(n)} {cm.coq_z(k)} 0%Z {cm.coq_option(got[0], cm.coq_zlist)}",
                              {"call": "get_batch, all batches, after the listed operations", "n": n, "k": k,
                               "batches": [got[i] for i in range(k)] if n <= 60 else "large",
                               "history": list(hist)}, ("batch-life-part", rnd))
                    fail(idx, "C19/get_batch/partition",
                         f"batches of get_batch({n},{k},.) do not partition range({n}) evenly "
                         f"(round {rnd + 1} of a call sequence)")

    # ---- SiteBatch: site lists in every stored representation, several objects alive, returned batches
    #      modified by the caller, repeated searches
    def site_universe(n, text):
        nums = rng.sample(range(100, 400), n)
        if not text:
            return nums, nums
        pre = rng.choice(["", "A", "st_"])
        return nums, [f"{pre}{x}" for x in nums]

    for _ in range(ctx.scale(90, 600)):
        n = rng.randint(1, 25)
        nums, sites = site_universe(n, rng.random() < 0.4)
        znum = dict(zip(sites, nums))
        hist = []
        objs = []
        for o in range(rng.choice([1, 1, 2])):
            k = rng.randint(1, n)
            cname, cont = container_rep(rng, sites)
            while cname in ("dict_keys",):            # a site list is a sequence (numpy.array of a view is 0-d)
                cname, cont = container_rep(rng, sites)
            hist.append({"op": "SiteBatch", "object": o, "siteids": f"{cname} of {sites}", "nbatch": k})
            try:
                sb = hyruns.SiteBatch(cont, k)
            except Exception as e:  # noqa
                idx = add(f"HSearch {cm.coq_zlist(nums)} {cm.coq_z(k)} {cm.coq_z(nums[0])} None",
                          {"call": "SiteBatch(siteids, nbatch)", "sites": sites, "container": cname, "nbatch": k,
                           "raised": f"{type(e).__name__}: {e}"[:200]}, ("sb-life-ctor", cname))
                fail(idx, "C19/search/wrong-batch", f"SiteBatch({cname} of distinct sites, {k}) raised")
                continue
            # the batches of the fresh object: every site exactly once, sizes differing by at most one
            try:
                want = [[pyval(x) for x in sb[i]] for i in range(k)]
                ok = sorted(x for b in want for x in b) == sorted(sites) and \
                    max(map(len, want)) - min(map(len, want)) <= 1
            except Exception:  # noqa
                want, ok = None, False
            if not ok:
                idx = add(f"HSearch {cm.coq_zlist(nums)} {cm.coq_z(k)} {cm.coq_z(nums[0])} None",
                          {"call": "[SiteBatch(siteids, nbatch)[i] for i in range(nbatch)]", "sites": sites,
                           "container": cname, "nbatch": k, "impl_batches": str(want)[:600],
                           "history": list(hist)}, ("sb-life-part", cname))
                fail(idx, "C19/search/wrong-batch",
                     f"the batches of SiteBatch({cname} of {n} sites, {k}) do not hold every site exactly once "
                     "in batches of even size")
                continue
            objs.append((o, sb, k, want, cname))
        for _step in range(rng.randint(2, 6)):
            if not objs:
                break
            o, sb, k, want, cname = rng.choice(objs)
            if rng.random() < 0.35:
                j = rng.randrange(k)
                try:
                    lst = sb[j]
                    how = rng.choice(["clear", "reverse", "pop", "overwrite"])
                    step = {"op": f"b = object{o}[{j}]; in-place modification of b ({how})"}
                    if list(lst) != want[j]:
                        step["impl_batch"] = str(lst)[:300]
                        hist.append(step)
                        idx = add(f"HSearch {cm.coq_zlist(nums)} {cm.coq_z(k)} {cm.coq_z(znum[want[j][0]])} None",
                                  {"call": f"SiteBatch[{j}] after the listed operations", "sites": sites,
                                   "container": cname, "nbatch": k, "want": want[j], "history": list(hist)},
                                  ("sb-life-item", cname))
                        fail(idx, "C19/search/wrong-batch",
                             f"batch {j} of the SiteBatch is not what it was before the listed operations")
                        continue
                    if how == "clear":
                        lst.clear()
                    elif how == "reverse":
                        lst.reverse()
                    elif how == "pop":
                        lst.pop()
                    else:
                        lst[0] = 7
                    hist.append(step)
                except (AttributeError, TypeError, ValueError):   # an immutable batch cannot be modified: fine
                    pass
                continue
            s = rng.choice(sites) if rng.random() < 0.85 else (7 if sites is nums else "7")
            sname, sarg = scalar_rep(rng, s)
            step = {"op": "search", "object": o, "site": f"{sname}({s!r})"}
            hist.append(step)
            try:
                out = sb.search(sarg)
                out = None if out is None else int(out)
            except Exception as e:  # noqa
                out = "raised"
                step["raised"] = f"{type(e).__name__}: {e}"[:200]
            step["impl"] = out
            idx = add(f"HSearch {cm.coq_zlist(nums)} {cm.coq_z(k)} {cm.coq_z(znum.get(s, 7))} "
                      f"{cm.coq_option(None if out == 'raised' else out, cm.coq_z)}",
                      {"call": "SiteBatch.search after the listed operations", "sites": sites, "container": cname,
                       "nbatch": k, "site": s, "site_as": sname, "impl": out, "history": list(hist)},
                      ("sb-life", cname, sname, out is None, len(objs)))
            if out == "raised":
                fail(idx, "C19/search/wrong-batch", f"search({s!r}) raised")
            elif s in znum:
                if out is None or not (0 <= out < k) or s not in want[out]:
                    fail(idx, "C19/search/wrong-batch",
                         f"search({s!r}) -> {out} on a SiteBatch built from a {cname} (after the listed operations)")
            elif out is not None:
                fail(idx, "C19/search/phantom", f"search of an unknown site -> {out}")

    # ---- option managers: several managers alive, rebuilt on the same object, values in every container,
    #      key names changed / reset between the operations, dictionaries reloaded later
    maxprod = ctx.scale(36, 120)

    def session():
        hist = [{"op": "reset_dict_keyname"}]
        hyruns.reset_dict_keyname()
        cur = dict(defaults)                      # the key names in force according to the calls made
        mans = []                                 # [manager, context, spec0 | None, containers, generation]
        dumps = []                                # (manager index, generation, text or dict, key names)
        for m in range(rng.choice([1, 2, 2])):
            context = rand_context(rng)
            name = rng.choice(["mgr", "Task Manager", f"m{m}"])
            hist.append({"op": "OptionManager", "manager": m, "name": name, "context": context})
            mans.append([hyruns.OptionManager(name, **copy.deepcopy(context)), context, None, None, 0])

        def snapshot(m):
            """(options, tasks) of the manager as Python values, None when they are not option values"""
            opm = mans[m][0]
            try:
                return ({str(k): [pyval(x) for x in v] for k, v in opm.options.items()},
                        [{str(k): pyval(x) for k, x in t.items()} for t in opm.tasks])
            except Exception:  # noqa
                return None, None

        def verify(m, what):
            opm, context, spec0, conts, _gen = mans[m]
            options, tasks = snapshot(m)
            rep = {"call": what, "manager": m, "spec": spec0, "containers": conts, "context": context,
                   "keynames": dict(cur), "history": list(hist)}
            spec_t = "[" + "; ".join(
                f"({cm.coq_string(k)}, " + (f"OIter {cvlist(v)}" if isinstance(v, list) else f"OBare {cv(v)}") + ")"
                for k, v in spec0.items()) + "]"
            if tasks is None:
                idx = add(f"HProduct {spec_t} [] []", dict(rep, impl_tasks=str(opm.tasks)[:400]),
                          ("life-product", "unreadable"))
                fail(idx, "C19/product/enumeration", "the tasks do not hold option values")
                return
            idx = add(f"HProduct {spec_t} {cdict(options, cvlist)} [{'; '.join(cdict(t, cv) for t in tasks)}]",
                      dict(rep, impl_tasks=tasks[:6], impl_ntasks=len(tasks)),
                      ("life-product", what.split(":")[0], len(spec0), len(tasks) > 1, tuple(sorted(set(conts.values())))))
            lists = [v if isinstance(v, list) else [v] for v in spec0.values()]
            want = [[]]
            for l in lists:
                want = [w + [x] for w in want for x in l]
            if any(list(t.keys()) != list(spec0.keys()) for t in tasks) or \
                    sorted(repr(tuple(t[k] for k in spec0)) for t in tasks) != sorted(repr(tuple(w)) for w in want):
                fail(idx, "C19/product/enumeration",
                     f"tasks are not every combination exactly once ({what}; {len(tasks)} tasks, "
                     f"{len(want)} combinations)")
                return
            try:
                same = all(opm.get_task(i).options is opm.tasks[i] or opm.get_task(i).options == opm.tasks[i]
                           for i in range(opm.ntasks)) and opm.ntasks == len(tasks)
            except Exception:  # noqa
                same = False
            if not same:
                fail(idx, "C19/get_task", "get_task(i).options differs from tasks[i]")
            # find
            for key in rng.sample(list(spec0), min(2, len(spec0))):
                vals = lists[list(spec0).index(key)]
                for v in rng.sample(vals, min(3, len(vals))) + [rng.choice([99, "zzz", "mon", 1, "x"])]:
                    vname, varg = scalar_rep(rng, v)
                    try:
                        found = [int(i) for i in opm.find(**{key: varg})]
                    except Exception as e:  # noqa
                        found = None
                        rep["raised"] = f"{type(e).__name__}: {e}"[:200]
                    idx = add(f"HFind {cdict(options, cvlist)} {cm.coq_string(key)} {cv(v)} "
                              f"{cm.coq_zlist(found if found is not None else [-1])}",
                              dict(rep, call=f"find ({what})", key=key, value=v, value_as=vname, impl=found),
                              ("life-find", bool(found), vname, len(spec0)))
                    if found != [i for i, t in enumerate(tasks) if t[key] == v]:
                        fail(idx, "C19/find/wrong-tasks", f"find({key}={v!r}) -> {found} ({what})")
            # to_dict under the key names in force
            try:
                dd = opm.to_dict()
                fields = "[" + "; ".join(f"({cm.coq_string(k)}, {mfield_term(k, norm_field(v2), cur)})"
                                         for k, v2 in dd.items()) + "]"
            except Exception as e:  # noqa
                fields = "[]"
                rep["to_dict"] = f"{type(e).__name__}: {e}"[:200]
            man = cmanager(opm.name, context, options, tasks)
            add(f"HDict {ckn(cur)} {man} {fields}", dict(rep, call=f"to_dict ({what})"),
                ("life-dict", cur["context_name"], cur["task_options_name"], cur["manager_options_name"]))

        def norm_field(v):
            """to_dict values as Python values (option values may be numpy scalars / containers)"""
            if isinstance(v, dict):
                return {str(k): norm_field(x) for k, x in v.items()}
            if isinstance(v, str):
                return str(v)
            if isinstance(v, (int, np.integer)) and not isinstance(v, bool):
                return int(v)
            if hasattr(v, "__iter__"):
                return [norm_field(x) for x in v]
            return v

        def set_names(target):
            """reach the key names `target` with the public calls: reset, then the names that differ"""
            hyruns.reset_dict_keyname()
            hist.append({"op": "reset_dict_keyname"})
            cur.clear()
            cur.update(defaults)
            for key, name in target.items():
                if cur[key] != name:
                    hyruns.set_dict_keyname(key, name)
                    hist.append({"op": "set_dict_keyname", "key": key, "name": name})
                    cur[key] = name

        def step(r):
            """one operation; False ends the session (a failure was reported)"""
            m = rng.randrange(len(mans))
            opm, context, spec_prev, _c, gen = mans[m]
            if r < 0.35 or all(x[2] is None for x in mans):
                # (re)build the product on this manager
                spec0 = derive_spec(rng, spec_prev, maxprod)
                lk = [k for k, v in spec0.items() if isinstance(v, list)]
                if lk and rng.random() < 0.25:               # the values of one option are confusable
                    kc = rng.choice(lk)
                    _kind, fam, _rest = conf_family(rng, STR_KINDS if rng.random() < 0.7 else ["sign", "digits_int"])
                    nprod = 1
                    for k9, v9 in spec0.items():
                        nprod *= len(v9) if isinstance(v9, list) and k9 != kc else 1
                    fam = fam[:max(1, maxprod // nprod)]
                    if len(fam) >= 2:
                        spec0[kc] = fam
                if len(lk) >= 2 and rng.random() < 0.2:      # two options with the same values
                    k1, k2 = rng.sample(lk, 2)
                    if len(spec0[k1]) <= len(spec0[k2]):
                        spec0[k2] = list(spec0[k1])
                shared = {}
                spec_rep, conts = {}, {}
                for key, v in spec0.items():
                    if isinstance(v, list):
                        if rng.random() < 0.5:
                            conts[key], spec_rep[key] = "list", list(v)
                        else:
                            conts[key], spec_rep[key] = container_rep(rng, v)
                        sig = repr(v)
                        if sig in shared and rng.random() < 0.7:      # the same object given for two options
                            conts[key], spec_rep[key] = shared[sig]
                        shared[sig] = (conts[key], spec_rep[key])
                    else:
                        conts[key], spec_rep[key] = "bare", v
                hist.append({"op": "from_cartesian_product", "manager": m,
                             "options": {k: f"{conts[k]}: {spec0[k]!r}" for k in spec0}})
                mans[m][2], mans[m][3], mans[m][4] = spec0, conts, gen + 1
                try:
                    opm.from_cartesian_product(**spec_rep)
                except Exception as e:  # noqa
                    idx = add("HProduct [] [] [[(\"raised\", VInt 0%Z)]]",
                              {"call": "from_cartesian_product", "manager": m, "spec": spec0, "containers": conts,
                               "raised": f"{type(e).__name__}: {e}"[:200], "history": list(hist)},
                              ("life-product", "raised"))
                    fail(idx, "C19/product/enumeration", f"from_cartesian_product raised {type(e).__name__}")
                    return False
                verify(m, "build" if gen == 0 else f"rebuild: call {gen + 1} of from_cartesian_product on the same manager")
                # the other manager alive is unchanged
                for m2 in range(len(mans)):
                    if m2 != m and mans[m2][2] is not None and rng.random() < 0.5:
                        verify(m2, "other: after an operation on another manager")
            elif r < 0.60:
                # change of the key names
                q = rng.random()
                if q < 0.3:
                    hyruns.reset_dict_keyname()
                    hist.append({"op": "reset_dict_keyname"})
                    cur.clear()
                    cur.update(defaults)
                elif q < 0.7:
                    key = rng.choice(list(KN_POOL))
                    name = rng.choice(KN_POOL[key])
                    hyruns.set_dict_keyname(key, name)
                    hist.append({"op": "set_dict_keyname", "key": key, "name": name})
                    cur[key] = name
                else:
                    set_names(rng.choice(KEYNAMES))
            elif r < 0.80:
                # dictionary / JSON text written now, read back later
                if mans[m][2] is None:
                    return True
                as_json = all(c == "list" or c == "bare" for c in mans[m][3].values()) and rng.random() < 0.7
                if not all(c in EQ_CONTAINERS for c in mans[m][3].values()):
                    return True
                try:
                    d = opm.to_dict()
                    d = json.dumps(d) if as_json else d
                except Exception as e:  # noqa
                    idx = add(f"HRound {ckn(cur)} {cmanager(opm.name, context, {}, [])} true true",
                              {"call": "to_dict / json.dumps", "manager": m, "spec": mans[m][2],
                               "raised": f"{type(e).__name__}: {e}"[:200], "history": list(hist)}, ("life-round", "raised"))
                    fail(idx, "C19/roundtrip/not-equal", "to_dict / json.dumps raised")
                    return True
                hist.append({"op": "d%d = %s" % (len(dumps), "json.dumps(manager.to_dict())" if as_json
                                                 else "manager.to_dict()"), "manager": m})
                dumps.append((m, mans[m][4], d, dict(cur), as_json))
            else:
                # read a dictionary back under the key names it was written with
                live = [(j, x) for j, x in enumerate(dumps) if mans[x[0]][4] == x[1]]
                if not live:
                    return True
                j, (m, _g, d, names, as_json) = rng.choice(live)
                opm, context, spec0, conts, _gen = mans[m]
                if names != cur:
                    set_names(names)
                hist.append({"op": f"OptionManager.from_dict({'json.loads(d%d)' % j if as_json else 'd%d' % j})"})
                options, tasks = snapshot(m)
                try:
                    opm2 = hyruns.OptionManager.from_dict(json.loads(d) if as_json else d)
                    ab, ba = bool(opm == opm2), bool(opm2 == opm)
                    same_tasks = [dict(t) for t in opm2.tasks] == [dict(t) for t in opm.tasks] \
                        and opm2.name == opm.name and dict(opm2.context) == context
                    err = None
                except Exception as e:  # noqa
                    ab = ba = same_tasks = False
                    err = f"{type(e).__name__}: {e}"[:200]
                man = cmanager(opm.name, context, options or {}, tasks or [])
                idx = add(f"HRound {ckn(cur)} {man} {cm.coq_bool(ab)} {cm.coq_bool(ba)}",
                          {"call": "from_dict of a dictionary written earlier under the same key names",
                           "manager": m, "spec": spec0, "containers": conts, "context": context,
                           "keynames": dict(cur), "json": as_json, "eq_ab": ab, "eq_ba": ba, "raised": err,
                           "history": list(hist)},
                          ("life-round", cur["context_name"], cur["manager_options_name"], as_json))
                if not (ab and ba and same_tasks):
                    fail(idx, "C19/roundtrip/not-equal",
                         "manager differs after to_dict ... from_dict (same key names in force at both ends, "
                         "other operations in between)")
                    return False
            return True

        nsteps = rng.randint(3, 8)
        while nsteps > 0:
            nsteps -= 1
            r = rng.random()
            if r < 0.25 and any(x[2] is not None for x in mans):
                # a dictionary written now, other operations (among them changes of the key names), read back
                seq = [0.7] + [rng.choice([0.4, 0.5, 0.2]) for _ in range(rng.randint(1, 3))] + [0.9]
            else:
                seq = [r]
            for q in seq:
                if not step(q):
                    return

    for _ in range(ctx.scale(90, 600)):
        try:
            session()
        finally:
            hyruns.reset_dict_keyname()

    bad, nshards, failed = cm.run_case_files(PID, HEADER, "hcase", "h_ok", terms, shard=1500, max_bytes=200000)
    ctx.notes["correspondence_cases"] = len(terms)
    ctx.notes["correspondence_mismatches"] = len(bad)
    for k in range(nshards):
        ctx.obligation(f"Cases_{PID}_{k}.agree (model = implementation on the shard)", True)
    cm.settle(ctx, proved, bad, failed, orc_fail, lambda i: replays[i],
              "Model/Hyruns.v vs hyruns.py")
    return ctx.finish()
