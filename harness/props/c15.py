"""C15 - point-in-polygon answers agree with the even-odd rule.

Three parts (HOWTO.md):
  * cm.prove: theorems of coq/Props/C15.v (crossing-number parity, invariances,
    bounding box, cells_inside_polygon as a filter);
  * correspondence inside Coq (Model/Polygon.v, binary64 instance) against
    gutils.points_inside_polygon, the bare kernel c_inside (ctypes) and
    Grid.cells_inside_polygon - exact comparison (integers; coordinates f_same);
  * an oracle that shares nothing with the model: exact integer arithmetic on
    the binary64 inputs, a ray cast in a generic (non-horizontal) direction,
    only for points farther than 1e-6 x polygon size from every edge.

The property quantifies over polygons, points and grids - not over what was done
before with the objects that carry them.  Besides the "build, ask once" cases the
check therefore takes objects through recorded sequences of operations and judges
EVERY answer on the way with the same oracle / the same model:
  * GridLife: Grid objects (constructor, from_dict) whose public geometry
    attributes are assigned in place, that are copied (clone, clone(dtype),
    deepcopy, copy, pickle, apply, to_dict/from_dict) and then moved / rescaled on
    one side only, that get an unrelated sibling of the same shape, are clipped,
    have other methods called and their data / returned tables edited, and are
    asked about a polygon that follows the grid (invariance under translating /
    scaling polygon and grid together: keys C15/invariance/grid-*) or stays;
    the caller's polygon ndarray is rewritten in place between queries;
  * ArrayLife: calls of points_inside_polygon on the caller's points / polygon
    arrays rewritten in place, with the answer vector handed back, while vectors
    returned by earlier calls are still held (and must still be right).
Replays of these cases carry the whole sequence ("steps" / "calls") and are
re-executed by --replay.

The tolerance 1e-8 is absolute and the property bounds coordinate DIFFERENCES from below,
not coordinates: small polygons far from the origin (projected coordinates, offset / size
up to 1e7), polygons as small as the quantifier allows and huge ones are inside it.  The
"far" sections build polygons with steep / flat edges on a dyadic grid, put query points
in the slivers beside those edges and ask in unit coordinates and after placements
X = s*(x + u) that are exact in binary64: same exact even-odd answer, and the
implementation's answer must not change (keys C15/invariance/translate-exact, scale-exact,
translate-scale-exact; grid-translate / grid-scale for cells_inside_polygon).
"""
import copy
import ctypes
import math
import pickle
import time
from fractions import Fraction as Fr

import numpy as np

from harness import common as cm

PID = "C15"
HEADER = ("From Coq Require Import ZArith List PrimFloat.\n"
          "From Hy Require Import Base.Num Model.Grid Model.Polygon.")

ATOL = 1e-8            # the property's absolute tolerance
MIN_DIFF = 1e-6        # "coordinates differ by much more than 1e-8": 0 or >= 100 x atol
FAR2 = 10 ** 12        # distance > 1e-6 x size  <=>  FAR2 * d^2 > size^2
MAX_OFFSET = 1e7       # |coordinates| <= 1e7 x size: one ulp there is 1.9e-9 x size, the abscissa of an
                       # intersection is off by a few ulps, the judged points are >= 1e-6 x size away
                       # (small catchments in UTM-like coordinates: unit polygon at northing 6.2e6)
QV = 16                # sliver classes: vertices are multiples of 2^-QV in unit coordinates,
QP = 24                # points multiples of 2^-QP, so that the placements below are exact in binary64


# ----------------------------------------------------------------------------
# exact arithmetic on binary64 inputs (all coordinates scaled to integers)

def _ints(vals):
    """integers n_i and a power of two D with vals[i] = n_i / D exactly"""
    ratios = [float(v).as_integer_ratio() for v in vals]
    D = max(d for _, d in ratios)
    return [n * (D // d) for n, d in ratios], D


def exact_setup(poly, pts):
    """poly, pts: lists of (x, y) finite floats -> integer vertices, integer points, size^2"""
    flat = [c for p in poly for c in p] + [c for p in pts for c in p]
    ints, _ = _ints(flat)
    nv = len(poly)
    V = [(ints[2 * i], ints[2 * i + 1]) for i in range(nv)]
    P = [(ints[2 * (nv + i)], ints[2 * (nv + i) + 1]) for i in range(len(pts))]
    xs = [v[0] for v in V]
    ys = [v[1] for v in V]
    size2 = (max(xs) - min(xs)) ** 2 + (max(ys) - min(ys)) ** 2
    return V, P, size2


def is_far(V, p, size2):
    """point farther than 1e-6 x size (bounding-box diagonal) from every edge"""
    n = len(V)
    px, py = p
    for i in range(n):
        ax, ay = V[i]
        bx, by = V[(i + 1) % n]
        ex, ey = bx - ax, by - ay
        wx, wy = px - ax, py - ay
        L = ex * ex + ey * ey
        t = wx * ex + wy * ey
        if L == 0 or t <= 0:
            if FAR2 * (wx * wx + wy * wy) <= size2:
                return False
        elif t >= L:
            ux, uy = px - bx, py - by
            if FAR2 * (ux * ux + uy * uy) <= size2:
                return False
        else:
            c = wx * ey - wy * ex
            if FAR2 * c * c <= size2 * L:
                return False
    return True


def _sgn(v):
    return (v > 0) - (v < 0)


def evenodd(V, p, rng, avoid=None):
    """parity of the number of edges met by a ray from p in a generic direction
    (never horizontal: the implementation's own ray is horizontal).
    Returns (parity, direction)."""
    n = len(V)
    px, py = p
    for _ in range(200):
        a, b = rng.randint(-40, 40), rng.choice([-1, 1]) * rng.randint(1, 40)
        if avoid is not None and a * avoid[1] - b * avoid[0] == 0:
            continue
        s = [a * (vy - py) - b * (vx - px) for vx, vy in V]
        if all(s):
            break
    else:
        raise RuntimeError("no generic ray direction found (point on a vertex?)")
    cnt = 0
    for i in range(n):
        j = (i + 1) % n
        if (s[i] > 0) == (s[j] > 0):
            continue
        ax, ay = V[i]
        ex, ey = V[j][0] - ax, V[j][1] - ay
        num = (ax - px) * ey - (ay - py) * ex
        den = a * ey - b * ex
        if _sgn(num) * _sgn(den) > 0:
            cnt += 1
    return cnt & 1, (a, b)


def in_quantifier(poly):
    """>= 3 vertices, finite, and every pair of consecutive vertices has each
    coordinate either equal or differing by >= MIN_DIFF; coordinates not larger
    than MAX_OFFSET x size"""
    n = len(poly)
    if n < 3:
        return False
    if not all(math.isfinite(c) for p in poly for c in p):
        return False
    xs = [p[0] for p in poly]
    ys = [p[1] for p in poly]
    size = math.hypot(max(xs) - min(xs), max(ys) - min(ys))
    if size <= 0 or not math.isfinite(size):
        return False
    if max(abs(c) for p in poly for c in p) > MAX_OFFSET * size:
        return False
    for i in range(n):
        a, b = poly[i], poly[(i + 1) % n]
        for k in (0, 1):
            d = abs(a[k] - b[k])
            if d != 0 and d < MIN_DIFF:
                return False
    return True


# ----------------------------------------------------------------------------
# generators

def base_polygon(rng):
    """polygon in 'unit' coordinates (roughly [0, 6]^2) and its family"""
    fam = rng.choice(["lattice", "lattice", "ortho", "star", "random", "dup", "collinear",
                      "convex", "halfgrid"])
    n = rng.choice([3, 3, 4, 4, 5, 6, 7, 8, 10, 13])
    if fam == "lattice":
        m = rng.choice([2, 3, 4, 6])
        poly = [(float(rng.randint(0, m)), float(rng.randint(0, m))) for _ in range(n)]
    elif fam == "halfgrid":
        poly = [(rng.randint(0, 8) / 2.0, rng.randint(0, 8) / 2.0) for _ in range(n)]
    elif fam == "ortho":   # alternately horizontal and vertical edges
        k = max(2, n // 2)
        x, y = float(rng.randint(0, 5)), float(rng.randint(0, 5))
        poly = []
        for _ in range(k):
            poly.append((x, y))
            x = float(rng.randint(0, 5))
            poly.append((x, y))
            y = float(rng.randint(0, 5))
    elif fam == "star":
        ang = sorted(rng.uniform(0, 2 * math.pi) for _ in range(n))
        poly = [(3 + rng.uniform(0.4, 3) * math.cos(a), 3 + rng.uniform(0.4, 3) * math.sin(a)) for a in ang]
    elif fam == "convex":
        ph = rng.uniform(0, 1)
        poly = [(3 + 2.5 * math.cos(ph + 2 * math.pi * i / n), 3 + 2.5 * math.sin(ph + 2 * math.pi * i / n))
                for i in range(n)]
        if rng.random() < 0.5:
            poly.reverse()
    elif fam == "random":
        poly = [(rng.uniform(0, 6), rng.uniform(0, 6)) for _ in range(n)]
    elif fam == "dup":     # repeated vertices, consecutive and not
        poly = [(float(rng.randint(0, 4)), float(rng.randint(0, 4))) for _ in range(n)]
        for _ in range(rng.randint(1, 3)):
            k = rng.randrange(len(poly))
            poly.insert(rng.choice([k, k + 1, rng.randrange(len(poly) + 1)]), poly[k])
    else:                  # collinear: extra vertices on the edges of a lattice polygon
        core = [(float(rng.randint(0, 4)), float(rng.randint(0, 4))) for _ in range(max(3, n // 2))]
        poly = []
        for i, a in enumerate(core):
            b = core[(i + 1) % len(core)]
            poly.append(a)
            for _ in range(rng.randint(0, 2)):
                t = rng.choice([0.25, 0.5, 0.75])
                poly.append((a[0] + t * (b[0] - a[0]), a[1] + t * (b[1] - a[1])))
    return fam, poly


def base_points(rng, poly, npts):
    xs = [p[0] for p in poly]
    ys = [p[1] for p in poly]
    x0, x1, y0, y1 = min(xs), max(xs), min(ys), max(ys)
    w, h = (x1 - x0) or 1.0, (y1 - y0) or 1.0
    pts = []
    for _ in range(npts):
        r = rng.random()
        if r < 0.12:     # convex combination of two or three vertices (often inside)
            a, b, c3 = rng.choice(poly), rng.choice(poly), rng.choice(poly)
            u, v = rng.random(), rng.random()
            if u + v > 1:
                u, v = 1 - u, 1 - v
            if rng.random() < 0.3:
                v = 0.0
            pts.append((a[0] + u * (b[0] - a[0]) + v * (c3[0] - a[0]),
                        a[1] + u * (b[1] - a[1]) + v * (c3[1] - a[1])))
        elif r < 0.36:   # level with a vertex / below-above a vertex
            pts.append((rng.choice(xs) + rng.choice([0, 0, .5, -.5, .25, -.125, rng.uniform(-1, 1)]),
                        rng.choice(ys) + rng.choice([0, 0, 0, .5, -.5, .25, -.125])))
        elif r < 0.45:   # half-lattice points
            pts.append((rng.randint(-2, 14) / 2.0, rng.randint(-2, 14) / 2.0))
        elif r < 0.75:   # anywhere around the extent
            pts.append((rng.uniform(x0 - 0.3 * w, x1 + 0.3 * w), rng.uniform(y0 - 0.3 * h, y1 + 0.3 * h)))
        elif r < 0.85:   # on the lines bounding the extent
            if rng.random() < 0.5:
                pts.append((rng.choice([x0, x1]), rng.uniform(y0 - 0.2 * h, y1 + 0.2 * h)))
            else:
                pts.append((rng.uniform(x0 - 0.2 * w, x1 + 0.2 * w), rng.choice([y0, y1])))
        elif r < 0.95:   # outside the extent, each side
            side = rng.randrange(4)
            d = rng.choice([1e-3, 0.1, 1.0, 50.0])
            if side == 0:
                pts.append((x0 - d * w, rng.choice(ys + [rng.uniform(y0, y1)])))
            elif side == 1:
                pts.append((x1 + d * w, rng.choice(ys + [rng.uniform(y0, y1)])))
            elif side == 2:
                pts.append((rng.choice(xs + [rng.uniform(x0, x1)]), y0 - d * h))
            else:
                pts.append((rng.choice(xs + [rng.uniform(x0, x1)]), y1 + d * h))
        else:            # a vertex itself / an edge midpoint (on the boundary: correspondence only)
            k = rng.randrange(len(poly))
            a, b = poly[k], poly[(k + 1) % len(poly)]
            t = rng.choice([0.0, 0.5])
            pts.append((a[0] + t * (b[0] - a[0]), a[1] + t * (b[1] - a[1])))
    return pts


def affine(rng):
    """scale and offset applied (in binary64) to polygon and points together"""
    c = rng.choice([1.0, 1.0, 2.0 ** -10, 2.0 ** 12, 1e-3, 1e4, 0.37, 111320.0])
    off = rng.choice([(0.0, 0.0), (0.0, 0.0), (-5.0, 3.0), (123.456, -7.5), (1e3, -1e3),
                      (3.2e4, 6.1e5), (-1e5, 2e4)])
    return c, off


def apply_affine(c, off, seq):
    return [(c * x + off[0] * c, c * y + off[1] * c) for x, y in seq]


VARIANTS = ["rotate", "reverse", "close", "mixed", "translate", "scale"]


def make_variant(rng, kind, poly, pts):
    """-> (polygon', points', same_data) ; same_data: the vertex set and the points
    are the identical binary64 numbers (only the list differs)"""
    n = len(poly)
    if kind == "rotate":
        k = rng.randrange(1, n) if n > 1 else 0
        return poly[k:] + poly[:k], pts, True
    if kind == "reverse":
        return poly[::-1], pts, True
    if kind == "close":
        return poly + [poly[0]], pts, True
    if kind == "mixed":
        k = rng.randrange(n)
        q = (poly[k:] + poly[:k])[::-1]
        return q + [q[0]], pts, True
    xs = [p[0] for p in poly]
    ys = [p[1] for p in poly]
    size = math.hypot(max(xs) - min(xs), max(ys) - min(ys)) or 1.0
    if kind == "translate":
        t = rng.choice([(1.0, -2.0), (size, 3 * size), (1e3 * size, -4e4 * size),
                        (rng.uniform(-10, 10) * size, rng.uniform(-10, 10) * size)])
        return ([(x + t[0], y + t[1]) for x, y in poly],
                [(x + t[0], y + t[1]) for x, y in pts], False)
    c = rng.choice([2.0, 0.5, 2.0 ** 7, 2.0 ** -6, 3.0, 0.37, 1234.5, 1e-2])
    return [(c * x, c * y) for x, y in poly], [(c * x, c * y) for x, y in pts], False


# ----------------------------------------------------------------------------
# implementation runners

def run_inside(case):
    """public API; -> list of ints, or None for ValueError"""
    from hydrodiy.gis import gutils
    pts = np.array(case["pts"], dtype=np.float64).reshape(-1, 2)
    poly = np.array(case["poly"], dtype=np.float64).reshape(-1, 2)
    kw = {}
    if case.get("atol") is not None:
        kw["atol"] = case["atol"]
    il = case.get("inside_len")
    if il is not None:
        kw["inside"] = np.full(il, 7, dtype=np.int32)   # garbage that must be overwritten
    try:
        out = gutils.points_inside_polygon(pts, poly, **kw)
    except ValueError:
        return None
    if il is not None and out is not kw["inside"]:
        return ["not-in-place"]
    return [int(v) for v in out]


_KLIB = None


def run_kernel(case):
    global _KLIB
    if _KLIB is None:
        _KLIB = ctypes.CDLL(str(cm.build_kernel_lib()))
        dp, ip = ctypes.POINTER(ctypes.c_double), ctypes.POINTER(ctypes.c_int)
        _KLIB.c_inside.argtypes = [ctypes.c_int, ctypes.c_int, dp, ctypes.c_int, dp,
                                   ctypes.c_double, dp, dp, ip]
        _KLIB.c_inside.restype = ctypes.c_int
    pts = np.ascontiguousarray(np.array(case["pts"], dtype=np.float64).reshape(-1, 2))
    poly = np.ascontiguousarray(np.array(case["poly"], dtype=np.float64).reshape(-1, 2))
    xlim = np.array(case["xlim"], dtype=np.float64)
    ylim = np.array(case["ylim"], dtype=np.float64)
    ins = np.array(case["init"], dtype=np.int32)
    dp, ip = ctypes.POINTER(ctypes.c_double), ctypes.POINTER(ctypes.c_int)
    ierr = _KLIB.c_inside(0, len(pts), pts.ctypes.data_as(dp), len(poly), poly.ctypes.data_as(dp),
                          float(case["atol"]), xlim.ctypes.data_as(dp), ylim.ctypes.data_as(dp),
                          ins.ctypes.data_as(ip))
    if ierr != 0:
        return ["ierr", int(ierr)]
    return [int(v) for v in ins]


def query_grid(g, poly, atol):
    """cells_inside_polygon of an existing Grid object -> (rows, table), rows None for ValueError"""
    try:
        df = g.cells_inside_polygon(poly, atol=atol)
    except ValueError:
        return None, None
    return [[float(x), float(y), int(c)] for x, y, c in zip(df["x"], df["y"], df["cell"])], df


def run_cells(case):
    from hydrodiy.gis.grid import Grid
    g = Grid("g", case["ncols"], case["nrows"], cellsize=case["csz"],
             xllcorner=case["xll"], yllcorner=case["yll"])
    poly = np.array(case["poly"], dtype=np.float64).reshape(-1, 2)
    return query_grid(g, poly, case["atol"])[0]


# ----------------------------------------------------------------------------
# objects with a history: the property quantifies over polygons and points / grid cells,
# whatever was done before with the objects that carry them

GEOM_KEYS = ("nrows", "ncols", "xll", "yll", "csz")
COPY_HOW = ["clone", "clone", "clone_dtype", "deepcopy", "copy", "pickle", "apply", "dict"]
TOUCH_WHAT = ["fill", "data", "setitem", "axes", "cell2coord", "coord2cell", "neighbours", "str",
              "name", "nodata", "dtype"]


class GridLife:
    """Grid objects derived from one another, taken through a recorded sequence of steps
    (construction, queries, assignment of the public geometry attributes, copies, clipping,
    calls of other methods, edits of returned tables).  `geom[k]` is the geometry the CALLER
    gave object k (constructor arguments, later assignments); a query returns the rows
    reported for object k, to be judged against that geometry."""

    def __init__(self):
        self.objs, self.geom, self.tables = [], [], []
        self.parr = None          # the caller's polygon array, re-used in place when the shape allows
        self.steps = []

    def _push(self, obj, geom):
        self.objs.append(obj)
        self.geom.append(geom)
        self.tables.append(None)
        return len(self.objs) - 1

    def case(self, step):
        c = dict(self.geom[step["obj"]])
        c["poly"] = [tuple(p) for p in step["poly"]]
        c["atol"] = step["atol"]
        return c

    def do(self, step):
        """one step; -> rows (or None) for a query, the index of the new object for new /
        copy / clip (None when the library refused), else None"""
        from hydrodiy.gis.grid import Grid
        self.steps.append(step)
        op = step["op"]
        if op == "new":
            g = step["geom"]
            kw = dict(name="g", ncols=g["ncols"], nrows=g["nrows"], cellsize=g["csz"],
                      xllcorner=g["xll"], yllcorner=g["yll"])
            obj = Grid(**kw) if step["how"] == "init" else Grid.from_dict(kw)
            return self._push(obj, {k: g[k] for k in GEOM_KEYS})
        k = step["obj"]
        g = self.objs[k]
        if op == "query":
            poly = np.array(step["poly"], dtype=np.float64).reshape(-1, 2)
            if step.get("inplace") and self.parr is not None and self.parr.shape == poly.shape:
                self.parr[...] = poly          # same ndarray object, new content
            else:
                self.parr = poly
            rows, self.tables[k] = query_grid(g, self.parr, step["atol"])
            return rows
        if op == "set":
            for attr, key in (("xllcorner", "xll"), ("yllcorner", "yll"), ("cellsize", "csz")):
                if key in step:
                    v = float(step[key])
                    setattr(g, attr, np.float64(v) if step.get("np") else v)
                    self.geom[k][key] = v
            return None
        try:
            if op == "copy":
                how = step["how"]
                if how == "clone":
                    new = g.clone()
                elif how == "clone_dtype":
                    new = g.clone(np.int32)
                elif how == "deepcopy":
                    new = copy.deepcopy(g)
                elif how == "copy":
                    new = copy.copy(g)
                elif how == "pickle":
                    new = pickle.loads(pickle.dumps(g))
                elif how == "apply":
                    new = g.apply(np.negative)
                else:
                    new = Grid.from_dict(g.to_dict())
                return self._push(new, dict(self.geom[k]))
            if op == "clip":
                new = g.clip(*step["box"])
                return self._push(new, {"nrows": int(new.nrows), "ncols": int(new.ncols),
                                        "xll": float(new.xllcorner), "yll": float(new.yllcorner),
                                        "csz": float(new.cellsize)})
            if op == "touch":      # nothing here concerns the geometry
                what = step["what"]
                nr, nc = int(g.nrows), int(g.ncols)
                cells = np.arange(nr * nc)
                if what == "fill":
                    g.fill(3.0)
                elif what == "data":
                    g.data = np.arange(nr * nc, dtype=np.float64).reshape(nr, nc)
                elif what == "setitem":
                    g[0] = 5.0
                elif what == "axes":
                    _ = (g.xvalues, g.yvalues, g.xlim, g.ylim, g.shape)
                elif what == "cell2coord":
                    _ = (g.cell2coord(cells[::-1]), g.cell2coord(0))
                elif what == "coord2cell":
                    _ = g.coord2cell(g.cell2coord(cells))
                elif what == "neighbours":
                    _ = g.neighbours(0)
                elif what == "str":
                    _ = str(g)
                elif what == "name":
                    g.name, g.comment = "renamed", "renamed grid"
                elif what == "nodata":
                    g.nodata = -9999
                else:
                    g.dtype = np.float32
            elif op == "scribble":  # the caller edits the table it was given
                df = self.tables[k]
                if df is not None and len(df):
                    df["x"] += 1000.0
                    df["cell"] = -1
                    df.drop(df.index[:1], inplace=True)
        except Exception as e:      # not the property's subject: recorded, the sequence goes on
            step["raised"] = f"{type(e).__name__}: {e}"
        return None


def random_geom(rng, ctx):
    nrows = rng.choice([1, 2, 3, rng.randint(1, ctx.scale(12, 30))])
    ncols = rng.choice([1, 2, 3, rng.randint(1, ctx.scale(12, 30))])
    csz = rng.choice([1.0, 0.5, 0.25, 0.05, 30.0, 0.1, 1000.0])
    xll = rng.choice([0.0, -3 * csz, 1e4 * csz, 123.456 * csz, rng.uniform(-10, 10) * csz])
    yll = rng.choice([0.0, 2 * csz, -1e4 * csz, rng.uniform(-10, 10) * csz])
    return {"nrows": nrows, "ncols": ncols, "xll": xll, "yll": yll, "csz": csz}


def cell_polygon(rng, nrows, ncols):
    """polygon in CELL units from the grid's lower-left corner (it can follow the grid when
    the grid is moved or rescaled), over the grid and partly overhanging -> family, [(u, v)]"""
    fam, upoly = base_polygon(rng)
    fx = ncols / 6.0 * rng.choice([1.0, 0.7, 1.3])
    fy = nrows / 6.0 * rng.choice([1.0, 0.7, 1.3])
    if fam in ("lattice", "ortho", "dup", "collinear", "halfgrid") and rng.random() < 0.6:
        fx = fy = rng.choice([0.5, 1.0, 2.0])     # vertices on cell corners / centres
    ou = rng.choice([0, 0, -1, 0.5, rng.uniform(-1, 1)])
    ov = rng.choice([0, 0, -1, 0.5, rng.uniform(-1, 1)])
    return fam, [(ou + fx * x, ov + fy * y) for x, y in upoly]


def place(geom, cpoly):
    return [(geom["xll"] + geom["csz"] * u, geom["yll"] + geom["csz"] * v) for u, v in cpoly]


def new_corner(rng, old, csz):
    if rng.random() < 0.6:     # by whole cells / a fraction of a cell
        return old + csz * rng.choice([1, -1, 2, 3, -4, 0.5, -0.5, 0.25, 7])
    return rng.choice([0.0, -3 * csz, 1e4 * csz, 123.456 * csz, rng.uniform(-10, 10) * csz, 130.0])


def new_cellsize(rng, old):
    while True:
        v = rng.choice([1.0, 0.5, 0.25, 0.05, 30.0, 0.1, 1000.0, old * 2, old / 2, old * 3, old / 4])
        if v != old:
            return v


class ArrayLife:
    """the caller's points / polygon / answer arrays kept over a sequence of calls of
    points_inside_polygon: content rewritten in place, answer vector handed back"""

    def __init__(self):
        self.P = self.Q = self.I = None

    def call(self, st):
        """-> (returned ndarray or None, answers as a list or None)"""
        from hydrodiy.gis import gutils
        pts = np.array(st["pts"], dtype=np.float64).reshape(-1, 2)
        poly = np.array(st["poly"], dtype=np.float64).reshape(-1, 2)
        if st["same_pts_array"] and self.P is not None and self.P.shape == pts.shape:
            self.P[...] = pts
        else:
            self.P = pts
        if st["same_poly_array"] and self.Q is not None and self.Q.shape == poly.shape:
            self.Q[...] = poly
        else:
            self.Q = poly
        kw = {}
        if st["inside"] == "own":   # holds the answers of the previous call (7s at first)
            if self.I is None or len(self.I) != len(pts):
                self.I = np.full(len(pts), 7, dtype=np.int32)
            kw["inside"] = self.I
        try:
            out = gutils.points_inside_polygon(self.P, self.Q, **kw)
        except ValueError:
            return None, None
        if st["inside"] == "own" and out is not self.I:
            return out, ["not-in-place"]
        return out, [int(v) for v in out]


def polygon_edit(rng, poly, pts):
    """another polygon with the SAME number of vertices (it fits the caller's array)
    -> (kind, polygon, points move along?)"""
    n = len(poly)
    xs = [p[0] for p in poly]
    ys = [p[1] for p in poly]
    w, h = (max(xs) - min(xs)) or 1.0, (max(ys) - min(ys)) or 1.0
    kind = rng.choice(["shift", "shift", "shuffle", "vertex", "rotate", "reverse", "mirror"])
    if kind == "shift":       # polygon moved, points stay
        dx, dy = rng.choice([0.25, 0.5, -0.5, 1.0, -2.0, 0.0]) * w, rng.choice([0.25, 0.5, -0.5, 1.0, 0.0]) * h
        return kind, [(x + dx, y + dy) for x, y in poly], False
    if kind == "shuffle":
        q = list(poly)
        rng.shuffle(q)
        return kind, q, False
    if kind == "vertex":
        q = list(poly)
        q[rng.randrange(n)] = (min(xs) + rng.choice([0, 0.25, 0.5, 1.0, 1.5]) * w,
                               min(ys) + rng.choice([0, 0.25, 0.5, 1.0, -0.5]) * h)
        return kind, q, False
    if kind == "mirror":
        c = min(xs) + max(xs)
        return kind, [(c - x, y) for x, y in poly], False
    q, _, _ = make_variant(rng, kind, poly, pts)
    return kind, q, False


# ----------------------------------------------------------------------------
# small polygons far from the origin, steep / flat edges, points beside them
#
# The tolerance of the kernel is ABSOLUTE (1e-8); the property's quantifier bounds the coordinate
# differences from below, not the coordinates: a polygon of size 1 at (5e5, 6.2e6), with an edge
# whose dx is 0.01 (steep, not vertical) or whose dy is 0.01 (flat, not horizontal), and a query
# point in the sliver between that edge and the vertical / horizontal line through one of its
# ends, is inside the quantifier.  Such polygons are built in "unit" coordinates on a dyadic
# grid and then placed by X = s*(x + u) with s a power of two and u a multiple of the grid
# step: the placement is EXACT in binary64, hence the exact even-odd answer and the relative
# distance to the edges are those of the unit polygon, and the answer of the implementation
# has to be the same in both places (translation / scaling invariance without any rounding).

def _q(v, bits):
    return round(v * (1 << bits)) / (1 << bits)


def small_eps(rng, lo=2, hi=QV):
    """+-dyadic number, log-uniform in [2^-hi, 2^-lo] (non-zero multiple of 2^-QV)"""
    e = max(_q(2.0 ** -rng.uniform(lo, hi), QV), 2.0 ** -QV)
    return e if rng.random() < 0.5 else -e


def _family(rng, wanted):
    while True:
        fam, poly = base_polygon(rng)
        if fam in wanted:
            return fam, poly


def sliver_polygon(rng):
    """polygon in unit coordinates (about [0, 6]^2, multiples of 2^-QV) with edges that are
    nearly - not exactly - vertical / horizontal: |dx| or |dy| between 2^-16 and 2^-2"""
    fam = rng.choice(["nearortho", "nearortho", "shear", "steep", "steep", "needle", "jitter", "plain"])
    if fam == "nearortho":      # rectilinear polygon, every vertex off its place by tiny amounts
        _, poly = _family(rng, ("ortho",))
        poly = [(x + rng.choice([0, 1, 1]) * small_eps(rng), y + rng.choice([0, 1, 1]) * small_eps(rng))
                for x, y in poly]
    elif fam == "shear":        # lattice polygon sheared: vertical edges become steep, horizontal ones flat
        _, poly = _family(rng, ("lattice", "halfgrid", "collinear", "dup", "ortho"))
        e1, e2 = rng.choice([(1, 0), (0, 1), (1, 1)])
        e1, e2 = e1 * small_eps(rng, 4), e2 * small_eps(rng, 4)
        poly = [(x + e1 * y, y + e2 * x) for x, y in poly]
    elif fam == "steep":        # star / convex / random polygon, some edges made steep or flat
        _, poly = _family(rng, ("star", "convex", "random"))
        n = len(poly)
        for _ in range(rng.randint(1, 3)):
            i = rng.randrange(n)
            a, b = poly[i], poly[(i + 1) % n]
            poly[(i + 1) % n] = (a[0] + small_eps(rng), b[1]) if rng.random() < 0.5 else \
                                (b[0], a[1] + small_eps(rng))
    elif fam == "needle":       # the polygon itself is a sliver (thin triangle / quadrilateral)
        L = rng.choice([1.0, 2.0, 5.0, rng.uniform(0.5, 6)])
        e = [abs(small_eps(rng)) for _ in range(4)]
        poly = [(0.0, 0.0), (L, e[0]), (L + rng.choice([0, 1, -1]) * e[1], e[0] + e[2])]
        if rng.random() < 0.5:
            poly.append((rng.choice([0, 1, -1]) * e[3], e[2] * rng.choice([0.5, 1.0, 2.0])))
        if rng.random() < 0.5:
            poly = [(y, x) for x, y in poly]
        if rng.random() < 0.5:
            poly.reverse()
        ox, oy = rng.randint(0, 3), rng.randint(0, 3)
        poly = [(x + ox, y + oy) for x, y in poly]
    elif fam == "jitter":       # lattice polygon with every vertex jittered independently
        _, poly = _family(rng, ("lattice", "halfgrid", "dup"))
        poly = [(x + small_eps(rng, 5), y + small_eps(rng, 5)) for x, y in poly]
    else:                       # whatever slope the family gives (moderately steep edges)
        _, poly = _family(rng, ("star", "random", "convex"))
    return fam, [(_q(x, QV), _q(y, QV)) for x, y in poly]


def sliver_points(rng, poly, npts):
    """query points beside the steep / flat edges: in the bounding box of an edge (the sliver on
    either side of it), level with / above / below a point of the edge at a distance of the order
    of its |dx| / |dy|, in its y-band / x-band across the extent; multiples of 2^-QP"""
    n = len(poly)
    xs = [p[0] for p in poly]
    ys = [p[1] for p in poly]
    x0, x1, y0, y1 = min(xs), max(xs), min(ys), max(ys)
    w, h = (x1 - x0) or 1.0, (y1 - y0) or 1.0
    edges = [(poly[i], poly[(i + 1) % n]) for i in range(n) if poly[i] != poly[(i + 1) % n]]
    if not edges:
        return [(_q(x, QP), _q(y, QP)) for x, y in base_points(rng, poly, npts)]
    thin = [(a, b) for a, b in edges
            if 0 < abs(a[0] - b[0]) <= 0.3 or 0 < abs(a[1] - b[1]) <= 0.3] or edges
    mult = [0.3, 0.5, 1, 1, 2, 5, 20]
    pts = []
    for _ in range(npts):
        a, b = rng.choice(thin if rng.random() < 0.8 else edges)
        dx, dy = b[0] - a[0], b[1] - a[1]
        r = rng.random()
        if r < 0.35:
            p = (a[0] + rng.random() * dx, a[1] + rng.random() * dy)
        elif r < 0.57:
            t = rng.random()
            d = rng.choice([abs(dx), abs(dx), abs(dy), w / 8]) * rng.choice(mult) * rng.choice([-1, 1])
            p = (a[0] + t * dx + d, a[1] + t * dy)
        elif r < 0.79:
            t = rng.random()
            d = rng.choice([abs(dy), abs(dy), abs(dx), h / 8]) * rng.choice(mult) * rng.choice([-1, 1])
            p = (a[0] + t * dx, a[1] + t * dy + d)
        elif r < 0.9:
            if rng.random() < 0.5:
                p = (rng.uniform(x0 - 0.2 * w, x1 + 0.2 * w), a[1] + rng.random() * dy)
            else:
                p = (a[0] + rng.random() * dx, rng.uniform(y0 - 0.2 * h, y1 + 0.2 * h))
        else:
            p = base_points(rng, poly, 1)[0]
        pts.append((_q(p[0], QP), _q(p[1], QP)))
    return pts


UTM_LIKE = [(5.0e5, 6.2e6), (-3.1e6, 7.4e6), (2.5e5, -3.9e6), (8.3e5, 1.2e5), (1.66e5, 9.99e6),
            (7.5e5, 0.5), (-1.2345e6, -2.5e6), (4.0e6, 4.0e6)]


def placement(rng, poly):
    """-> (kind, s, ux, uy): X = s*(x + ux), Y = s*(y + uy); s a power of two, ux, uy multiples
    of 1/8.  Offsets up to 1e7 x polygon size (the check's bound for binary64), sizes from the
    smallest the quantifier allows (coordinate differences >= 1e-6) to 2^24"""
    xs = [p[0] for p in poly]
    ys = [p[1] for p in poly]
    size = math.hypot(max(xs) - min(xs), max(ys) - min(ys))
    diffs = [abs(poly[i][k] - poly[(i + 1) % len(poly)][k]) for i in range(len(poly)) for k in (0, 1)]
    mind = min([d for d in diffs if d > 0] or [1.0])
    kind = rng.choice(["far", "far", "far", "far", "utm", "utm", "oneaxis", "tiny", "huge", "limit"])
    frac = rng.choice([0.0, 0.0, 0.5, 0.25, 0.125])

    def off(r):
        return float(rng.choice([-1, 1]) * round(r * size)) + frac

    if kind == "tiny":          # as small as the quantifier allows (differences just above 1e-6), near the origin
        kmax = max(0, int(math.floor(math.log2(mind / MIN_DIFF))))
        s = 2.0 ** -rng.choice([kmax, kmax, max(0, kmax - 1), rng.randint(0, kmax)])
        ux, uy = rng.choice([(0.0, 0.0), (0.0, 0.0), (-3.0, 2.0), (float(rng.randint(-50, 50)), 7.0)])
        return kind, s, ux, uy
    if kind == "huge":
        s = 2.0 ** rng.randint(11, 24)
        if rng.random() < 0.5:
            return kind, s, 0.0, 0.0
        r = 10 ** rng.uniform(1, 6.9)
        return kind, s, off(r), off(r * rng.random())
    if kind == "utm":           # metres: the polygon is 1 .. 8 units wide times s
        s = 2.0 ** rng.choice([0, 0, 0, -1, 1, 3, 5])
        ox, oy = rng.choice(UTM_LIKE)
        if rng.random() < 0.3:
            ox, oy = oy, ox
        return kind, s, ox / s, oy / s
    if kind == "limit":         # the largest offset the check allows for this polygon
        r = 0.97e7
        s = 2.0 ** rng.randint(-2, 10)
        a, b = rng.choice([(1, 1), (1, 0), (0, 1), (1, -1)])
        return kind, s, a * off(r) if a else 0.0, b * off(r) if b else 0.0
    s = 2.0 ** rng.randint(-2, 10)
    r = 10 ** rng.uniform(2, 6.95)
    if kind == "oneaxis":
        small = float(rng.randint(-20, 20))
        return (kind, s, off(r), small) if rng.random() < 0.5 else (kind, s, small, off(r))
    big, other = off(r), off(r * rng.choice([1.0, rng.random()]))
    return (kind, s, big, other) if rng.random() < 0.5 else (kind, s, other, big)


def place_exact(s, ux, uy, seq):
    """-> (placed sequence, exact?)  exact: no operation rounded (verified in rationals)"""
    out, exact = [], True
    fs, fx, fy = Fr(s), Fr(ux), Fr(uy)
    for x, y in seq:
        X, Y = s * (x + ux), s * (y + uy)
        if not (math.isfinite(X) and math.isfinite(Y)) or Fr(X) != fs * (Fr(x) + fx) or Fr(Y) != fs * (Fr(y) + fy):
            exact = False
        out.append((X, Y))
    return out, exact


def sliver_cell_polygon(rng, nrows, ncols):
    """polygon in CELL units whose vertices sit near the lines through the cell centres
    (k + 1/2 +- eps) or the cell borders: steep / flat edges passing beside cell centres"""
    def coord(m):
        return rng.randint(-1, m) + rng.choice([0.5, 0.5, 0.5, 0.0]) + rng.choice([0, 1, 1, 1]) * small_eps(rng)
    n = rng.choice([3, 4, 4, 5, 6, 8])
    if rng.random() < 0.5:      # nearly rectilinear
        k = max(2, n // 2)
        x, y = coord(ncols), coord(nrows)
        poly = []
        for _ in range(k):
            poly.append((x + rng.choice([0, 1]) * small_eps(rng), y + rng.choice([0, 1]) * small_eps(rng)))
            x = coord(ncols)
            poly.append((x + rng.choice([0, 1]) * small_eps(rng), y + rng.choice([0, 1]) * small_eps(rng)))
            y = coord(nrows)
        fam = "cell-nearortho"
    else:
        poly = [(coord(ncols), coord(nrows)) for _ in range(n)]
        fam = "cell-free"
    return fam, [(_q(u, QV), _q(v, QV)) for u, v in poly]


def far_corner(rng, csz, ncells):
    """lower-left corner up to ~1e7 x (grid extent) away, a whole number of cells or UTM-like"""
    if rng.random() < 0.3:
        return None
    r = 10 ** rng.uniform(2, 6.5)
    return csz * float(rng.choice([-1, 1]) * round(r * max(1, ncells)))


# ----------------------------------------------------------------------------
# Coq terms

def cpt(p):
    return f"({cm.coq_float(p[0])}, {cm.coq_float(p[1])})"


def cpts(seq):
    return "[" + "; ".join(cpt(p) for p in seq) + "]"


def term_inside(case, out):
    atol = ATOL if case.get("atol") is None else case["atol"]
    il = case.get("inside_len")
    return "PInside %s %s %s %s %s" % (
        cm.coq_float(atol), cpts(case["pts"]), cpts(case["poly"]),
        cm.coq_option(il, cm.coq_z), cm.coq_option(out, cm.coq_zlist))


def term_kernel(case, out):
    return "PKernel %s %s %s %s %s %s %s" % (
        cm.coq_float(case["atol"]), cpt(case["xlim"]), cpt(case["ylim"]), cpts(case["pts"]),
        cpts(case["poly"]), cm.coq_zlist(case["init"]), cm.coq_zlist(out))


def term_cells(case, out):
    rows = None if out is None else \
        "[" + "; ".join(f"(({cm.coq_float(x)}, {cm.coq_float(y)}), {cm.coq_z(c)})" for x, y, c in out) + "]"
    return "PCells %s %s %s %s %s %s %s %s" % (
        cm.coq_z(case["nrows"]), cm.coq_z(case["ncols"]), cm.coq_float(case["xll"]),
        cm.coq_float(case["yll"]), cm.coq_float(case["csz"]), cpts(case["poly"]),
        cm.coq_float(case["atol"]), "None" if rows is None else f"(Some {rows})")


# ----------------------------------------------------------------------------

def poly_features(poly):
    n = len(poly)
    hor = ver = dup = False
    for i in range(n):
        a, b = poly[i], poly[(i + 1) % n]
        if a == b:
            dup = True
        elif a[1] == b[1]:
            hor = True
        elif a[0] == b[0]:
            ver = True
    return hor, ver, dup


def run(ctx):
    ctx.rule = ("base cases: polygon family (lattice / half-lattice / rectilinear / star / convex / random "
                "self-intersecting / repeated vertices / collinear vertices) with 3..16 vertices x affine map "
                "(scales 2^-10..1e5, offsets up to 6e6) x 12..30 points (level with vertices, half-lattice, "
                "around and on the extent lines, outside each side, on the boundary); each base case also in "
                "2 of 6 variants (rotate, reverse, close, all three, translate, scale); stress cases "
                "(0..2 vertices, NaN/inf, coordinate differences around the tolerance, other tolerances, "
                "caller-supplied and wrong-length inside vectors); the bare kernel (ctypes) on the true extent "
                "with a zero-filled vector; grids up to 12x12 (thorough 30x30) x polygons for "
                "cells_inside_polygon; Grid objects with a history (150 sequences, thorough 800: constructor / "
                "from_dict, then 2..5 of: xllcorner / yllcorner / cellsize assigned in place, clone / "
                "clone(dtype) / deepcopy / copy / pickle / apply / to_dict-from_dict copies of which one side "
                "is moved or rescaled and both are asked, an unrelated grid of the same shape elsewhere, clip, other methods and data edits, edits of the "
                "returned table, new polygon, same polygon ndarray rewritten in place; a query after every "
                "step, the polygon following the grid or staying where it was); sequences of 3..5 calls of "
                "points_inside_polygon on the caller's arrays (points / polygon arrays rewritten in place, "
                "answer vector handed back, vectors returned earlier still held); small / tiny / huge polygons with "
                "steep and flat (nearly vertical / horizontal, |dx| or |dy| = 2^-16..2^-2 units) edges - "
                "near-rectilinear, sheared lattice, star with steepened edges, needles, jittered lattice - on a "
                "dyadic grid, query points in the slivers beside those edges, each asked in unit coordinates "
                "and in 2 placements X = s*(x+u) exact in binary64 (s = 2^-14..2^24, offsets up to 1e7 x "
                "polygon size, UTM-like eastings / northings, one axis only, the largest offset allowed), "
                "also with rotated / reversed / closed vertex lists and through the bare kernel (170 base "
                "cases, thorough 1800); grids moved in place / copied / rebuilt up to 1e6.5 cells away or at "
                "UTM-like corners with polygons whose vertices sit beside the lines through the cell centres "
                "(70 sequences, thorough 500). non-trivial = distinct "
                "(kind, family, variant, features, answer classes) signature")
    ctx.trusted = cm.STD_TRUST + [
        "numpy min/max of a column (NaN-propagating) is modelled, validated by correspondence",
        "pandas DataFrame construction / boolean-mask indexing in cells_inside_polygon are modelled as a "
        "filter, validated by correspondence"]
    ctx.tested_not_proved = [
        "odd crossing number = topological interior (Jordan curve theorem) - decided by the exact "
        "generic-ray oracle on the implementation (proved for rectangles only)",
        "binary64 rounding never changes the answer for points farther than 1e-6 x size from every edge "
        "- tested with the exact oracle",
        "invariance under translation/scaling in binary64 (the theorems are over R)"]
    proved = cm.prove_with_kernels(ctx, ["c_inside"])
    cm.use_impl()
    rng = ctx.rng
    terms, replays = [], []
    orc_fail = set()
    stats = {"oracle_points": 0, "oracle_points_inside": 0, "skipped_near_edge": 0,
             "polygons_outside_quantifier": 0, "invariance_pairs": 0, "cells_judged": 0,
             "oracle_double_ray": 0}

    def add(term, replay, sig):
        terms.append(term)
        replays.append(replay)
        ctx.count(sig)
        if len(terms) % 450 == 1:
            ctx.sample(replay, limit=8)
        return len(terms) - 1

    def fail(idx, key, what):
        orc_fail.add(idx)
        ctx.failure(key, replays[idx], what)

    def judge_points(idx, case, out, expected=None):
        """oracle on one points_inside_polygon call; returns the list of expected
        answers (None where the point is not judged)"""
        poly, pts = case["poly"], case["pts"]
        atol = case.get("atol")
        if out is None:
            if len(poly) >= 3 and in_quantifier(poly) and case.get("inside_len") in (None, len(pts)):
                fail(idx, "C15/points_inside_polygon/raised", "ValueError for a valid polygon")
            return None
        if not in_quantifier(poly) or (atol is not None and atol != ATOL):
            stats["polygons_outside_quantifier"] += 1
            return None
        if len(out) != len(pts) or any(v not in (0, 1) for v in out):
            fail(idx, "C15/points_inside_polygon/not-0-or-1",
                 f"answer vector {out[:10]} is not a 0/1 vector of length {len(pts)}")
            return None
        finite = [i for i, p in enumerate(pts) if math.isfinite(p[0]) and math.isfinite(p[1])]
        V, P, size2 = exact_setup(poly, [pts[i] for i in finite])
        exp = [None] * len(pts)
        for k, i in enumerate(finite):
            if expected is not None:
                if expected[i] is None:
                    continue
                want = expected[i]
            else:
                if not is_far(V, P[k], size2):
                    stats["skipped_near_edge"] += 1
                    continue
                want, d = evenodd(V, P[k], rng)
                if stats["oracle_points"] % 7 == 0:   # the oracle checks itself with a second ray
                    want2, _ = evenodd(V, P[k], rng, avoid=d)
                    stats["oracle_double_ray"] += 1
                    if want2 != want:
                        raise RuntimeError(f"oracle inconsistent on {poly} {pts[i]}")
            exp[i] = want
            stats["oracle_points"] += 1
            stats["oracle_points_inside"] += want
            if out[i] != want:
                key = "inside-reported-outside" if want == 1 else "outside-reported-inside"
                fail(idx, f"C15/points_inside_polygon/{key}",
                     f"point {pts[i]!r} (index {i}): answer {out[i]}, even-odd rule {want}; "
                     f"polygon {poly!r}")
        return exp

    def judge_cells(idx, case, out):
        """oracle on one cells_inside_polygon call (grid geometry = what the caller gave the
        object); returns ({cell: expected 0/1} for the judged cells, set of returned cells)
        or None when the call is outside the oracle's remit"""
        nrows, ncols, xll, yll, csz = (case[k] for k in GEOM_KEYS)
        poly = case["poly"]
        if out is None:
            if len(poly) >= 1:
                fail(idx, "C15/cells_inside_polygon/raised", "ValueError for a non-empty polygon")
            return None
        if not in_quantifier(poly) or case["atol"] != ATOL:
            # the property is about the tolerance 1e-8; with another atol argument the
            # answer may legitimately depend on whether the argument is forwarded
            stats["polygons_outside_quantifier"] += 1
            return None
        # exact centres: xll + csz*(col+1/2), yll + csz*(nrows-1-row+1/2) as dyadic rationals
        cells = list(range(nrows * ncols))
        cen = [(Fr(xll) + Fr(csz) * (Fr(k % ncols) + Fr(1, 2)),
                Fr(yll) + Fr(csz) * (Fr(nrows - 1 - k // ncols) + Fr(1, 2))) for k in cells]
        den = 1
        for a, b in cen + [(Fr(x), Fr(y)) for x, y in poly]:
            den = max(den, a.denominator, b.denominator)
        V = [(int(Fr(x) * den), int(Fr(y) * den)) for x, y in poly]
        xs = [v[0] for v in V]
        ys = [v[1] for v in V]
        size2 = (max(xs) - min(xs)) ** 2 + (max(ys) - min(ys)) ** 2
        got = {c: (x, y) for x, y, c in out}
        if len(got) != len(out):
            fail(idx, "C15/cells_inside_polygon/duplicate-cell", "a cell is listed twice")
        scale = max(abs(xll), abs(yll), csz * max(nrows, ncols))
        exp = {}
        for k in cells:
            p = (int(cen[k][0] * den), int(cen[k][1] * den))
            if k in got:
                gx, gy = got[k]
                if abs(Fr(gx) - cen[k][0]) > 1e-12 * scale or abs(Fr(gy) - cen[k][1]) > 1e-12 * scale:
                    fail(idx, "C15/cells_inside_polygon/wrong-coordinates",
                         f"cell {k}: reported ({gx!r},{gy!r}), centre ({float(cen[k][0])!r},{float(cen[k][1])!r}); "
                         f"grid {nrows}x{ncols} xll={xll!r} yll={yll!r} cellsize={csz!r}")
            if not is_far(V, p, size2):
                stats["skipped_near_edge"] += 1
                continue
            want, _ = evenodd(V, p, rng)
            exp[k] = want
            stats["cells_judged"] += 1
            where = (f"(centre {float(cen[k][0])!r},{float(cen[k][1])!r}) of the grid {nrows}x{ncols} "
                     f"xll={xll!r} yll={yll!r} cellsize={csz!r}")
            if want == 1 and k not in got:
                fail(idx, "C15/cells_inside_polygon/missing-cell",
                     f"cell {k} {where} is inside but not returned; polygon {poly!r}")
            if want == 0 and k in got:
                fail(idx, "C15/cells_inside_polygon/extra-cell",
                     f"cell {k} {where} is outside but returned; polygon {poly!r}")
        if any(c < 0 or c >= nrows * ncols for c in got):
            fail(idx, "C15/cells_inside_polygon/extra-cell", "a cell number outside the grid is returned")
        return exp, set(got)

    # ---- replayed / corpus cases first
    first = []
    if getattr(ctx, "replay", None):
        rp = ctx.replay.get("replay", ctx.replay)
        c = rp.get("case", rp.get("first_mismatch", {}).get("case"))
        if isinstance(c, dict) and "poly" in c and "pts" in c and "nrows" not in c and "xlim" not in c:
            first.append(c)
    first += [c for c in cm.load_corpus(PID) if "poly" in c and "pts" in c]
    for c in first:
        c = {"pts": [tuple(p) for p in c["pts"]], "poly": [tuple(p) for p in c["poly"]],
             "atol": c.get("atol"), "inside_len": c.get("inside_len")}
        out = run_inside(c)
        idx = add(term_inside(c, out), {"call": "gutils.points_inside_polygon", "case": c, "impl": out},
                  ("corpus", len(c["poly"])))
        judge_points(idx, c, out)

    # ---- base cases and their variants (public API)
    nbase = ctx.scale(800, 8000)
    for _b in range(nbase):
        fam, upoly = base_polygon(rng)
        upts = base_points(rng, upoly, rng.randint(12, ctx.scale(30, 60)))
        c, off = affine(rng)
        poly = apply_affine(c, off, upoly)
        pts = apply_affine(c, off, upts)
        case = {"pts": pts, "poly": poly, "atol": rng.choice([None, None, ATOL]),
                "inside_len": rng.choice([None, None, len(pts)])}
        cm.mark({"call": "gutils.points_inside_polygon", "case": case})
        out = run_inside(case)
        hor, ver, dup = poly_features(poly)
        idx = add(term_inside(case, out),
                  {"call": "gutils.points_inside_polygon", "family": fam, "case": case, "impl": out},
                  ("base", fam, min(len(poly), 8), hor, ver, dup, c == 1.0, off == (0.0, 0.0),
                   None if out is None else (0 in out, 1 in out)))
        exp = judge_points(idx, case, out)
        for kind in rng.sample(VARIANTS, 2):
            vpoly, vpts, same = make_variant(rng, kind, poly, pts)
            vcase = {"pts": vpts, "poly": vpoly, "atol": case["atol"], "inside_len": None}
            vout = run_inside(vcase)
            vidx = add(term_inside(vcase, vout),
                       {"call": "gutils.points_inside_polygon", "family": fam, "variant": kind,
                        "base_polygon": poly, "base_points": pts, "base_impl": out,
                        "case": vcase, "impl": vout},
                       ("variant", kind, fam, min(len(vpoly), 8), hor, ver, dup))
            # the exact answer does not depend on the order of the vertex list
            vexp = judge_points(vidx, vcase, vout, expected=exp if same else None)
            if exp is None or vexp is None or out is None or vout is None:
                continue
            for i in range(len(pts)):
                if exp[i] is None or vexp[i] is None or exp[i] != vexp[i]:
                    continue      # near an edge in one of the two configurations
                stats["invariance_pairs"] += 1
                if out[i] != vout[i]:
                    fail(vidx, f"C15/invariance/{kind}",
                         f"point {pts[i]!r}: answer {out[i]} for the polygon, {vout[i]} after {kind}")

    # ---- stress cases: every branch of the model, outside the oracle's remit
    nstress = ctx.scale(260, 2000)
    for _s in range(nstress):
        mode = rng.choice(["tiny", "tol", "nan", "near", "wronglen", "atol", "empty"])
        fam, upoly = base_polygon(rng)
        atol, il = None, None
        if mode == "tiny":
            upoly = upoly[:rng.choice([0, 1, 1, 2, 2])]
            upts = [(rng.randint(-1, 5) / 1.0, rng.randint(-1, 5) / 1.0) for _ in range(6)] + \
                   [(p[0], p[1] + d) for p in upoly for d in (0.0, 0.5)]
        elif mode == "empty":
            upts = [] if rng.random() < 0.5 else base_points(rng, upoly, 3)
            if rng.random() < 0.5:
                upoly = []
            il = rng.choice([None, len(upts)])
        elif mode == "tol":     # edges with |dx|, |dy| around the tolerance
            q = []
            for (x, y) in upoly:
                q.append((x + rng.choice([0, 0, 5e-9, 1e-8, 2e-8, -1e-8, 1e-9]),
                          y + rng.choice([0, 0, 5e-9, 1e-8, 2e-8, -1e-8, 1e-9])))
            upoly = q
            upts = base_points(rng, upoly, 16)
            atol = rng.choice([None, 1e-8, 2e-8, 1.5e-8])
        elif mode == "nan":
            upts = base_points(rng, upoly, 12)
            for _ in range(3):
                k = rng.randrange(len(upts))
                upts[k] = rng.choice([(float("nan"), upts[k][1]), (upts[k][0], float("nan")),
                                      (float("inf"), upts[k][1]), (upts[k][0], -float("inf")),
                                      (float("nan"), float("nan"))])
            if rng.random() < 0.4:
                k = rng.randrange(len(upoly))
                upoly[k] = rng.choice([(float("nan"), upoly[k][1]), (upoly[k][0], float("nan")),
                                       (float("inf"), upoly[k][1])])
        elif mode == "near":    # points within rounding distance of edges and vertices
            upts = []
            for _ in range(16):
                k = rng.randrange(len(upoly))
                a, b = upoly[k], upoly[(k + 1) % len(upoly)]
                t = rng.choice([0.0, 1.0, 0.5, rng.random()])
                e = rng.choice([0.0, 1e-15, -1e-15, 1e-9, -1e-9, 2e-8])
                upts.append((a[0] + t * (b[0] - a[0]) + e, a[1] + t * (b[1] - a[1]) + rng.choice([0.0, e])))
        elif mode == "wronglen":
            upts = base_points(rng, upoly, 5)
            il = rng.choice([0, 4, 6, 11])
        else:                   # other tolerances, up to larger than the polygon
            upts = base_points(rng, upoly, 16)
            atol = rng.choice([0.0, 1e-12, 1e-3, 0.5, 1.0, 2.5, 100.0])
        case = {"pts": upts, "poly": upoly, "atol": atol, "inside_len": il}
        cm.mark({"call": "gutils.points_inside_polygon", "case": case})
        out = run_inside(case)
        idx = add(term_inside(case, out),
                  {"call": "gutils.points_inside_polygon", "stress": mode, "case": case, "impl": out},
                  ("stress", mode, min(len(upoly), 4), out is None))
        if mode in ("wronglen", "empty", "tiny"):
            bad_len = il is not None and il != len(upts)
            if (out is None) != (bad_len or len(upoly) == 0):
                fail(idx, "C15/points_inside_polygon/rejection",
                     f"inside_len={il} npoints={len(upts)} nvertices={len(upoly)}: "
                     f"{'raised' if out is None else 'accepted'}")

    # ---- the bare kernel (ctypes), in the states the wrapper can put it in: the true extent
    # and a zero-filled inside vector (anything else is not observable through the API and
    # is deliberately NOT compared: it could only produce false alarms)
    nker = ctx.scale(80, 800)
    for _k in range(nker):
        fam, upoly = base_polygon(rng)
        upts = base_points(rng, upoly, 14)
        c, off = affine(rng)
        poly, pts = apply_affine(c, off, upoly), apply_affine(c, off, upts)
        xs = [p[0] for p in poly]
        ys = [p[1] for p in poly]
        case = {"pts": pts, "poly": poly, "atol": ATOL,
                "xlim": (min(xs), max(xs)), "ylim": (min(ys), max(ys)), "init": [0] * len(pts)}
        cm.mark({"call": "c_inside (ctypes)", "case": case})
        out = run_kernel(case)
        idx = add(term_kernel(case, out), {"call": "c_inside (ctypes)", "case": case, "impl": out},
                  ("kernel", fam, min(len(poly), 8), 0 in out, 1 in out))
        api = run_inside({"pts": pts, "poly": poly})
        if api != out:
            fail(idx, "C15/points_inside_polygon/wrapper-differs-from-kernel",
                 f"public function returns {api}, the kernel on the same data {out}")

    # ---- Grid.cells_inside_polygon
    ncell = ctx.scale(220, 1500)
    for _g in range(ncell):
        nrows = rng.choice([1, 2, 3, rng.randint(1, ctx.scale(12, 30))])
        ncols = rng.choice([1, 2, 3, rng.randint(1, ctx.scale(12, 30))])
        csz = rng.choice([1.0, 0.5, 0.25, 0.05, 30.0, 0.1, 1000.0])
        xll = rng.choice([0.0, -3 * csz, 1e4 * csz, 123.456 * csz, rng.uniform(-10, 10) * csz])
        yll = rng.choice([0.0, 2 * csz, -1e4 * csz, rng.uniform(-10, 10) * csz])
        fam, upoly = base_polygon(rng)
        if rng.random() < 0.06:
            upoly = upoly[:rng.choice([0, 1, 2])]
        # map the unit polygon ([0,6]^2) over the grid, partly overhanging
        fx = csz * ncols / 6.0 * rng.choice([1.0, 0.7, 1.3])
        fy = csz * nrows / 6.0 * rng.choice([1.0, 0.7, 1.3])
        if fam in ("lattice", "ortho", "dup", "collinear", "halfgrid") and rng.random() < 0.6:
            # vertices on cell corners/centres: edges through cell centres (boundary cases)
            fx = fy = csz * rng.choice([0.5, 1.0, 2.0])
        ox = xll + csz * rng.choice([0, 0, -1, 0.5, rng.uniform(-1, 1)])
        oy = yll + csz * rng.choice([0, 0, -1, 0.5, rng.uniform(-1, 1)])
        poly = [(ox + fx * x, oy + fy * y) for x, y in upoly]
        catol = rng.choice([1e-8, 1e-8, 1e-8, 1e-3 * csz, 0.0])
        if rng.random() < 0.25:
            # vertex coordinates differing by about the tolerances (outside the property's
            # quantifier, no oracle): here the answer depends on WHICH tolerance is applied,
            # i.e. on whether cells_inside_polygon forwards its atol (Gen/ConstsC15.v)
            catol = rng.choice([1e-3 * csz, 0.4 * csz, 1.5 * csz, 3.0 * csz])
            poly = [(x + rng.choice([0, 1e-9, 3e-4 * csz, -3e-4 * csz, 0.3 * csz]),
                     y + rng.choice([0, 1e-9, 3e-4 * csz, -3e-4 * csz, 0.3 * csz])) for x, y in poly]
        case = {"nrows": nrows, "ncols": ncols, "xll": xll, "yll": yll, "csz": csz, "poly": poly,
                "atol": catol}
        cm.mark({"call": "Grid.cells_inside_polygon", "case": case})
        out = run_cells(case)
        idx = add(term_cells(case, out), {"call": "Grid.cells_inside_polygon", "case": case, "impl": out},
                  ("cells", fam, min(nrows, 3), min(ncols, 3), None if out is None else min(len(out), 3)))
        judge_cells(idx, case, out)

    t_hist = time.time()
    n_before_hist = len(terms)
    # ---- Grid objects with a history: the cells returned are those of the geometry the object
    # has NOW (attributes assigned in place, copies edited independently of their source),
    # whatever was asked of the object, of its source or of its copies before
    def life_query(life, step, sig):
        """run a query step, add it to the correspondence, judge it"""
        out = life.do(step)
        case = life.case(step)
        idx = add(term_cells(case, out),
                  {"call": "sequence of operations on Grid objects (steps, in order; objects are numbered "
                           "in order of creation by new/copy/clip), the last one being "
                           "Grid.cells_inside_polygon on the grid of 'case'",
                   "steps": copy.deepcopy(life.steps), "case": case, "impl": out}, sig)
        return idx, judge_cells(idx, case, out)

    def run_life_steps(steps):
        life = GridLife()
        for st in steps:
            st = {k: v for k, v in st.items() if k != "raised"}
            if st["op"] == "query":
                life_query(life, st, ("life-replay",))
            else:
                life.do(st)

    if getattr(ctx, "replay", None):
        rp = ctx.replay.get("replay", ctx.replay)
        rp = rp.get("first_mismatch", rp)
        if isinstance(rp.get("steps"), list):
            run_life_steps(rp["steps"])

    nlife = ctx.scale(150, 800)
    for _l in range(nlife):
        life = GridLife()
        geom0 = random_geom(rng, ctx)
        life.do({"op": "new", "how": rng.choice(["init", "init", "from_dict"]), "geom": geom0})
        fam, cpoly = cell_polygon(rng, geom0["nrows"], geom0["ncols"])
        world = place(life.geom[0], cpoly)      # the polygon last asked about
        last = {}                               # object -> (cpoly, geometry, judged answers, cells) of its last query
        history = []

        def ask(k, follow):
            """query object k; follow: the polygon keeps its place RELATIVE to the grid
            (it is translated / scaled together with the grid), else it stays where it was"""
            nonlocal world
            g = life.geom[k]
            if follow:
                world = place(g, cpoly)
            atol = rng.choice([ATOL] * 6 + [0.0, 1e-3 * g["csz"]])
            step = {"op": "query", "obj": k, "poly": list(world), "atol": atol,
                    "inplace": rng.random() < 0.7}
            cm.mark({"call": "Grid life cycle", "steps": life.steps + [step]})
            idx, res = life_query(life, step, ("life", tuple(history[-3:]), fam, follow,
                                               min(g["nrows"] * g["ncols"], 4)))
            prev = last.get(k)
            if res is not None and follow:
                exp, got = res
                if prev is not None and prev[0] is cpoly and prev[1] != g \
                        and (prev[1]["nrows"], prev[1]["ncols"]) == (g["nrows"], g["ncols"]):
                    pexp, pgot = prev[2], prev[3]
                    kind = "grid-translate" if prev[1]["csz"] == g["csz"] else "grid-scale"
                    for c, w in exp.items():
                        if pexp.get(c) != w:
                            continue       # near an edge in one of the two configurations
                        stats["invariance_pairs"] += 1
                        if (c in got) != (c in pgot):
                            fail(idx, f"C15/invariance/{kind}",
                                 f"cell {c} {'returned' if c in pgot else 'not returned'} for the grid {prev[1]!r}, "
                                 f"{'returned' if c in got else 'not returned'} after moving/rescaling grid and "
                                 f"polygon together to {g!r}")
                last[k] = (cpoly, dict(g), exp, got)
            else:
                last.pop(k, None)

        ask(0, True)
        for _s in range(rng.randint(2, 5)):
            k = rng.randrange(len(life.objs))
            g = life.geom[k]
            act = rng.choice(["move", "move", "rescale", "both", "copy", "copy", "sibling", "clip", "touch",
                              "scribble", "newpoly", "again"])
            history.append(act)
            follow = rng.random() < 0.6
            if act in ("move", "rescale", "both"):
                st = {"op": "set", "obj": k, "np": rng.random() < 0.3}
                if act != "rescale":
                    which = rng.choice(["x", "y", "xy"])
                    if "x" in which:
                        st["xll"] = new_corner(rng, g["xll"], g["csz"])
                    if "y" in which:
                        st["yll"] = new_corner(rng, g["yll"], g["csz"])
                if act != "move":
                    st["csz"] = new_cellsize(rng, g["csz"])
                life.do(st)
                ask(k, follow)
            elif act == "copy":
                how = rng.choice(COPY_HOW)
                history[-1] = how
                j = life.do({"op": "copy", "obj": k, "how": how})
                if j is None:
                    continue
                if k in last:
                    last[j] = last[k]
                # one of the two is moved / rescaled, then BOTH are asked (a shallow copy.copy is
                # only asked: what it shares with its source is not the property's business)
                m = rng.choice([k, j])
                gm = life.geom[m]
                st = {"op": "set", "obj": m, "np": rng.random() < 0.3}
                what = "none" if how == "copy" else rng.choice(["x", "y", "xy", "csz", "all"])
                if what in ("x", "xy", "all"):
                    st["xll"] = new_corner(rng, gm["xll"], gm["csz"])
                if what in ("y", "xy", "all"):
                    st["yll"] = new_corner(rng, gm["yll"], gm["csz"])
                if what in ("csz", "all"):
                    st["csz"] = new_cellsize(rng, gm["csz"])
                if what != "none":
                    life.do(st)
                first, second = rng.sample([k, j], 2)
                ask(first, True)
                ask(second, True)
            elif act == "sibling":     # an unrelated object of the same shape, elsewhere
                g2 = dict(g)
                what = rng.choice(["x", "y", "xy", "csz", "all"])
                if what in ("x", "xy", "all"):
                    g2["xll"] = new_corner(rng, g["xll"], g["csz"])
                if what in ("y", "xy", "all"):
                    g2["yll"] = new_corner(rng, g["yll"], g["csz"])
                if what in ("csz", "all"):
                    g2["csz"] = new_cellsize(rng, g["csz"])
                j = life.do({"op": "new", "how": rng.choice(["init", "from_dict"]), "geom": g2})
                if k in last:
                    last[j] = last[k]
                first, second = rng.sample([k, j], 2)
                ask(first, True)
                ask(second, True)
            elif act == "clip":
                nr, nc = g["nrows"], g["ncols"]
                c0 = rng.randrange(nc)
                c1 = rng.randrange(c0, nc)
                r0 = rng.randrange(nr)
                r1 = rng.randrange(r0, nr)      # rows counted from the bottom
                box = [g["xll"] + g["csz"] * (c0 + 0.5), g["yll"] + g["csz"] * (r0 + 0.5),
                       g["xll"] + g["csz"] * (c1 + 0.5), g["yll"] + g["csz"] * (r1 + 0.5)]
                j = life.do({"op": "clip", "obj": k, "box": box})
                if j is None:
                    continue
                ask(j, False)      # the polygon stays: the clipped grid sees a part of it
                ask(k, False)
            elif act == "touch":
                life.do({"op": "touch", "obj": k, "what": rng.choice(TOUCH_WHAT)})
                ask(k, follow)
            elif act == "scribble":
                life.do({"op": "scribble", "obj": k})
                ask(k, follow)
            elif act == "newpoly":
                fam, cpoly = cell_polygon(rng, g["nrows"], g["ncols"])
                ask(k, True)
            else:
                ask(k, follow)

    # ---- the caller's arrays with a history: points / polygon arrays rewritten in place between
    # calls, the answer vector handed back, answers of earlier calls still held by the caller
    def run_calls(calls, fam, sig0):
        arr = ArrayLife()
        held = []
        for n, st in enumerate(calls):
            raw, out = arr.call(st)
            case = {"pts": [tuple(p) for p in st["pts"]], "poly": [tuple(p) for p in st["poly"]], "atol": None,
                    "inside_len": len(st["pts"]) if st["inside"] == "own" else None}
            idx = add(term_inside(case, out),
                      {"call": "sequence of calls of gutils.points_inside_polygon on the caller's arrays "
                               "(same_*_array: the ndarray of the previous call rewritten in place; inside=own: "
                               "the caller's answer vector, holding the previous answers); 'case' is the last call",
                       "family": fam, "calls": calls[:n + 1], "case": case, "impl": out},
                      sig0 + (n if n < 3 else 3, st["what"], st["inside"], out is None))
            exp = judge_points(idx, case, out)
            # answers of earlier calls (vectors allocated by the function) are still what they were
            for hidx, hraw, hout, hexp, hn in held:
                now = [int(v) for v in hraw]
                for i, w in enumerate(hexp):
                    if w is not None and hout[i] == w and now[i] != w:
                        fail(idx, "C15/points_inside_polygon/earlier-answer-overwritten",
                             f"the vector returned by call {hn} said {hout[i]} for point {calls[hn]['pts'][i]!r} "
                             f"(even-odd rule {w}); after call {n} the same vector says {now[i]}")
                        break
            if raw is not None and exp is not None and st["inside"] is None:
                held.append((idx, raw, out, exp, n))

    if getattr(ctx, "replay", None):
        rp = ctx.replay.get("replay", ctx.replay)
        rp = rp.get("first_mismatch", rp)
        if isinstance(rp.get("calls"), list):
            run_calls(rp["calls"], rp.get("family", "?"), ("calls-replay",))

    nseq = ctx.scale(120, 800)
    for _q in range(nseq):
        fam, upoly = base_polygon(rng)
        npts = rng.randint(10, 16)
        upts = base_points(rng, upoly, npts)
        c, off = affine(rng)
        calls = [{"pts": apply_affine(c, off, upts), "poly": apply_affine(c, off, upoly),
                  "same_pts_array": False, "same_poly_array": False,
                  "inside": rng.choice([None, None, "own"]), "what": "first"}]
        for _c in range(rng.randint(2, 4)):
            what = rng.choice(["repeat", "polygon", "polygon", "points", "both", "fresh"])
            if what in ("polygon", "both"):
                kind, upoly, _ = polygon_edit(rng, upoly, upts)
                what = what + "-" + kind
            elif what == "fresh":          # most often another number of vertices: a new array
                _, upoly = base_polygon(rng)
            if what.startswith(("points", "both")):
                upts = base_points(rng, upoly, npts)
            calls.append({"pts": apply_affine(c, off, upts), "poly": apply_affine(c, off, upoly),
                          "same_pts_array": rng.random() < 0.8, "same_poly_array": rng.random() < 0.8,
                          "inside": rng.choice([None, None, "own"]), "what": what})
        cm.mark({"call": "gutils.points_inside_polygon sequence", "calls": calls})
        run_calls(calls, fam, ("calls", fam))

    ctx.notes["history_sections_python_s"] = round(time.time() - t_hist, 2)
    ctx.notes["history_sections_first_case"] = n_before_hist

    # ---- small polygons far from the origin (offset / size up to 1e7, UTM-like coordinates), tiny and
    # huge ones, with steep / flat edges and query points beside them.  The placement of the unit
    # polygon is exact in binary64, so (a) the exact even-odd answer is that of the unit polygon
    # (re-derived from scratch for every 4th placement: the oracle checks itself) and (b) the
    # implementation must give the same answer in both places: translation / scaling invariance as
    # the property states it, with no rounding to excuse a difference
    t_far = time.time()
    n_before_far = len(terms)
    stats.update({"far_placements": 0, "far_exact": 0, "far_points_judged": 0, "far_invariance_pairs": 0,
                  "far_cells_judged": 0})

    def far_pair(fam, upoly, upts, placements, sig0):
        ucase = {"pts": upts, "poly": upoly, "atol": None, "inside_len": None}
        cm.mark({"call": "gutils.points_inside_polygon", "case": ucase})
        uout = run_inside(ucase)
        hor, ver, dup = poly_features(upoly)
        uidx = add(term_inside(ucase, uout),
                   {"call": "gutils.points_inside_polygon", "family": "sliver-" + fam, "case": ucase, "impl": uout},
                   sig0 + ("unit", fam, min(len(upoly), 8), hor, ver, dup,
                           None if uout is None else (0 in uout, 1 in uout)))
        uexp = judge_points(uidx, ucase, uout)
        for pl in placements:
            kind, sc, ux, uy = pl["kind"], pl["s"], pl["ux"], pl["uy"]
            poly, e1 = place_exact(sc, ux, uy, upoly)
            pts, e2 = place_exact(sc, ux, uy, upts)
            exact = e1 and e2
            vkind = pl.get("list")
            if vkind:           # the vertex list of the placed polygon rotated / reversed / closed
                poly, _, _ = make_variant(rng, vkind, poly, pts)
            case = {"pts": pts, "poly": poly, "atol": pl.get("atol"), "inside_len": pl.get("inside_len")}
            cm.mark({"call": "gutils.points_inside_polygon", "case": case})
            out = run_inside(case)
            stats["far_placements"] += 1
            stats["far_exact"] += exact
            rep = {"call": "gutils.points_inside_polygon on a polygon given in unit coordinates (base_polygon, "
                           "base_points) and placed by X = s*(x + ux), Y = s*(y + uy)" +
                           (" - exact in binary64" if exact else ""),
                   "family": "sliver-" + fam, "placement": dict(pl, exact=exact), "base_polygon": upoly,
                   "base_points": upts, "base_impl": uout, "case": case, "impl": out}
            idx = add(term_inside(case, out), rep,
                      sig0 + ("placed", kind, fam, vkind, exact, None if out is None else (0 in out, 1 in out)))
            recheck = (not exact) or uexp is None or stats["far_placements"] % 4 == 0
            before = stats["oracle_points"]
            exp = judge_points(idx, case, out, expected=None if recheck else uexp)
            stats["far_points_judged"] += stats["oracle_points"] - before
            if exact and recheck and uexp is not None and exp is not None and exp != uexp:
                raise RuntimeError(f"oracle not invariant under an exact placement: {rep}")
            if pl.get("kernel") and in_quantifier(poly):
                xs = [q[0] for q in poly]
                ys = [q[1] for q in poly]
                kcase = {"pts": pts, "poly": poly, "atol": ATOL, "xlim": (min(xs), max(xs)),
                         "ylim": (min(ys), max(ys)), "init": [0] * len(pts)}
                kout = run_kernel(kcase)
                kidx = add(term_kernel(kcase, kout), {"call": "c_inside (ctypes)", "case": kcase, "impl": kout},
                           sig0 + ("kernel", kind, fam))
                api = run_inside({"pts": pts, "poly": poly})
                if api != kout:
                    fail(kidx, "C15/points_inside_polygon/wrapper-differs-from-kernel",
                         f"public function returns {api}, the kernel on the same data {kout}")
            if exp is None or uexp is None or out is None or uout is None:
                continue
            ikey = ("translate-scale" if not exact else "translate-exact" if sc == 1.0 else
                    "scale-exact" if ux == 0.0 and uy == 0.0 else "translate-scale-exact")
            for i in range(len(pts)):
                if exp[i] is None or uexp[i] is None or exp[i] != uexp[i]:
                    continue
                stats["invariance_pairs"] += 1
                stats["far_invariance_pairs"] += 1
                if out[i] != uout[i]:
                    fail(idx, f"C15/invariance/{ikey}",
                         f"point {upts[i]!r} of the polygon {upoly!r}: answer {uout[i]}; after placing polygon "
                         f"and points by X = {sc!r}*(x + {ux!r}), Y = {sc!r}*(y + {uy!r})"
                         f"{' (exact in binary64)' if exact else ''}, point {pts[i]!r}: answer {out[i]} "
                         f"(even-odd rule {exp[i]})")

    if getattr(ctx, "replay", None):
        rp = ctx.replay.get("replay", ctx.replay)
        rp = rp.get("first_mismatch", rp)
        if isinstance(rp.get("placement"), dict) and "base_polygon" in rp:
            far_pair(str(rp.get("family", "?")).replace("sliver-", ""),
                     [tuple(q) for q in rp["base_polygon"]], [tuple(q) for q in rp["base_points"]],
                     [{k: v for k, v in rp["placement"].items() if k != "exact"}], ("far-replay",))

    nfar = ctx.scale(170, 1800)
    for _f in range(nfar):
        fam, upoly = sliver_polygon(rng)
        upts = sliver_points(rng, upoly, rng.randint(18, ctx.scale(30, 50)))
        pls = []
        for _p in range(2):
            kind, sc, ux, uy = placement(rng, upoly)
            pls.append({"kind": kind, "s": sc, "ux": ux, "uy": uy, "atol": rng.choice([None, None, ATOL]),
                        "inside_len": rng.choice([None, None, len(upts)]),
                        "list": rng.choice([None, None, "rotate", "reverse", "close", "mixed"]),
                        "kernel": rng.random() < 0.12})
        far_pair(fam, upoly, upts, pls, ("far",))

    # ---- the same for cells_inside_polygon: a grid far from the origin (a whole number of cells, or
    # UTM-like corners), polygon vertices beside the lines through the cell centres; the grid is first
    # asked where it was built (near the origin), then moved in place / rebuilt far away and asked
    # about the polygon that follows it (keys C15/invariance/grid-translate, grid-scale)
    nfarcell = ctx.scale(70, 500)
    for _g in range(nfarcell):
        nrows = rng.choice([1, 2, 3, rng.randint(1, ctx.scale(10, 24))])
        ncols = rng.choice([1, 2, 3, rng.randint(1, ctx.scale(10, 24))])
        csz = rng.choice([1.0, 1.0, 0.5, 0.25, 2.0, 32.0, 1024.0, 30.0, 90.0, 25.0, 1000.0, 0.1])
        geom0 = {"nrows": nrows, "ncols": ncols, "xll": csz * rng.choice([0, 0, -3, 7]),
                 "yll": csz * rng.choice([0, 0, 2, -5]), "csz": csz}
        fam, cpoly = sliver_cell_polygon(rng, nrows, ncols)
        life = GridLife()
        life.do({"op": "new", "how": rng.choice(["init", "init", "from_dict"]), "geom": geom0})
        results = []

        def ask_far(k, tag):
            g = life.geom[k]
            step = {"op": "query", "obj": k, "poly": place(g, cpoly), "atol": ATOL, "inplace": rng.random() < 0.5}
            cm.mark({"call": "Grid life cycle", "steps": life.steps + [step]})
            before = stats["cells_judged"]
            idx, res = life_query(life, step, ("farcells", tag, fam, min(nrows, 3), min(ncols, 3),
                                               g["csz"] == geom0["csz"]))
            stats["far_cells_judged"] += stats["cells_judged"] - before
            results.append((idx, dict(g), res))

        ask_far(0, "home")
        ncell = max(nrows, ncols)
        if rng.random() < 0.3:
            ox, oy = rng.choice(UTM_LIKE)
            xll, yll = (ox, oy) if rng.random() < 0.7 else (oy, ox)
        else:
            xll, yll = far_corner(rng, csz, ncell), far_corner(rng, csz, ncell)
            if xll is None and yll is None:
                xll = far_corner(rng, csz, ncell) or 1e5 * csz
        how = rng.choice(["set", "set", "new", "copy-set"])
        tgt = 0
        newcsz = csz * rng.choice([1, 1, 1, 2, 0.5, 8]) if how != "new" or rng.random() < 0.5 else csz
        if how == "new":
            g2 = dict(geom0, csz=newcsz)
            g2["xll"] = geom0["xll"] if xll is None else xll
            g2["yll"] = geom0["yll"] if yll is None else yll
            tgt = life.do({"op": "new", "how": rng.choice(["init", "from_dict"]), "geom": g2})
        else:
            if how == "copy-set":
                tgt = life.do({"op": "copy", "obj": 0, "how": rng.choice(["clone", "deepcopy", "pickle", "dict"])})
                if tgt is None:
                    continue
            st = {"op": "set", "obj": tgt, "np": rng.random() < 0.3}
            if xll is not None:
                st["xll"] = xll
            if yll is not None:
                st["yll"] = yll
            if newcsz != csz:
                st["csz"] = newcsz
            life.do(st)
        ask_far(tgt, how)
        if how == "copy-set":
            ask_far(0, "source")     # the source of the copy stays where it was
        (i0, g0, r0), (i1, g1, r1) = results[0], results[1]
        if r0 is not None and r1 is not None:
            kind = "grid-translate" if g0["csz"] == g1["csz"] else "grid-scale"
            for c, w in r1[0].items():
                if r0[0].get(c) != w:
                    continue
                stats["invariance_pairs"] += 1
                stats["far_invariance_pairs"] += 1
                if (c in r1[1]) != (c in r0[1]):
                    fail(i1, f"C15/invariance/{kind}",
                         f"cell {c} {'returned' if c in r0[1] else 'not returned'} for the grid {g0!r}, "
                         f"{'returned' if c in r1[1] else 'not returned'} after moving/rescaling grid and "
                         f"polygon together to {g1!r}; polygon in cell units from the lower-left corner {cpoly!r}")

    ctx.notes["far_sections_python_s"] = round(time.time() - t_far, 2)
    ctx.notes["far_sections_first_case"] = n_before_far

    # ---- correspondence inside Coq
    bad, nshards, failed = cm.run_case_files(PID, HEADER, "pcase", "p_ok", terms, shard=150,
                                             max_bytes=400000)
    ctx.notes["correspondence_cases"] = len(terms)
    ctx.notes["correspondence_mismatches"] = len(bad)
    ctx.notes["oracle"] = stats
    for k in range(nshards):
        ctx.obligation(f"Cases_{PID}_{k}.agree (model = implementation on the shard)", True)
    cm.settle(ctx, proved, bad, failed, orc_fail, lambda i: replays[i],
              "Model/Polygon.v vs c_points_inside_polygon.c + gutils.py + grid.py")
    return ctx.finish()
