"""C13 - grids and catchments survive save/load, dictionary export, cloning and clipping."""
import io
import json
import math
import os
import re
import struct
import zipfile
from fractions import Fraction as Fr
from pathlib import Path

import numpy as np

from harness import common as cm

PID = "C13"
HEADER = ("From Coq Require Import ZArith List String PrimFloat.\n"
          "From Hy Require Import Base.Num Model.Grid Model.GridIO.")

DTYPES = ["int8", "int16", "int32", "int64", "uint8", "uint16", "uint32", "uint64",
          "float16", "float32", "float64"]
KIND = {"i": "KInt", "u": "KUInt", "f": "KFloat"}
ESRI = {32: (-1, -1), 64: (-1, 0), 128: (-1, 1), 16: (0, -1), 1: (0, 1), 8: (1, -1), 4: (1, 0), 2: (1, 1)}


# ----------------------------------------------------------------------------
# Coq terms

def cs(s):
    """Coq string term (printable ASCII as a literal, anything else by character codes)."""
    if all(32 <= ord(c) <= 126 for c in s):
        return '"' + s.replace('"', '""') + '"%string'
    return "(s_of [" + "; ".join(f"{ord(c)}%Z" for c in s) + "])"


def cdtype(dt):
    dt = np.dtype(dt)
    return f"({KIND[dt.kind]}, {dt.itemsize}%Z)"


def cnd(v):
    if isinstance(v, (float, np.floating)):
        return f"(NFlt {cm.coq_float(float(v))})"
    return f"(NInt {cm.coq_z(int(v))})"


def cpv(v):
    if isinstance(v, (float, np.floating)):
        return f"(PFlt {cm.coq_float(float(v))})"
    return f"(PInt {cm.coq_z(int(v))})"


def clist(items):
    return "[" + "; ".join(items) + "]"


class Meta:
    """Attributes of a grid as the model sees them."""

    def __init__(self, name, ncols, nrows, csz, xll, yll, dtype, nodata, comment, parent=()):
        self.name, self.ncols, self.nrows = name, int(ncols), int(nrows)
        self.csz, self.xll, self.yll = float(csz), float(xll), float(yll)
        self.dtype = np.dtype(dtype)
        self.nodata, self.comment, self.parent = nodata, comment, list(parent)

    @classmethod
    def of(cls, g):
        par = [(k, v) for k, v in vars(g).items()
               if k.startswith("parentgrid_") and k != "parentgrid_name"]
        nd = g.nodata
        nd = float(nd) if isinstance(nd, (float, np.floating)) else int(nd)
        return cls(g.name, g.ncols, g.nrows, g.cellsize, g.xllcorner, g.yllcorner, g.dtype, nd,
                   g.comment, [(k, float(v) if isinstance(v, (float, np.floating)) else int(v)) for k, v in par])

    def term(self):
        par = clist(f"({cs(k)}, {cpv(v)})" for k, v in self.parent)
        return (f"(mkG {cs(self.name)} {cm.coq_z(self.ncols)} {cm.coq_z(self.nrows)} {cm.coq_float(self.csz)} "
                f"{cm.coq_float(self.xll)} {cm.coq_float(self.yll)} {cdtype(self.dtype)} {cnd(self.nodata)} "
                f"{cs(self.comment)} {par})")

    def floats(self):
        out = [self.csz, self.xll, self.yll]
        if isinstance(self.nodata, float):
            out.append(self.nodata)
        out += [v for _, v in self.parent if isinstance(v, float)]
        return out

    def js(self):
        return {"name": self.name, "ncols": self.ncols, "nrows": self.nrows, "cellsize": self.csz,
                "xllcorner": self.xll, "yllcorner": self.yll, "dtype": self.dtype.name,
                "nodata": repr(self.nodata), "comment": self.comment, "parent": self.parent}


def prt_term(floats, fn=repr):
    """table float -> token (the printer is Python's: trusted, see notes)"""
    seen, items = set(), []
    for x in floats:
        key = struct.pack("<d", x) if not math.isnan(x) else b"nan"
        if key in seen:
            continue
        seen.add(key)
        items.append(f"({cm.coq_float(x)}, {cs(fn(x))})")
    return clist(items)


def rdt_term(tokens, parse=float):
    """table token -> float for every token Python's float() accepts"""
    seen, items = set(), []
    for t in tokens:
        if t in seen:
            continue
        seen.add(t)
        try:
            x = float(parse(t))
        except (ValueError, OverflowError):
            continue
        items.append(f"({cs(t)}, {cm.coq_float(x)})")
    return clist(items)


def patterns(a):
    """unsigned bit patterns of the cells, row-major"""
    a = np.ascontiguousarray(a)
    u = a.view(np.dtype(f"u{a.dtype.itemsize}"))
    return [int(x) for x in u.ravel()]


def cdval(v):
    if v is None:
        return "DNone"
    if isinstance(v, str):
        return f"(DStr {cs(v)})"
    if isinstance(v, dict):
        return f"(DDict {cdict(v)})"
    if isinstance(v, (list, tuple, np.ndarray)):
        return f"(DZs {cm.coq_zlist([int(x) for x in v])})"
    if isinstance(v, (float, np.floating)):
        return f"(DFlt {cm.coq_float(float(v))})"
    if isinstance(v, (int, np.integer)) and not isinstance(v, bool):
        return f"(DInt {cm.coq_z(int(v))})"
    raise TypeError(f"dictionary value of type {type(v)} not covered by the model")


def cdict(d):
    return clist(f"({cs(k)}, {cdval(v)})" for k, v in d.items())


def dict_floats(d):
    out = []
    for v in d.values():
        if isinstance(v, dict):
            out += dict_floats(v)
    return out


# ----------------------------------------------------------------------------
# generators

def rand_double(rng, simple=0.5):
    """finite float64: simple decimals or any bit pattern"""
    r = rng.random()
    if r < simple:
        return rng.choice([0.0, 1.0, -1.0, 0.5, 0.1, 0.0025, 112.90125, -43.74375, 1e-7, 1000.0, -2951000.0,
                           round(rng.uniform(-180, 180), rng.randint(0, 6)), float(rng.randint(-10 ** 6, 10 ** 6))])
    if r < simple + 0.1:
        return rng.choice([-0.0, 5e-324, -5e-324, 2.2250738585072014e-308, 1.7976931348623157e308,
                           -1.7976931348623157e308, 1e22, 1e23, 9007199254740993.0, 0.30000000000000004])
    while True:
        x = struct.unpack("<d", struct.pack("<Q", rng.getrandbits(64)))[0]
        if math.isfinite(x):
            return x


def rand_values(rng, dt, n):
    """n cell values over the full range of the type (canonical NaN only)"""
    dt = np.dtype(dt)
    bits = 8 * dt.itemsize
    pats = []
    for _ in range(n):
        r = rng.random()
        if r < 0.25:
            pats.append(rng.choice([0, 1, (1 << bits) - 1, 1 << (bits - 1), (1 << (bits - 1)) - 1,
                                    (1 << (bits - 2)) + 1, (1 << bits) - 2]))
        elif r < 0.4:
            pats.append(rng.getrandbits(8))
        else:
            pats.append(rng.getrandbits(bits))
    a = np.array(pats, dtype=np.dtype(f"u{dt.itemsize}")).view(dt).copy()
    if dt.kind == "f":
        a[np.isnan(a)] = np.nan
        for k in range(n):
            if rng.random() < 0.15:
                a[k] = rng.choice([np.inf, -np.inf, np.nan, -0.0, 0.0])
    return a


def rand_nodata(rng, dt):
    """no-data value representable in the type (python int or float)"""
    dt = np.dtype(dt)
    if dt.kind == "f":
        r = rng.random()
        if r < 0.3:
            return float(dt.type(rng.choice([0, -9999, -1, 32767, 1e30, -99.5, 0.1, 1e-7, 3.4e38, 65504, -65504])))
        if r < 0.5:
            return rng.choice([float("nan"), float("inf"), float("-inf"), -0.0])
        return float(rand_values(rng, dt, 1)[0])
    info = np.iinfo(dt)
    r = rng.random()
    if r < 0.4:
        return int(rng.choice([info.min, info.max, 0, info.max - 1, info.min + 1 if info.min < 0 else 1]))
    if r < 0.6:
        v = rng.choice([-99, -1, 255, -128, 127, 32767, -9999, 55537])
        return int(min(max(v, info.min), info.max))
    return rng.randint(int(info.min), int(info.max))


NAME_CHARS = "abcXYZ_09-. "


def rand_name(rng):
    r = rng.random()
    if r < 0.4:
        return rng.choice(["g", "grid", "My Grid", "DEM_1s", "fdtest", "a  b"])
    n = rng.randint(1, 8)
    s = "".join(rng.choice(NAME_CHARS) for _ in range(n)).strip()
    return s or "g"


def rand_comment(rng):
    r = rng.random()
    if r < 0.4:
        return ""
    if r < 0.7:
        return rng.choice(["testing header", "Area grid", "No comment", "x = 3.5  (m)"])
    return "".join(rng.choice(NAME_CHARS + "=[],") for _ in range(rng.randint(1, 20))).strip()


def make_grid(hygrid, rng, dt=None, shape=None, simple_geo=0.5):
    dt = np.dtype(dt or rng.choice(DTYPES))
    nrows, ncols = shape or (rng.choice([1, 1, 2, 3, rng.randint(1, 6)]), rng.choice([1, 2, 2, 3, rng.randint(1, 6)]))
    g = hygrid.Grid(rand_name(rng), ncols, nrows, cellsize=rand_double(rng, simple_geo),
                    xllcorner=rand_double(rng, simple_geo), yllcorner=rand_double(rng, simple_geo),
                    dtype=dt.type, nodata=rand_nodata(rng, dt), comment=rand_comment(rng))
    vals = rand_values(rng, dt, nrows * ncols)
    g[np.arange(nrows * ncols)] = vals          # exact: no conversion
    return g, vals.reshape(nrows, ncols).copy()


def same_float(a, b):
    return (math.isnan(a) and math.isnan(b)) or a == b


def compare_meta(ref, got, what):
    """oracle: identical shape, georeferencing, data type and no-data value.
    Returns the list of failure modes."""
    fails = []
    if (int(ref.nrows), int(ref.ncols)) != (int(got.nrows), int(got.ncols)) or \
            got.data.shape != (int(ref.nrows), int(ref.ncols)):
        fails.append(("shape", f"{what}: shape {(ref.nrows, ref.ncols)} became {(got.nrows, got.ncols)} "
                               f"(data {got.data.shape})"))
    for att in ("cellsize", "xllcorner", "yllcorner"):
        a, b = float(getattr(ref, att)), float(getattr(got, att))
        if a != b:
            fails.append(("georef", f"{what}: {att} {a!r} became {b!r}"))
            break
    if np.dtype(ref.dtype) != np.dtype(got.dtype) or got.data.dtype != np.dtype(ref.dtype):
        fails.append(("dtype", f"{what}: dtype {np.dtype(ref.dtype)} became {np.dtype(got.dtype)} "
                               f"(data {got.data.dtype})"))
    a, b = ref.nodata, got.nodata
    if np.dtype(ref.dtype).kind == "f":
        same = same_float(float(a), float(b))
    else:
        same = int(a) == int(b)
    if not same:
        fails.append(("nodata", f"{what}: no-data value {a!r} became {b!r}"))
    return fails


def compare_values(ref_arr, got, what):
    if got.data.shape == ref_arr.shape and got.data.dtype == ref_arr.dtype and \
            np.ascontiguousarray(got.data).tobytes() == ref_arr.tobytes():
        return []
    k = None
    if got.data.shape == ref_arr.shape:
        diff = np.flatnonzero(np.ascontiguousarray(got.data).view(np.uint8).reshape(ref_arr.size, -1).__ne__(
            ref_arr.view(np.uint8).reshape(ref_arr.size, -1)).any(axis=1)) \
            if got.data.dtype == ref_arr.dtype else []
        k = int(diff[0]) if len(diff) else None
    msg = f"{what}: cell values are not bit-identical"
    if k is not None:
        msg += f" (cell {k}: {ref_arr.ravel()[k]!r} became {got.data.ravel()[k]!r}, dtype {ref_arr.dtype})"
    return [("values", msg)]


# ----------------------------------------------------------------------------

def prove_stable(ctx, ex13):
    """cm.prove; with a single source tree this is exactly cm.prove.

    coq/Gen is shared by every check: when several checks run at the same time
    against DIFFERENT source trees (scratch worktrees with/without a fix), each
    of them rewrites coq/Gen/ConstsC13.v from its own tree and the development
    may be built against the constants of another tree.  When that is detected
    (the file differs from what this tree renders right after the build) the
    check falls back to a private copy of coq/ under its scratch directory
    (.v and .vo files copied with their time stamps, so only what depends on
    the constants is rebuilt) and evaluates the case files against that copy."""
    import shutil
    n_ob = len(ctx.obligations)
    proved = cm.prove(ctx)
    try:
        same = (cm.COQ / "Gen" / "ConstsC13.v").read_text() == ex13.render(cm.REPO)
    except Exception:
        same = True
    if same:
        return proved
    del ctx.obligations[n_ob:]
    for k in ("coq_build_log", "broken_at", "coq_props_log", "broken_tie", "axioms", "theorems"):
        ctx.notes.pop(k, None)
    priv = cm.scratch() / "coq_private"
    lk = cm._lock()
    try:
        shutil.copytree(cm.COQ, priv, ignore=shutil.ignore_patterns(".lock", "*.aux", "*.glob"))
    finally:
        lk.close()
    cm.COQ = priv
    ctx.notes["private_coq_copy"] = "coq/Gen was being rewritten by a concurrent check of another tree"
    return cm.prove(ctx)


def run(ctx):
    ctx.rule = ("save/load: every one of the 11 dtypes x shapes 1..6 x cell sizes/origins from simple decimals to any "
                "finite binary64 pattern x no-data extremes/NaN/inf x values over all bit patterns (canonical NaN), "
                "through every loading path (from_header by header path / data path, from_stream on file objects / StringIO, "
                "from_zip stored in a sub-directory / deflated at the root), then saved and loaded a second time, and "
                "held as big-endian items (BYTEORDER M written by Grid.save); hand-written rasters of byte order I and M "
                "(any finite cell size/origin, key case, field widths, line order, NODATA/NODATA_VALUE) through the same "
                "loading paths, with and without data file, then saved and reloaded; hand-written headers: key spelling/case/blank runs, "
                "ULXMAP/XDIM aliases, NODATA/NODATA_VALUE with integer and float tokens, byte orders I/M/other, 20 pixel "
                "type spellings, valid and invalid NBITS, missing/unparsable/one-token lines, raw data of right and wrong "
                "length; larger shapes (one long row/column, rectangles on either side of 4 KiB..1 MiB of data) saved and loaded "
                "through every path and as hand-written big-endian rasters; dictionaries with optional keys removed; "
                "clips with corners anywhere inside the extent, and with corners ON the parent's lattice (cell edges as "
                "computed / correctly rounded / one binary64 step either side, the extent's own corner, cell centres, round "
                "decimal coordinates, whole extent) x decimal, thirds, arc-second, metric, dyadic and arbitrary cell sizes x "
                "round / whole-cell / half-cell / arbitrary origins x grids of 1 to 850 cells a side x georeferencing "
                "assigned after construction x clips of clips x corners given as float / numpy scalar / int, judged by exact "
                "rationals from the clip's own georeferencing; "
                "catchments with and without inlets; non-trivial = distinct (kind, dtype, outcome class...) signature")
    ctx.trusted = cm.STD_TRUST + [
        "Python's float printing/parsing (repr/format, float(), numpy str(scalar), numpy scalar constructors from "
        "strings): the model treats the text form of a float as an opaque token with read(print x) = x; the tables "
        "of tokens in the case files are computed by the harness with these functions",
        "ndarray.tofile/numpy.fromfile, zipfile, copy.deepcopy: not modelled beyond the byte layout (little-endian "
        "items, row-major); exercised by the implementation-level oracle only"]
    ctx.tested_not_proved = [
        "raw file I/O (tofile/fromfile/zip/TemporaryFile): bit comparison of reloaded arrays (tested)",
        "the printed form of every float64 cell size/origin reads back to the same float64 (tested on simple decimals, "
        "extreme values and random bit patterns; assumed as the hypothesis rd(pr x) = x in the theorems)",
        "clones: identical attributes/values and independence of original and clone (tested; deepcopy is not modelled)",
        "binary64 rounding in Grid.clip: clip cell centres coincide with parent centres to 1e-9 cell (tested); "
        "the theorem is over the reals"]
    from harness.extractors import c13 as ex13
    proved = prove_stable(ctx, ex13)
    cm.use_impl()
    from hydrodiy.gis import grid as hygrid
    rng = ctx.rng
    work = cm.scratch() / "c13_files"
    work.mkdir(exist_ok=True)
    terms, replays = [], []
    orc_fail = set()
    import time
    t_phase = [time.time()]
    phases = ctx.notes.setdefault("phase_seconds", {})

    def lap(name):
        now = time.time()
        phases[name] = round(phases.get(name, 0.0) + now - t_phase[0], 2)
        t_phase[0] = now

    def add(term, replay, sig):
        terms.append(term)
        replays.append(replay)
        ctx.count(sig)
        if len(terms) % 150 == 1:
            ctx.sample(replay)
        return len(terms) - 1

    def fail(idx, key, what, replay=None):
        if idx is not None:
            orc_fail.add(idx)
        ctx.failure(key, replay if replay is not None else replays[idx], what)

    # ------------------------------------------------------------------
    # A. save -> from_header / from_stream / from_zip
    def load_all(path_hdr, with_data=True):
        """every loading path on the same pair of files (header path_hdr, data beside it with the
        extension bil; with_data=False: there is no data file, the loaders return the header's grid).
        Returns [(function, how, grid or the exception raised)]."""
        path_hdr = Path(path_hdr)
        path_bil = path_hdr.with_suffix(".bil")
        if not with_data and path_bil.exists():
            path_bil.unlink()
        hname, bname = path_hdr.name, path_bil.name
        zsub, zroot = work / "z_sub.zip", work / "z_root.zip"
        with zipfile.ZipFile(zsub, "w", zipfile.ZIP_STORED) as z:
            z.write(path_hdr, "sub/dir/" + hname)
            if with_data:
                z.write(path_bil, "sub/dir/" + bname)
        with zipfile.ZipFile(zroot, "w", zipfile.ZIP_DEFLATED) as z:
            z.writestr("other.hdr", "NROWS 1\nNCOLS 1\n")     # an unrelated member
            if with_data:
                z.write(path_bil, bname)
            z.write(path_hdr, hname)

        def stream_files():
            with open(path_hdr, "r") as fh:
                if not with_data:
                    return hygrid.Grid.from_stream(fh)
                with open(path_bil, "rb") as fd:
                    return hygrid.Grid.from_stream(fh, fd)

        def stream_stringio():
            fh = io.StringIO(path_hdr.read_text())
            if not with_data:
                return hygrid.Grid.from_stream(fh)
            with open(path_bil, "rb") as fd:
                return hygrid.Grid.from_stream(fh, fd)
        ways = [("from_header", "path of the header file (pathlib.Path)", lambda: hygrid.Grid.from_header(path_hdr)),
                ("from_header", "path of the data file (str)", lambda: hygrid.Grid.from_header(str(path_bil))),
                ("from_stream", "text file and binary file objects", stream_files),
                ("from_stream", "StringIO header and binary file object", stream_stringio),
                ("from_zip", "members in a sub-directory, stored, header name",
                 lambda: hygrid.Grid.from_zip(zsub, "sub/dir/" + hname)),
                ("from_zip", "members at the root, deflated, data file name",
                 lambda: hygrid.Grid.from_zip(str(zroot), bname))]
        out = []
        for fn, how, thunk in ways:
            try:
                with np.errstate(all="ignore"):
                    out.append((fn, how, thunk()))
            except Exception as e:
                out.append((fn, how, e))
            ctx.count(("loading path", fn, how, with_data))
        return out

    def grid_spec(g, vals):
        return {"grid": Meta.of(g).js(), "patterns": patterns(vals)}

    def build_grid(spec):
        """grid + values from a replay specification (see grid_spec)"""
        js = spec["grid"]
        dt = np.dtype(js["dtype"])
        nd = js["nodata"]
        nd = float(nd) if dt.kind == "f" else int(nd)
        g = hygrid.Grid(js["name"], js["ncols"], js["nrows"], cellsize=js["cellsize"], xllcorner=js["xllcorner"],
                        yllcorner=js["yllcorner"], dtype=dt.type, nodata=nd, comment=js["comment"])
        for k_, v in js.get("parent", []):
            setattr(g, k_, v)
        vals = np.array(spec["patterns"], dtype=np.dtype(f"u{dt.itemsize}")).view(dt).reshape(js["nrows"], js["ncols"])
        g[np.arange(vals.size)] = vals.ravel()
        return g, vals.copy()

    def case_save(g, vals, tag, stem="a"):
        pb = work / f"{stem}.bil"
        ph = work / f"{stem}.hdr"
        for p in (pb, ph):
            if p.exists():
                p.unlink()
        m = Meta.of(g)
        base = dict(grid_spec(g, vals), kind="save-load", call="Grid.save -> from_header/from_stream/from_zip", how=tag)
        cm.mark(base)
        g.save(pb)
        text = ph.read_text()
        raw = pb.read_bytes()
        sig_dt = (m.dtype.name, min(m.nrows, 2), min(m.ncols, 2), bool(m.parent), m.comment == "")
        add(f"IOSave {m.term()} {prt_term(m.floats())} {cs(text)}", dict(base, header=text), ("save",) + sig_dt)
        add(f"IOTofile {m.dtype.itemsize}%Z {cm.coq_zlist(patterns(vals))} {cm.coq_zlist(list(raw))}",
            dict(base, raw=list(raw)[:64]), ("tofile", m.dtype.name))
        loaded = load_all(ph)
        errs = [(fn, how, e) for fn, how, e in loaded if isinstance(e, Exception)]
        if errs:                     # a saved grid must load, through every loading path
            fn, how, e = errs[0]
            i = add(f"IOLoad {cs(stem)} {cs(text)} {rdt_term(text.split())} (Some {cm.coq_zlist(list(raw))}) None",
                    dict(base, header=text, error=repr(e), loader=[fn, how]), ("load-saved-error",))
            fail(i, "C13/save-load/raises", f"a grid written by Grid.save cannot be loaded back by Grid.{fn} "
                                            f"({how}): {e!r}")
            return
        g2 = loaded[0][2]
        m2 = Meta.of(g2)
        i = add(f"IOLoad {cs(stem)} {cs(text)} {rdt_term(text.split())} (Some {cm.coq_zlist(list(raw))}) "
                f"(Some ({m2.term()}, Some {cm.coq_zlist(patterns(g2.data))}))",
                dict(base, header=text, loaded=m2.js()), ("load-saved",) + sig_dt)
        for fn, how, gl in loaded:
            what = f"Grid.save then Grid.{fn} [{how}]"
            for mode, msg in compare_meta(g, gl, what) + compare_values(vals, gl, what):
                fail(i, f"C13/{fn}/{mode}", msg, dict(replays[i], loader=[fn, how]))
            ctx.count((fn, m.dtype.name))
        # second generation: a grid that comes out of a loader (not out of the constructor) is saved and
        # loaded again, through every path; it is still the grid saved first
        fn1, how1, g1 = loaded[rng.randrange(len(loaded))]
        resave(i, g1, g, vals, f"Grid.save then Grid.{fn1} [{how1}] then Grid.save", [fn1, how1])
        # the same grid held as big-endian items (the library then writes BYTEORDER M itself): when the
        # type setter and Grid.save accept it, what they wrote loads back as the same grid
        if m.dtype.itemsize > 1 and rng.random() < 0.5:
            gb, _ = build_grid(grid_spec(g, vals))
            pbb = work / f"{stem}_be.bil"
            try:
                gb.dtype = m.dtype.newbyteorder(">")
                gb.save(pbb)
            except Exception:
                ctx.count(("big-endian items held by the grid: not accepted",))
                return
            textb = pbb.with_suffix(".hdr").read_text()
            ctx.count(("big-endian items held by the grid", m.dtype.name,
                       bool(re.search(r"(?mi)^BYTEORDER +M *$", textb))))
            for fn, how, gl in load_all(pbb.with_suffix(".hdr")):
                what = f"big-endian item type set on the grid, Grid.save, then Grid.{fn} [{how}]"
                rp = dict(replays[i], loader=[fn, how], big_endian_items=True, header=textb,
                          raw=list(pbb.read_bytes())[:64])
                if isinstance(gl, Exception):
                    fail(i, "C13/save-load/raises", f"{what}: {gl!r}", rp)
                    continue
                for mode, msg in compare_meta(g, gl, what) + compare_values(vals, gl, what):
                    fail(i, f"C13/{fn}/{mode}", msg, rp)

    def resave(i, g1, ref, vals, what1, loader1):
        """g1 was loaded from files and has to be the grid ref (cells vals): save it, load it through every path"""
        pb2 = work / "again.bil"
        try:
            g1.save(pb2)
        except Exception as e:
            fail(i, "C13/save-load/raises", f"{what1} raises {e!r}", dict(replays[i], loader=loader1))
            return
        for fn, how, gl in load_all(pb2.with_suffix(".hdr")):
            what = f"{what1} then Grid.{fn} [{how}]"
            rp = dict(replays[i], loader=loader1, second_loader=[fn, how], second_header=pb2.with_suffix(".hdr").read_text())
            if isinstance(gl, Exception):
                fail(i, "C13/save-load/raises", f"{what}: {gl!r}", rp)
                continue
            for mode, msg in compare_meta(ref, gl, what) + compare_values(vals, gl, what):
                fail(i, f"C13/{fn}/{mode}", msg, rp)
        ctx.count(("second generation", np.dtype(ref.dtype).name))

    ngrids = ctx.scale(70, 900)
    for k in range(ngrids):
        dt = DTYPES[k % len(DTYPES)]
        g, vals = make_grid(hygrid, rng, dt, simple_geo=0.5 if k % 3 else 0.0)
        if rng.random() < 0.25:
            par = hygrid.Grid("parent", 9, 8, cellsize=g.cellsize, xllcorner=rand_double(rng), yllcorner=-1.25)
            g.set_parent_attributes(par, 2, 4, 1, 3)
        case_save(g, vals, "random grid", rng.choice(["a", "grid_1", "Tile"]))

    lap("prove+save/load")
    # A2. the same on LARGER shapes (implementation-level oracle only: the rasters are too big for case terms):
    # a single long row / column and rectangles whose byte size sits on, just below and just above the usual
    # buffer sizes (4 KiB, 8 KiB, 64 KiB, 1 MiB), saved by Grid.save, and the same raster written by hand in
    # the other byte order, through every loading path
    def big_values(dt, n, seed):
        """n cell values over all bit patterns of the type (canonical NaN), reproducible from seed"""
        dt = np.dtype(dt)
        u = np.random.default_rng(seed).integers(0, 1 << (8 * dt.itemsize), size=n, dtype=np.dtype(f"u{dt.itemsize}"),
                                                 endpoint=False)
        a = u.view(dt).copy()
        if dt.kind == "f":
            a[np.isnan(a)] = np.nan
        return a

    def case_save_big(dt, nrows, ncols, geo, nd, seed, tag):
        dt = np.dtype(dt)
        vals = big_values(dt, nrows * ncols, seed).reshape(nrows, ncols)
        g = hygrid.Grid("big", ncols, nrows, cellsize=geo[0], xllcorner=geo[1], yllcorner=geo[2], dtype=dt.type,
                        nodata=nd, comment="larger shape")
        g[np.arange(nrows * ncols)] = vals.ravel()
        rp = {"kind": "save-load-big", "call": "Grid.save -> from_header/from_stream/from_zip", "dtype": dt.name,
              "nrows": nrows, "ncols": ncols, "geo": list(geo), "nodata": repr(nd), "value_seed": seed, "how": tag}
        cm.mark(rp)
        ctx.count(("save-load-big", dt.name, nrows == 1, ncols == 1))
        if np.ascontiguousarray(g.data).tobytes() != vals.tobytes():
            return          # the values did not enter the grid unchanged: not a statement about save/load
        pb = work / "big.bil"
        try:
            g.save(pb)
        except Exception as e:
            fail(None, "C13/save-load/raises", f"Grid.save of a {nrows}x{ncols} {dt.name} grid raises {e!r}", rp)
            return
        for fn, how, gl in load_all(pb.with_suffix(".hdr")):
            what = f"Grid.save of a {nrows}x{ncols} {dt.name} grid then Grid.{fn} [{how}]"
            rp1 = dict(rp, loader=[fn, how])
            if isinstance(gl, Exception):
                fail(None, "C13/save-load/raises", f"{what}: {gl!r}", rp1)
                continue
            for mode, msg in compare_meta(g, gl, what) + compare_values(vals, gl, what):
                fail(None, f"C13/{fn}/{mode}", msg, rp1)
        # the same raster produced elsewhere in the other byte order (items most significant byte first)
        if dt.itemsize > 1:
            ph = work / "big_m.hdr"
            ph.write_text(raster_header(dt, "M", nrows, ncols, geo, nd, PLAIN))
            ph.with_suffix(".bil").write_bytes(vals.astype(dt.newbyteorder(">")).tobytes())
            for fn, how, gl in load_all(ph):
                what = f"{nrows}x{ncols} {dt.name} raster with BYTEORDER M read by Grid.{fn} [{how}]"
                rp1 = dict(rp, loader=[fn, how], byteorder="M")
                if isinstance(gl, Exception):
                    fail(None, f"C13/{fn}/raises", f"{what}: {gl!r}", rp1)
                    continue
                for mode, msg in compare_meta(g, gl, what) + compare_values(vals, gl, what):
                    fail(None, f"C13/{fn}/{mode}", msg, rp1)

    def big_cases(n):
        for k in range(n):
            dt = np.dtype(DTYPES[k % len(DTYPES)])
            nbytes = rng.choice([4096, 8192, 65536, 1 << 20 if ctx.thorough or k % 4 == 0 else 65536])
            ncell = max(2, nbytes // dt.itemsize + rng.choice([-1, 0, 1, 1, rng.randint(2, 300)]))
            shp = rng.random()
            if shp < 0.3:
                nrows, ncols = 1, ncell
            elif shp < 0.5:
                nrows, ncols = ncell, 1
            else:
                nrows = rng.choice([2, 3, 7, 64, 100, 255, 256, 257])
                ncols = max(1, ncell // nrows + rng.choice([0, 1]))
            geo = (rand_double(rng, 0.7), rand_double(rng, 0.7), rand_double(rng, 0.7))
            yield dt, nrows, ncols, geo, rand_nodata(rng, dt), rng.randrange(10 ** 9)

    PIXELTYPES = ["SIGNEDINT", "UNSIGNEDINT", "FLOAT", "INT", "signedint", "Float", "UNSIGNED INT", "SIGNED INT",
                  "UINT", "SIGNED", "F", "I", "U", "unsignedinteger", "floating", "INTEGER", "signedintx", "xfloat",
                  "nt", ""]
    FTOK_OK = ["0", "1", "-1", "0.5", "1e-3", "-2951000", "145.44625", ".25", "1E5", "+3.5", "1000", "0.0025",
               "-17.58375", "1e-11"]
    FTOK_BAD = ["abc", "1,5", "--1", "1.2.3", "0x10"]

    def header_case():
        dt = np.dtype(rng.choice(DTYPES))
        nrows, ncols = rng.randint(1, 3), rng.randint(1, 3)
        bo = rng.choice(["I"] * 5 + ["M"] * 4 + ["i", "m", "X", None, None])
        pt = {"i": "SIGNEDINT", "u": "UNSIGNEDINT", "f": "FLOAT"}[dt.kind] if rng.random() < 0.8 \
            else rng.choice(PIXELTYPES)
        nbits = 8 * dt.itemsize if rng.random() < 0.93 else rng.choice([0, 1, 7, 8, 12, 16, 24, 32, 64, 65, -8])
        lines = []

        def kvl(k, v):
            if rng.random() < 0.2:
                k = k.lower() if rng.random() < 0.5 else k.capitalize()
            sep = rng.choice([" ", "  ", "          ", " " * rng.randint(1, 12)])
            trail = rng.choice(["", "", "", " ", "  ", "\t"])
            lines.append(f"{k}{sep}{v}{trail}\n")
        if rng.random() < 0.93:
            kvl("NROWS", rng.choice([str(nrows)] * 8 + ["+" + str(nrows), "0" + str(nrows), "x", "2.0"]))
        if rng.random() < 0.95:
            kvl("NCOLS", rng.choice([str(ncols)] * 20 + ["-1", "0", "abc", str(2 ** 63)]))
        if rng.random() < 0.9:
            kvl("NBITS", str(nbits))
        if rng.random() < 0.9:
            kvl("PIXELTYPE", pt)
        if bo is not None:
            kvl("BYTEORDER", bo)
        geo = rng.random()
        if geo < 0.45:
            kvl("XLLCORNER", rng.choice(FTOK_OK + FTOK_BAD[:1]))
            kvl("YLLCORNER", rng.choice(FTOK_OK))
            if rng.random() < 0.8:
                kvl("CELLSIZE", rng.choice(FTOK_OK + FTOK_BAD))
        elif geo < 0.85:
            kvl("ULXMAP", rng.choice(FTOK_OK))
            if rng.random() < 0.9:
                kvl("ULYMAP", rng.choice(FTOK_OK))
            xd = rng.choice(FTOK_OK)
            if rng.random() < 0.9:
                kvl("XDIM", xd)
            if rng.random() < 0.8:
                kvl("YDIM", rng.choice([xd, xd, xd, rng.choice(FTOK_OK), "1.00000000001", "1.0000000002"]))
        # no-data
        nd = rng.random()
        if nd < 0.8:
            key = rng.choice(["NODATA_VALUE", "NODATA", "nodata_value", "NODATA_value"])
            if dt.kind == "f":
                tok = rng.choice(["-9999", "0", "-9999.0", "nan", "inf", "-inf", "1e30", "65504", "0.1", "-1e-3",
                                  "3.4e38", "1e39", "70000", "9007199254740991", "-32768", "abc", "-1", "7.5"])
            else:
                info = np.iinfo(dt)
                ok = [str(info.max), str(info.min), "0", "1", "100", "+7", "3.7", "-0.5", "99.0", "1e2",
                      str(info.max // 2)] + (["-1", "-99", "-3.7", "-99.0"] if info.min < 0 else [])
                tok = rng.choice(ok * 3 + [str(info.max + 1), str(info.min - 1), "1e3", "nan", "inf", "1e30", "abc",
                                           "-9999", "55537", "255", "32767"])
            kvl(key, tok)
            if rng.random() < 0.1:
                kvl("NODATA", "1")
        for extra in (("LAYOUT", "BIL"), ("NBANDS", "1"), ("BANDROWBYTES", str(ncols * dt.itemsize)),
                      ("NAME", rng.choice(["MyGrid", "a b", "x"])), ("COMMENT", rng.choice(["Testing  Header", "c"])),
                      ("PARENTGRID_NROWS", "7"), ("PARENTGRID_XLLCORNER", "1.5"), ("PARENTGRID_ROWS_START", "2"),
                      ("PARENTGRID_NCOLS", "2.5"), ("PARENTGRID_NAME", "p"), ("FOO", "1.5"), ("BAR", "baz")):
            if rng.random() < 0.15:
                kvl(*extra)
        r = rng.random()
        if r < 0.04:
            lines.append(rng.choice(["\n", "NROWS\n", "NAME\n", "FOO\n", " \n", "COMMENT\n", "LAYOUT\n"]))
        rng.shuffle(lines)
        if r > 0.9 and lines:
            lines[-1] = lines[-1].rstrip("\n")       # last line without newline
        if 0.04 <= r < 0.08:
            lines[0] = " " + lines[0]                # leading blank: empty key
        text = "".join(lines)
        # raw data: right length (mostly), wrong length, none
        rd = rng.random()
        n = nrows * ncols
        if rd < 0.15:
            raw = None
        else:
            nbytes = n * dt.itemsize
            if rd > 0.9:
                nbytes = max(0, nbytes + rng.choice([-dt.itemsize, dt.itemsize, 1, -1, 3]))
            raw = bytes(rng.getrandbits(8) for _ in range(nbytes))
            if dt.kind == "f":                       # canonical NaNs only
                whole = raw[:len(raw) // dt.itemsize * dt.itemsize]
                if any(np.isnan(np.frombuffer(whole, dtype=dt.newbyteorder(o))).any() for o in "<>"):
                    raw = np.arange(nbytes // dt.itemsize).astype(dt).tobytes() + b"\x00" * (nbytes % dt.itemsize)
        return text, raw, (nrows, ncols, dt, bo, pt, nbits)

    def run_header(text, raw, defname, info, tag, extra=None):
        base = {"call": "Grid.from_stream", "header": text, "raw": None if raw is None else list(raw), "how": tag}
        base.update(extra or {})
        cm.mark(base)
        fh = io.StringIO(text)
        if defname != "no_name":
            fh.name = f"/some/dir/{defname}.hdr"
        fd = None
        if raw is not None:
            pb = work / "hand.bil"
            pb.write_bytes(raw)
            fd = open(pb, "rb")
        try:
            with np.errstate(all="ignore"):
                g = hygrid.Grid.from_stream(fh, fd)
            err = None
        except Exception as e:
            g, err = None, e
        finally:
            if fd is not None:
                fd.close()
        data = "None" if raw is None else f"(Some {cm.coq_zlist(list(raw))})"
        if g is None:
            exp = "None"
            sig = ("hdr-error", type(err).__name__)
        else:
            m = Meta.of(g)
            pats = "None" if raw is None else f"(Some {cm.coq_zlist(patterns(g.data))})"
            exp = f"(Some ({m.term()}, {pats}))"
            sig = ("hdr-ok", m.dtype.name, raw is not None, bool(m.parent), info[3])
        i = add(f"IOLoad {cs(defname)} {cs(text)} {rdt_term(text.split())} {data} {exp}",
                dict(base, error=None if err is None else repr(err),
                     loaded=None if g is None else Meta.of(g).js()), sig)
        return i, g

    for k in range(ctx.scale(260, 4000)):
        text, raw, info = header_case()
        run_header(text, raw, rng.choice(["no_name", "fdtest", "Tile_3"]), info, "random hand-written header")

    # big-endian and little-endian rasters written by hand (files produced elsewhere), read through EVERY
    # loading path: the loaded grid has the header's shape, georeferencing, type and no-data value and the
    # file's items decoded in the header's byte order; saved again and reloaded it is still that grid
    def raster_header(dt, bo, nrows, ncols, geo, nd, style):
        """header of a raster; style = (key case, field width, lower-case tokens, no-data key, line order seed)"""
        kcase, width, lowtok, ndkey, oseed = style
        pt = {"i": "SIGNEDINT", "u": "UNSIGNEDINT", "f": "FLOAT"}[dt.kind]
        botok = bo
        if lowtok:
            pt, botok = pt.lower(), bo.lower()
        csz, xll, yll = geo
        kv = [("NROWS", nrows), ("NCOLS", ncols), ("NBITS", 8 * dt.itemsize), ("PIXELTYPE", pt), ("BYTEORDER", botok),
              ("XLLCORNER", repr(float(xll))), ("YLLCORNER", repr(float(yll))), ("CELLSIZE", repr(float(csz))),
              (ndkey, repr(nd))]
        if oseed is not None:
            import random
            random.Random(oseed).shuffle(kv)
        return "".join(f"{(k.lower() if kcase == 'lower' else k):<{width}} {v}\n" for k, v in kv)

    PLAIN = ("upper", 1, False, "NODATA_VALUE", None)

    def case_raster(dt, bo, nrows, ncols, pats, nd, tag, geo=(0.25, 1.5, -2.0), style=PLAIN):
        dt = np.dtype(dt)
        geo = tuple(float(x) for x in geo)
        vals = np.array(pats, dtype=np.dtype(f"u{dt.itemsize}")).view(dt)
        raw = vals.astype(dt.newbyteorder(">" if bo == "M" else "<")).tobytes()
        pt = {"i": "SIGNEDINT", "u": "UNSIGNEDINT", "f": "FLOAT"}[dt.kind]
        text = raster_header(dt, bo, nrows, ncols, geo, nd, style)
        i, g = run_header(text, raw, "no_name", (nrows, ncols, dt, bo, pt, 8 * dt.itemsize), tag,
                          extra={"kind": "raster", "dtype": dt.name, "byteorder": bo, "nrows": nrows, "ncols": ncols,
                                 "patterns": [int(x) for x in pats], "nodata": nd, "geo": list(geo),
                                 "style": list(style)})
        # oracle, independent of numpy's decoding: items decoded with int.from_bytes
        want = [int.from_bytes(raw[j * dt.itemsize:(j + 1) * dt.itemsize], "big" if bo == "M" else "little")
                for j in range(nrows * ncols)]
        other = [int.from_bytes(raw[j * dt.itemsize:(j + 1) * dt.itemsize], "little" if bo == "M" else "big")
                 for j in range(nrows * ncols)]
        ctx.count(("raster", dt.name, bo))

        def judge(fn, how, g, data=True):
            """g = what the loader returned (or the exception it raised) for this raster"""
            rp = replays[i] if how is None else dict(replays[i], loader=[fn, how], data_file=data)
            via = f"Grid.{fn}" + ("" if how is None else f" [{how}]") + ("" if data else ", header without data file")
            if g is None or isinstance(g, Exception):
                fail(i, f"C13/{fn}/raises", f"valid {dt.name} raster with BYTEORDER {bo} and NODATA_VALUE {nd!r} "
                                            f"rejected by {via}" + ("" if g is None else f": {g!r}"), rp)
                return False
            ok = True
            if np.dtype(g.dtype) != dt or g.data.dtype != dt:
                fail(i, f"C13/{fn}/dtype", f"NBITS {8 * dt.itemsize} PIXELTYPE {pt} BYTEORDER {bo} "
                                           f"loaded as {g.data.dtype} by {via}", rp)
                ok = False
            elif data:
                got = patterns(g.data)
                if got != want:
                    j = next((j for j in range(min(len(want), len(got))) if got[j] != want[j]), 0)
                    if how is None:
                        mode = "big-endian-decoded-little-endian" if bo == "M" else "values"
                    else:
                        mode = "values" if got != other else \
                            ("big-endian-decoded-little-endian" if bo == "M" else "little-endian-decoded-big-endian")
                    fail(i, f"C13/{fn}/{mode}",
                         f"{dt.name} raster with BYTEORDER {bo} read by {via}: item {j} has bytes "
                         f"{list(raw[j * dt.itemsize:(j + 1) * dt.itemsize])} but loads as "
                         f"{g.data.ravel()[j] if g.data.size > j else None!r} (expected {vals.ravel()[j]!r})", rp)
                    ok = False
            ndg = g.nodata
            if not (same_float(float(ndg), float(nd)) and (dt.kind == "f" or int(ndg) == nd)):
                fail(i, f"C13/{fn}/nodata", f"NODATA_VALUE {nd!r} of a {dt.name} header loaded as {ndg!r} by {via}", rp)
                ok = False
            if how is not None:
                if (int(g.nrows), int(g.ncols)) != (nrows, ncols) or g.data.shape != (nrows, ncols):
                    fail(i, f"C13/{fn}/shape", f"NROWS {nrows} NCOLS {ncols} loaded as {(g.nrows, g.ncols)} "
                                               f"(data {g.data.shape}) by {via}", rp)
                    ok = False
                for att, x in zip(("cellsize", "xllcorner", "yllcorner"), geo):
                    if float(getattr(g, att)) != x:
                        fail(i, f"C13/{fn}/georef", f"{att.upper()} {x!r} loaded as {float(getattr(g, att))!r} by {via}", rp)
                        ok = False
                        break
            return ok

        if not judge("from_stream", None, g):
            return
        # the same pair of files through every loading path
        stem = rng.choice(["hand", "Tile_3", "r.1"])
        ph = work / f"{stem}.hdr"
        ph.write_text(text)
        ph.with_suffix(".bil").write_bytes(raw)
        loaded = load_all(ph)
        good = [(fn, how, gl) for fn, how, gl in loaded if judge(fn, how, gl)]
        # second generation: the loaded grid written by Grid.save and loaded again is still the raster
        if good:
            fn1, how1, g1 = good[rng.randrange(len(good))]
            ref = hygrid.Grid("ref", ncols, nrows, cellsize=geo[0], xllcorner=geo[1], yllcorner=geo[2], dtype=dt.type,
                              nodata=nd)
            resave(i, g1, ref, vals.reshape(nrows, ncols).copy(),
                   f"{dt.name} raster with BYTEORDER {bo} read by Grid.{fn1} [{how1}] then Grid.save", [fn1, how1])
        # header alone (no data file): same shape, georeferencing, type and no-data value
        for fn, how, gl in load_all(ph, with_data=False):
            judge(fn, how, gl, data=False)

    STYLES = [PLAIN, ("upper", 14, False, "NODATA_VALUE", None)]
    for k in range(ctx.scale(44, 440)):
        dt = np.dtype(DTYPES[k % len(DTYPES)])
        for bo in ("I", "M"):
            nrows, ncols = rng.randint(1, 3), rng.randint(1, 3)
            if rng.random() < 0.4:
                geo, style = (0.25, 1.5, -2.0), rng.choice(STYLES)
            else:
                geo = (rand_double(rng, 0.5), rand_double(rng, 0.5), rand_double(rng, 0.5))
                style = (rng.choice(["upper", "upper", "lower"]), rng.choice([1, 14, 14, 22, rng.randint(1, 30)]),
                         rng.random() < 0.3, rng.choice(["NODATA_VALUE", "NODATA_VALUE", "NODATA"]),
                         rng.choice([None, rng.randrange(10 ** 6)]))
            case_raster(dt, bo, nrows, ncols, patterns(rand_values(rng, dt, nrows * ncols)), rand_nodata(rng, dt),
                        "hand-written raster, byte order " + bo, geo, style)

    lap("headers+rasters")
    for dt_, nr_, nc_, geo_, nd_, seed_ in big_cases(ctx.scale(11, 110)):
        case_save_big(dt_, nr_, nc_, geo_, nd_, seed_, "larger shape")

    lap("larger shapes")
    # ------------------------------------------------------------------
    # pixel type expression
    import ast
    tree = ast.parse((cm.REPO / ex13.GRID_PY).read_text())
    pat = ex13.stream_consts(ex13._fn(ex13._cls(tree, "Grid"), "from_stream"))[3]
    for k in range(ctx.scale(120, 2000)):
        if k < len(PIXELTYPES):
            s = PIXELTYPES[k].lower()
        else:
            s = "".join(rng.choice(["n", "t", "signed", "int", "u", "loat", "f", "nsignedint", "s", "i", "l", "o", "a",
                                    "x", " "]) for _ in range(rng.randint(0, 5)))
        add(f"IOResub {cs(s)} {cs(re.sub(pat, '', s))}", {"call": "re.sub(pixeltype)", "s": s}, ("resub", min(len(s), 12)))

    # ------------------------------------------------------------------
    # C. dictionaries, clones
    def np_str(dt, x):
        return str(np.dtype(dt).type(x))

    for k in range(ctx.scale(66, 800)):
        dt = np.dtype(DTYPES[k % len(DTYPES)])
        g, vals = make_grid(hygrid, rng, dt)
        if rng.random() < 0.3:
            par = hygrid.Grid("parent", 7, 5, cellsize=g.cellsize, xllcorner=rand_double(rng), yllcorner=1.5)
            g.set_parent_attributes(par, 1, 3, 2, 4)
        m = Meta.of(g)
        base = {"call": "Grid.to_dict/from_dict/clone", "grid": m.js()}
        cm.mark(base)
        d = g.to_dict()
        nd_floats = [m.nodata] if isinstance(m.nodata, float) else []
        i = add(f"IOToDict {m.term()} {prt_term(nd_floats, lambda x: np_str(dt, x))} {cdict(d)}",
                dict(base, dict={k_: repr(v) for k_, v in d.items()}), ("to_dict", dt.name, bool(m.parent)))
        try:
            g2 = hygrid.Grid.from_dict(d)
        except Exception as e:
            g2 = None
            fail(i, "C13/dict/raises", f"Grid.from_dict(grid.to_dict()) raises {e!r}")
        if g2 is not None:
            m2 = Meta.of(g2)
            j = add(f"IOFromDict {cdict(d)} {rdt_term([d['nodata']], lambda s: dt.type(s) if dt.kind == 'f' else float(s))} "
                    f"(Some {m2.term()})", dict(base, rebuilt=m2.js()), ("from_dict", dt.name))
            for mode, what in compare_meta(g, g2, "Grid.from_dict(grid.to_dict())"):
                fail(j, f"C13/dict/{mode}", what)
        # variations: optional keys removed, dtype by name, numeric no-data
        d2 = dict(d)
        for opt in ("nrows", "cellsize", "xllcorner", "yllcorner", "dtype", "nodata", "comment", "name", "ncols"):
            if rng.random() < (0.2 if opt not in ("name", "ncols") else 0.04):
                d2.pop(opt, None)
        if "dtype" in d2 and rng.random() < 0.3:
            d2["dtype"] = dt.name
        if "nodata" in d2 and rng.random() < 0.3:
            d2["nodata"] = m.nodata
        if "nodata" in d2 and "dtype" not in d2 and isinstance(d2["nodata"], str):
            d2["nodata"] = "0.5"          # float64 default type
        try:
            with np.errstate(all="ignore"):
                g3 = hygrid.Grid.from_dict(d2)
            exp = f"(Some {Meta.of(g3).term()})"
            sig = ("from_dict-var", tuple(sorted(set(d) - set(d2))), np.dtype(g3.dtype).name)
        except Exception as e:
            g3, exp, sig = None, "None", ("from_dict-var-error", type(e).__name__)
        toks = [d2["nodata"]] if isinstance(d2.get("nodata"), str) else []
        dt3 = np.dtype(d2["dtype"]) if "dtype" in d2 else np.dtype("float64")
        add(f"IOFromDict {cdict(d2)} {rdt_term(toks, lambda s: dt3.type(s) if dt3.kind == 'f' else float(s))} {exp}",
            dict(base, dict={k_: repr(v) for k_, v in d2.items()}), sig)

        # clone: identical, then independent (tested only); without argument and with an
        # explicit dtype equal to the grid's own (what Catchment.__init__ does)
        for cl_name, mk in (("Grid.clone()", lambda: g.clone()),
                            ("Grid.clone(own dtype)", lambda: g.clone(dt.type))):
            cur = g.data.copy()
            c = mk()
            ctx.count(("clone", cl_name, dt.name))
            cl_fail = compare_meta(g, c, cl_name) + compare_values(cur, c, cl_name)
            if c.name != g.name or c.comment != g.comment:
                cl_fail.append(("attributes", f"{cl_name}: name/comment differ"))
            for mode, what in cl_fail:
                fail(None, f"C13/clone/{mode}", what, dict(base, values=patterns(cur)))
            before = (Meta.of(g).js(), g.data.tobytes())
            c.data[0, 0] = dt.type(3) if c.data[0, 0] != dt.type(3) else dt.type(4)
            c[g.nrows * g.ncols - 1] = dt.type(3)
            c.nodata = 5
            c.name, c.comment, c.cellsize, c.xllcorner = "other", "changed", 99.0, -5.0
            c.fill(7)
            if (Meta.of(g).js(), g.data.tobytes()) != before:
                fail(None, "C13/clone/not-independent", f"{cl_name}: changing the clone changed the original grid",
                     dict(base, values=patterns(cur), clone=cl_name))
            c2 = mk()
            snap = (Meta.of(c2).js(), c2.data.tobytes())
            g.fill(1)
            g.nodata = 2
            g.yllcorner = 17.0
            g.data[-1, -1] = dt.type(9)
            if (Meta.of(c2).js(), c2.data.tobytes()) != snap:
                fail(None, "C13/clone/not-independent", f"{cl_name}: changing the original grid changed its clone",
                     dict(base, values=patterns(cur), clone=cl_name))

    lap("resub+dict+clone")
    # ------------------------------------------------------------------
    # E. clip
    def clip_cands(q, n, amb):
        """cells along one axis (counted from the lower-left corner of the parent) that may hold a box corner
        lying exactly q cells from the origin: floor(q), plus the neighbour across the edge when q is within
        `amb` cells (rounding of the binary64 quotient) of that edge.  Returns (cells inside the grid,
        whether every candidate is inside the grid)."""
        f = math.floor(q)
        out = {f}
        if q - f < amb:
            out.add(f - 1)
        if f + 1 - q < amb:
            out.add(f + 1)
        return {v for v in out if 0 <= v < n}, all(0 <= v < n for v in out)

    def judge_clip(i, rp, g, vals, box, c, exc):
        """Oracle of the clip clause for ANY box with both corners inside the extent (corners on cell edges,
        on cell centres, on the extent's own corner... included), by exact rationals and independent of the
        cells the library attributes to the corners:
          * every cell of the clip has its centre (from the clip's OWN georeferencing) on the centre of a cell
            of the parent, and holds that cell's value;
          * the clip is the block of parent cells from the cell of the lower-left corner to the cell of the
            upper-right corner (either neighbour is accepted for a corner within rounding of a cell edge);
          * the call does not raise when no reading of the corners leaves the grid."""
        bx0, by0, bx1, by1 = box
        nrows, ncols = int(g.nrows), int(g.ncols)
        xll, yll, csz = float(g.xllcorner), float(g.yllcorner), float(g.cellsize)
        dt = np.dtype(g.dtype)
        X0, Y0, S = Fr(xll), Fr(yll), Fr(csz)
        scale = max(abs(xll), abs(yll), abs(bx0), abs(by0), abs(bx1), abs(by1)) / csz
        amb = Fr(1e-9 + 4e-16 * scale)
        colsL, inL = clip_cands((Fr(bx0) - X0) / S, ncols, amb)
        colsR, inR = clip_cands((Fr(bx1) - X0) / S, ncols, amb)
        rowsB, inB = clip_cands((Fr(by0) - Y0) / S, nrows, amb)      # counted from the bottom
        rowsT, inT = clip_cands((Fr(by1) - Y0) / S, nrows, amb)
        desc = f"parent {nrows}x{ncols} {dt.name}, cellsize {csz!r}, corner ({xll!r}, {yll!r}), box {list(box)!r}"
        if c is None:
            if inL and inR and inB and inT:
                fail(i, "C13/clip/raises", f"clip to a box inside the extent raised {exc!r} ({desc})", rp)
            return
        cn_r, cn_c = int(c.nrows), int(c.ncols)
        if cn_r < 1 or cn_c < 1 or c.data.shape != (cn_r, cn_c):
            fail(i, "C13/clip/shape", f"clip has nrows, ncols = {(cn_r, cn_c)} and data of shape {c.data.shape} ({desc})", rp)
            return
        CS, CX, CY = Fr(float(c.cellsize)), Fr(float(c.xllcorner)), Fr(float(c.yllcorner))
        tol = Fr(1e-9 * csz + 4e-16 * (abs(xll) + abs(yll) + csz * (nrows + ncols)))

        def parent_of(a, b):
            """parent cell (row, column) whose centre is nearest to the centre of clip cell (a, b); distance"""
            ex = CX + CS * (b + Fr(1, 2))
            ey = CY + CS * (cn_r - 1 - a + Fr(1, 2))
            ux, uy = (ex - X0) / S - Fr(1, 2), (ey - Y0) / S - Fr(1, 2)
            pc, pb = math.floor(ux + Fr(1, 2)), math.floor(uy + Fr(1, 2))
            return nrows - 1 - pb, pc, max(abs(ux - pc), abs(uy - pb)) * S, (float(ex), float(ey))

        same_lattice = CS == S
        if same_lattice or cn_r * cn_c <= 4:
            probe = sorted({(0, 0), (cn_r - 1, cn_c - 1), (0, cn_c - 1), (cn_r - 1, 0)})
        else:       # another cell size: no short cut, cell by cell (a sample of a big clip)
            probe = [(a_, b_) for a_ in range(cn_r) for b_ in range(cn_c)]
            if len(probe) > 400:
                probe = probe[:100] + probe[-100:] + [probe[rng.randrange(len(probe))] for _ in range(200)]
        got_cells = {}
        for a_, b_ in probe:
            pr, pc, dev, ctr = parent_of(a_, b_)
            if dev > tol or not (0 <= pr < nrows and 0 <= pc < ncols):
                fail(i, "C13/clip/centres",
                     f"clip cell ({a_},{b_}) has its centre at {ctr} (clip corner ({float(c.xllcorner)!r}, "
                     f"{float(c.yllcorner)!r}), cellsize {float(c.cellsize)!r}): "
                     + ("no cell of the parent has this centre" if dev > tol else
                        f"that is the centre of cell ({pr},{pc}), outside the parent") + f" ({desc})", rp)
                return
            got_cells[(a_, b_)] = (pr, pc)
        pr0, pc0 = got_cells[(0, 0)]
        if same_lattice:
            if got_cells[(cn_r - 1, cn_c - 1)] != (pr0 + cn_r - 1, pc0 + cn_c - 1):
                fail(i, "C13/clip/centres", f"clip cells (0,0) and ({cn_r - 1},{cn_c - 1}) lie on parent cells "
                                            f"{(pr0, pc0)} and {got_cells[(cn_r - 1, cn_c - 1)]} ({desc})", rp)
                return
            want = np.ascontiguousarray(vals[pr0:pr0 + cn_r, pc0:pc0 + cn_c])
            gotv = np.ascontiguousarray(c.data)
        else:
            want = np.array([vals[got_cells[ab]] for ab in probe], dtype=vals.dtype)
            gotv = np.array([c.data[ab] for ab in probe], dtype=c.data.dtype)
        # "holds exactly the parent's values": bits when the type is kept, exact numeric comparison otherwise
        if gotv.dtype == want.dtype:
            neq = (gotv.view(f"u{dt.itemsize}") != want.view(f"u{dt.itemsize}")).ravel()
        else:
            neq = np.array([not (wv == gv or (wv != wv and gv != gv))
                            for wv, gv in zip(want.ravel().tolist(), gotv.ravel().tolist())], dtype=bool)
        if neq.any():
            k_ = int(np.flatnonzero(neq)[0])
            a_, b_ = divmod(k_, cn_c) if same_lattice else probe[k_]
            pr, pc = (pr0 + a_, pc0 + b_) if same_lattice else got_cells[(a_, b_)]
            fail(i, "C13/clip/values",
                 f"Grid.clip: {int(neq.sum())} of {neq.size} clip cells do not hold the parent's value at the same "
                 f"centre, e.g. clip cell ({a_},{b_}), centre {parent_of(a_, b_)[3]} = centre of parent cell "
                 f"({pr},{pc}): clip {gotv.ravel()[k_]!r}, parent {want.ravel()[k_]!r} [clip corner "
                 f"({float(c.xllcorner)!r}, {float(c.yllcorner)!r}), shape {(cn_r, cn_c)}] ({desc})", rp)
            return
        if same_lattice:
            bot, top = nrows - 1 - (pr0 + cn_r - 1), nrows - 1 - pr0
            if pc0 not in colsL or pc0 + cn_c - 1 not in colsR or bot not in rowsB or top not in rowsT:
                fail(i, "C13/clip/shape",
                     f"clip covers parent columns {pc0}..{pc0 + cn_c - 1} and rows {pr0}..{pr0 + cn_r - 1}; the box "
                     f"corners lie in column {sorted(colsL)} / row {sorted(nrows - 1 - v for v in rowsB)} (lower left) and "
                     f"column {sorted(colsR)} / row {sorted(nrows - 1 - v for v in rowsT)} (upper right) ({desc})", rp)

    def case_clip(g, vals, box, tag, model=True, spec=None):
        """model=False: implementation-level oracle only (grids too big for a case term); spec = replay
        description of the grid when it is not grid_spec(g, vals)"""
        bx0, by0, bx1, by1 = box
        nrows, ncols = int(g.nrows), int(g.ncols)
        xll, yll, csz = float(g.xllcorner), float(g.yllcorner), float(g.cellsize)
        dt = np.dtype(g.dtype)
        m = Meta.of(g)
        base = dict(spec if spec is not None else grid_spec(g, vals), kind="clip", call="Grid.clip",
                    box=[bx0, by0, bx1, by1], how=tag)
        cm.mark(base)
        if not model:
            # the corners as a caller may hold them: Python floats, numpy scalars, whole numbers as int
            how_num = rng.choice(["float", "float", "numpy", "int"])
            args = [np.float64(v) if how_num == "numpy" else int(v) if how_num == "int" and v == int(v) else v
                    for v in box]
            base["box_types"] = [type(v).__name__ for v in args]
            try:
                with np.errstate(all="ignore"):
                    c, exc = g.clip(*args), None
            except Exception as e:
                c, exc = None, e
            ctx.count(("clip-oracle-only", dt.name, c is None, min(nrows, 50) // 10, min(ncols, 50) // 10))
            judge_clip(None, dict(base, clip=None if c is None else Meta.of(c).js()), g, vals, box, c, exc)
            return c
        exc = None
        try:
            with np.errstate(all="ignore"):
                c = g.clip(bx0, by0, bx1, by1)
            mc = Meta.of(c)
            exp = f"(Some ({mc.term()}, {cm.coq_zlist(patterns(c.data))}))"
        except Exception as e:
            c, exp, exc = None, "None", e

        def cellof(x, y):
            qx, qy = (Fr(x) - Fr(xll)) / Fr(csz), (Fr(y) - Fr(yll)) / Fr(csz)
            fx, fy = math.floor(qx), math.floor(qy)
            margin = min(qx - fx, fx + 1 - qx, qy - fy, fy + 1 - qy)
            return nrows - 1 - fy, fx, margin
        r0e, c0e, m0 = cellof(bx0, by0)
        r1e, c1e, m1 = cellof(bx1, by1)
        i = add(f"IOClip {m.term()} {cm.coq_zlist(patterns(vals))} {cm.coq_float(bx0)} {cm.coq_float(by0)} "
                f"{cm.coq_float(bx1)} {cm.coq_float(by1)} {prt_term([bx0, by0, bx1, by1])} {exp}",
                dict(base, clip=None if c is None else Meta.of(c).js()),
                ("clip", dt.name, min(nrows, 3), min(ncols, 3), c is None, r0e - r1e, c1e - c0e))
        # general oracle (any corner position)
        judge_clip(i, replays[i], g, vals, box, c, exc)
        # exact oracle: the cells holding the two corners (rationals), when both are >= 1e-9 cell from an edge
        scale = max(abs(xll), abs(yll), abs(bx1), abs(by1)) / csz
        safe = min(m0, m1) > 1e-9 + 4e-16 * scale and 0 <= c0e <= c1e < ncols and 0 <= r1e <= r0e < nrows
        def safe_oracle():
            if c is None:
                fail(i, "C13/clip/raises", f"clip to a box inside the extent raised ({nrows}x{ncols} {dt.name})")
                return
            if (int(c.nrows), int(c.ncols)) != (r0e - r1e + 1, c1e - c0e + 1) or c.data.shape != (c.nrows, c.ncols):
                fail(i, "C13/clip/shape", f"clip has shape {(c.nrows, c.ncols)}, the box covers rows {r1e}..{r0e}, "
                                          f"columns {c0e}..{c1e}")
                return
            # "holds exactly the parent's values": bit comparison when the type is kept, exact numeric
            # comparison (Python int/float semantics, NaN = NaN) otherwise - the statement fixes no type here
            want = np.ascontiguousarray(vals[r1e:r0e + 1, c0e:c1e + 1])
            if c.data.dtype == want.dtype:
                vfails = compare_values(want, c, "Grid.clip")
            else:
                vfails = []
                for wv, gv in zip(want.ravel().tolist(), np.asarray(c.data).ravel().tolist()):
                    if not (wv == gv or (wv != wv and gv != gv)):
                        vfails = [("values", f"Grid.clip: parent value {wv!r} became {gv!r}")]
                        break
            for mode, what in vfails:
                fail(i, f"C13/clip/{mode}", what + f" (parent {nrows}x{ncols}, rows {r1e}..{r0e}, columns {c0e}..{c1e})")
            # coinciding centres: clip cell (a, b) has the centre of parent cell (r1e+a, c0e+b)
            cc = c.cell2coord(np.arange(c.nrows * c.ncols))
            tol = 1e-9 * csz + 4e-16 * (abs(xll) + abs(yll) + csz * (nrows + ncols))
            def some(n_):       # every index of a small axis, a stride (with both ends) of a long one
                return sorted(set(range(0, n_, max(1, n_ // 12))) | {n_ - 1})
            for a_ in some(int(c.nrows)):
                for b_ in some(int(c.ncols)):
                    ex = Fr(xll) + Fr(csz) * (c0e + b_ + Fr(1, 2))
                    ey = Fr(yll) + Fr(csz) * (nrows - 1 - (r1e + a_) + Fr(1, 2))
                    x, y = cc[a_ * int(c.ncols) + b_]
                    if abs(Fr(float(x)) - ex) > tol or abs(Fr(float(y)) - ey) > tol:
                        fail(i, "C13/clip/centres", f"clip cell ({a_},{b_}) has centre {(float(x), float(y))}, parent cell "
                                                    f"({r1e + a_},{c0e + b_}) has {(float(ex), float(ey))}")
                        return
        if safe:
            safe_oracle()
        return c

    for k in range(ctx.scale(90, 1200)):
        dt = np.dtype(DTYPES[k % len(DTYPES)])
        nrows, ncols = rng.choice([1, 2, 3, rng.randint(1, 7)]), rng.choice([1, 2, 3, rng.randint(1, 7)])
        csz = rng.choice([1.0, 0.5, 2.0, 0.05, 0.0025, 10 ** rng.uniform(-3, 3), 1000.0])
        off = rng.choice([0, 1, 10, 100, 1e4])
        xll = rng.choice([0.0, rng.uniform(-1, 1) * off * csz, float(round(rng.uniform(-1, 1) * off)) * csz])
        yll = rng.choice([0.0, rng.uniform(-1, 1) * off * csz, -off * csz])
        g = hygrid.Grid(rand_name(rng), ncols, nrows, cellsize=csz, xllcorner=xll, yllcorner=yll, dtype=dt.type,
                        nodata=rand_nodata(rng, dt), comment=rand_comment(rng))
        vals = rand_values(rng, dt, nrows * ncols)
        g[np.arange(nrows * ncols)] = vals
        vals = vals.reshape(nrows, ncols)
        # corners inside the extent: cells (rb, c0) lower-left and (rt, c1) upper-right
        c0 = rng.randrange(ncols)
        c1 = rng.randrange(c0, ncols)
        rt = rng.randrange(nrows)
        rb = rng.randrange(rt, nrows)

        def inside():
            return rng.choice([1e-9, 1e-6, 0.5, rng.random(), 1 - 1e-9, 1 - 1e-6, 0.25])
        bx0 = xll + csz * (c0 + inside())
        bx1 = xll + csz * (c1 + inside())
        by0 = yll + csz * (nrows - 1 - rb + inside())
        by1 = yll + csz * (nrows - 1 - rt + inside())
        if bx1 < bx0:
            bx0, bx1 = bx1, bx0
        if by1 < by0:
            by0, by1 = by1, by0
        case_clip(g, vals, (bx0, by0, bx1, by1), "random clip")

    lap("clip random")
    # E2. clip boxes whose corners sit ON the lattice of the parent (cell edges, the extent's own corner, cell
    # centres, one binary64 step either side of them) or on round decimal coordinates, for the cell sizes and
    # origins rasters really have (decimal degrees 0.05 / 0.0025 / 1/3600..., metres 25.4 / 30 / 250, thirds,
    # dyadic ones, any) - the region where floor((x - xll) / cellsize), x // cellsize, fmod, round and
    # truncation part company - on grids from 1x1 to several hundred cells a side (a quotient has to be large
    # enough for its rounding to reach a whole number), on grids whose georeferencing was assigned after
    # construction, and on clips of clips.
    DEC_CSZ = [0.05, 0.1, 0.025, 0.0025, 0.01, 0.2, 0.3, 0.7, 0.001, 0.15, 1.1, 25.4, 1.0 / 3, 1.0 / 7, 2.0 / 3,
               1.0 / 3600, 3.0 / 3600, 9.0 / 3600, 0.008333333333333333, 0.000277777777777778, 30.0, 12.5, 90.0, 250.0]
    DYA_CSZ = [1.0, 0.5, 2.0, 0.25, 0.125, 1024.0, 0.0009765625]
    ROUND_ORG = [0.0, 112.0, -44.0, 140.0, -38.0, 2.0, 5.0, -180.0, 90.0, -10.25, 3.75, 300000.0, 6100000.0,
                 -2951000.0, 145.44625, -18.29125]

    def lattice_csz():
        r = rng.random()
        if r < 0.6:
            return rng.choice(DEC_CSZ)
        if r < 0.72:
            return rng.choice(DYA_CSZ)
        if r < 0.9:         # one to three significant digits
            return float(f"{10 ** rng.uniform(-3, 3):.{rng.randint(0, 2)}e}")
        return 10 ** rng.uniform(-3, 3)

    def lattice_origin(csz):
        r = rng.random()
        if r < 0.35:
            return rng.choice(ROUND_ORG)
        if r < 0.6:         # a whole number of cells (or of half cells) from zero
            return float(Fr(csz) * rng.choice([rng.randint(-2000, 2000), rng.randint(-20, 20),
                                               Fr(rng.randint(-4000, 4000), 2)]))
        if r < 0.8:
            return round(rng.uniform(-180, 180) * rng.choice([1, 1, 1000]), rng.randint(0, 4))
        return rng.uniform(-1, 1) * rng.choice([1, 100, 1e4]) * csz

    POS_KINDS = ["edge", "edge", "edge", "edge-exact", "edge+", "edge-", "centre", "centre-lib", "round", "round",
                 "inside", "origin"]

    def lattice_pos(g, o, csz, n, k, kind, axis):
        """coordinate along one axis (origin o, n cells) related to cell k, of the given kind; falls back on
        the middle of the cell when the exact position is not inside the extent [o, o + n cells)"""
        if kind == "edge":                  # the edge as a user computes it
            x = o + k * csz
        elif kind == "edge-exact":          # the binary64 number nearest to the edge
            x = float(Fr(o) + k * Fr(csz))
        elif kind == "edge+":
            x = math.nextafter(o + k * csz, math.inf)
        elif kind == "edge-":               # the last number of the cell before (k = 0: top of the extent)
            x = math.nextafter(o + (k if k > 0 else n) * csz, -math.inf)
        elif kind == "centre":
            x = o + (k + 0.5) * csz
        elif kind == "centre-lib":          # what the library itself gives as the centre of the cell
            cell = (int(g.nrows) - 1) * int(g.ncols) + k if axis == 0 else (int(g.nrows) - 1 - k) * int(g.ncols)
            x = float(g.cell2coord(cell)[0, axis])
        elif kind == "round":               # a round decimal number in or next to the cell
            x = round(o + (k + rng.random()) * csz, rng.choice([0, 1, 1, 2, 2, 3, 4]))
        elif kind == "origin":
            x = o
        else:
            x = o + csz * (k + rng.choice([1e-9, 0.5, rng.random(), 1 - 1e-9, 0.25]))
        q = (Fr(x) - Fr(o)) / Fr(csz)
        if not (math.isfinite(x) and 0 <= q < n):
            x = float(Fr(o) + (k + Fr(1, 2)) * Fr(csz))
            q = (Fr(x) - Fr(o)) / Fr(csz)
            if not 0 <= q < n:
                return None
        return x

    def lattice_box(g, kinds=None):
        nrows, ncols = int(g.nrows), int(g.ncols)
        xll, yll, csz = float(g.xllcorner), float(g.yllcorner), float(g.cellsize)
        c0 = rng.randrange(ncols)
        c1 = rng.randrange(c0, ncols)
        b0 = rng.randrange(nrows)           # rows counted from the bottom
        b1 = rng.randrange(b0, nrows)
        if rng.random() < 0.06:             # the whole extent
            c0, c1, b0, b1 = 0, ncols - 1, 0, nrows - 1
        kinds = kinds or [rng.choice(POS_KINDS) for _ in range(4)]
        if rng.random() < 0.3:              # both lower-left coordinates of the same kind
            kinds[1] = kinds[0]
        box = [lattice_pos(g, xll, csz, ncols, c0, kinds[0], 0), lattice_pos(g, yll, csz, nrows, b0, kinds[1], 1),
               lattice_pos(g, xll, csz, ncols, c1, kinds[2], 0), lattice_pos(g, yll, csz, nrows, b1, kinds[3], 1)]
        if any(v is None for v in box):
            return None, kinds
        if box[2] < box[0]:
            box[0], box[2] = box[2], box[0]
        if box[3] < box[1]:
            box[1], box[3] = box[3], box[1]
        return tuple(box), kinds

    def index_values(dt, nrows, ncols):
        """every cell holds its own number (distinct values: any shift of the window shows)"""
        return np.arange(nrows * ncols).reshape(nrows, ncols).astype(dt)

    BIG_DT = ["int32", "int64", "uint32", "uint64", "float64", "float32"]

    def lattice_grid(nrows, ncols, small):
        csz = lattice_csz()
        xll, yll = lattice_origin(csz), lattice_origin(csz)
        dt = np.dtype(rng.choice(DTYPES) if small else rng.choice(BIG_DT))
        late = rng.random() < 0.25          # georeferencing assigned after construction, as Python floats
        g = hygrid.Grid(rand_name(rng), ncols, nrows, cellsize=1.0 if late else csz, xllcorner=0.0 if late else xll,
                        yllcorner=0.0 if late else yll, dtype=dt.type, nodata=rand_nodata(rng, dt),
                        comment=rand_comment(rng))
        if late:
            g.cellsize, g.xllcorner, g.yllcorner = csz, xll, yll
        if small:
            vals = rand_values(rng, dt, nrows * ncols)
            g[np.arange(nrows * ncols)] = vals
            vals = vals.reshape(nrows, ncols)
            spec = None
        else:
            vals = index_values(dt, nrows, ncols)
            g.data = vals
            spec = {"grid": Meta.of(g).js(), "values": "cell-index"}
        ctx.count(("lattice grid", late, small, csz in DEC_CSZ, csz in DYA_CSZ))
        return g, vals, spec

    model_budget = [ctx.scale(110, 1500)]       # case terms (the other cases: implementation-level oracle only)

    def lattice_case(nrows, ncols, tag):
        small = nrows * ncols <= 240 and model_budget[0] > 0
        model_budget[0] -= small
        g, vals, spec = lattice_grid(nrows, ncols, small)
        box, kinds = lattice_box(g)
        if box is None:
            return
        ctx.count(("lattice box",) + tuple(kinds[:2]))
        c = case_clip(g, vals, box, f"{tag}; corner kinds {kinds}", model=small, spec=spec)
        # a clip of the clip: the clip is a grid like any other (its corner was computed, not typed)
        if c is not None and rng.random() < 0.35:
            cvals = np.ascontiguousarray(c.data).copy()
            if cvals.dtype != vals.dtype:
                return
            box2, kinds2 = lattice_box(c)
            if box2 is not None:
                small2 = cvals.size <= 240 and model_budget[0] > 0
                model_budget[0] -= small2
                case_clip(c, cvals, box2, f"{tag}; clip of a clip, corner kinds {kinds2}", model=small2,
                          spec=None if cvals.size <= 2000 else
                          {"grid": Meta.of(c).js(), "values": "clip of parent_grid to parent_box",
                           "parent_grid": spec if spec is not None else grid_spec(g, vals), "parent_box": list(box)})

    def lattice_side(cls):
        return {0: rng.randint(1, 7), 1: rng.randint(8, 30), 2: rng.randint(31, 160), 3: rng.randint(161, 850)}[cls]

    for k in range(ctx.scale(700, 9000)):
        cls = rng.choice([0, 1, 1, 1, 1, 2, 2]) if k % 17 else 3
        other = cls if rng.random() < 0.7 else rng.choice([0, 1, 2])
        sides = [lattice_side(cls), lattice_side(other)]
        rng.shuffle(sides)
        lattice_case(sides[0], sides[1], "lattice clip")

    lap("clip lattice")
    # ------------------------------------------------------------------
    # F. catchments
    def rand_flow(nrows, ncols):
        n = nrows * ncols
        h = [rng.random() for _ in range(n)]
        fd = []
        for cidx in range(n):
            r, kk = divmod(cidx, ncols)
            opts = []
            for code, (dr, dc) in ESRI.items():
                rr, cc_ = r + dr, kk + dc
                if 0 <= rr < nrows and 0 <= cc_ < ncols and h[rr * ncols + cc_] < h[cidx]:
                    opts.append(code)
            fd.append(rng.choice(opts) if opts and rng.random() > 0.05 else 0)
        return fd, h

    def case_catchment(nrows, ncols, fdv, outlet, inl, delineate, geo, tag):
        n = nrows * ncols
        csz, xll, yll, nd, comment = geo
        fdg = hygrid.Grid("flow", ncols, nrows, cellsize=csz, xllcorner=xll, yllcorner=yll, dtype=np.int64,
                          nodata=nd, comment=comment)
        fdg.data = np.array(fdv, dtype=np.int64).reshape(nrows, ncols)
        cat = hygrid.Catchment("Catch 1", fdg)
        base = {"kind": "catchment", "call": "Catchment.to_dict/from_dict", "nrows": nrows, "ncols": ncols,
                "flowdir": fdv, "outlet": outlet, "inlets": inl, "delineate": delineate,
                "geo": [csz, xll, yll, nd, comment], "how": tag}
        cm.mark(base)
        if delineate:
            cat.delineate_area(outlet, inl)

        def cat_term(cobj):
            flow = Meta.of(cobj.flowdir)

            def olist(v):
                return "None" if v is None else f"(Some {cm.coq_zlist([int(x) for x in v])})"
            out = "None" if cobj._idxcell_outlet is None else f"(Some {cm.coq_z(int(cobj._idxcell_outlet))})"
            return (f"(mkC {cs(cobj.name)} {out} {olist(cobj._idxinlets)} {olist(cobj._idxcells_area)} "
                    f"{olist(cobj._idxcells_area_filled)} {flow.term()})")
        try:
            d = cat.to_dict()
        except ValueError:
            d = None
        i = add(f"IOCatTo {cat_term(cat)} [] {cm.coq_option(d, cdict)}", dict(base, dict=repr(d)),
                ("cat_to_dict", d is None, inl is not None))
        if d is None:
            if delineate:
                fail(i, "C13/catchment-dict/raises", "to_dict raised on a delineated catchment")
            return
        try:
            cat2 = hygrid.Catchment.from_dict(d)
        except Exception as e:
            fail(i, "C13/catchment-dict/raises", f"Catchment.from_dict(to_dict()) raises {e!r}")
            return
        j = add(f"IOCatFrom {cdict(d)} {rdt_term([d['flowdir']['nodata']])} (Some {cat_term(cat2)})",
                dict(base, dict=repr(d)), ("cat_from_dict", inl is not None, min(len(cat.idxcells_area), 3)))

        def as_list(v):
            return None if v is None else [int(x) for x in np.atleast_1d(v)]
        try:
            out2 = int(cat2.idxcell_outlet)
        except Exception as e:      # the property getter raises when the outlet is undefined
            out2 = f"undefined ({type(e).__name__})"
        if out2 != outlet:
            fail(j, "C13/catchment-dict/outlet", f"outlet {outlet} became {out2} after from_dict(to_dict())")
        if as_list(cat2.idxinlets) != as_list(cat.idxinlets):
            fail(j, "C13/catchment-dict/inlets-lost",
                 f"inlets {as_list(cat.idxinlets)} became {as_list(cat2.idxinlets)} after from_dict(to_dict())")
        if as_list(cat2.idxcells_area) != as_list(cat.idxcells_area):
            fail(j, "C13/catchment-dict/area", "area cells differ after from_dict(to_dict())")
        if as_list(cat2.idxcells_area_filled) != as_list(cat.idxcells_area_filled):
            fail(j, "C13/catchment-dict/area-filled", "filled area cells differ after from_dict(to_dict())")

    for k in range(ctx.scale(50, 600)):
        nrows, ncols = rng.randint(1, 6), rng.randint(1, 6)
        n = nrows * ncols
        fdv, h = rand_flow(nrows, ncols)
        outlet = min(range(n), key=lambda cidx: h[cidx])
        mode = rng.random()
        inl = rng.sample(range(n), min(n, rng.randint(1, 3))) if mode > 0.5 else None
        geo = (rng.choice([1.0, 0.0025, 250.0]), rand_double(rng), rand_double(rng), rng.choice([0, -1, 255]),
               rand_comment(rng))
        case_catchment(nrows, ncols, fdv, outlet, inl, mode >= 0.12, geo, "random catchment")

    # ------------------------------------------------------------------
    # R. recorded findings (known_findings.d/C13.json) and --replay files are replayed on every run
    def replay_case(spec, tag):
        kind = spec.get("kind")
        if kind == "save-load":
            g, vals = build_grid(spec)
            case_save(g, vals, tag)
        elif kind == "raster":
            case_raster(spec["dtype"], spec["byteorder"], spec["nrows"], spec["ncols"], spec["patterns"],
                        spec["nodata"], tag, tuple(spec.get("geo", (0.25, 1.5, -2.0))),
                        tuple(spec.get("style", PLAIN)))
        elif kind == "save-load-big":
            dtb = np.dtype(spec["dtype"])
            case_save_big(dtb, spec["nrows"], spec["ncols"], tuple(spec["geo"]),
                          float(spec["nodata"]) if dtb.kind == "f" else int(spec["nodata"]), spec["value_seed"], tag)
        elif kind == "clip":
            def clip_parent(sp):
                if sp.get("values") == "cell-index":
                    js = sp["grid"]
                    g_, _ = build_grid({"grid": js, "patterns": [0] * (js["nrows"] * js["ncols"])})
                    v_ = np.arange(js["nrows"] * js["ncols"]).reshape(js["nrows"], js["ncols"]).astype(js["dtype"])
                    g_.data = v_
                    return g_, v_, {"grid": js, "values": "cell-index"}
                g_, v_ = build_grid(sp)
                return g_, v_, None
            if "parent_box" in spec:        # a clip of a clip
                g0, _, _ = clip_parent(spec["parent_grid"])
                g = g0.clip(*spec["parent_box"])
                vals = np.ascontiguousarray(g.data).copy()
                case_clip(g, vals, tuple(spec["box"]), tag, model=False,
                          spec={k_: spec[k_] for k_ in ("grid", "values", "parent_grid", "parent_box")})
            else:
                g, vals, sp = clip_parent(spec)
                case_clip(g, vals, tuple(spec["box"]), tag, model=sp is None, spec=sp)
        elif kind == "catchment":
            case_catchment(spec["nrows"], spec["ncols"], spec["flowdir"], spec["outlet"], spec["inlets"],
                           spec.get("delineate", True), tuple(spec.get("geo", [1.0, 0.0, 0.0, 0, ""])), tag)
        else:
            return False
        return True

    nrep, seen_rep = 0, set()
    for f in cm.load_known():
        if f.get("property") == PID and isinstance(f.get("replay"), dict):
            sig = json.dumps(f["replay"], sort_keys=True)
            if sig not in seen_rep:
                seen_rep.add(sig)
                nrep += bool(replay_case(f["replay"], "recorded finding " + f.get("key", "")))
    rp = getattr(ctx, "replay", None)
    if isinstance(rp, dict) and isinstance(rp.get("replay"), dict):
        nrep += bool(replay_case(rp["replay"], "--replay file"))
    ctx.notes["recorded_replays_run"] = nrep

    # ------------------------------------------------------------------
    lap("catchments+replays")
    bad, nshards, failed = cm.run_case_files(PID, HEADER, "iocase", "io_ok", terms, shard=120, max_bytes=250000)
    lap("coq case files")
    ctx.notes["correspondence_cases"] = len(terms)
    ctx.notes["correspondence_mismatches"] = len(bad)
    for k in range(nshards):
        ctx.obligation(f"Cases_{PID}_{k}.agree (model = implementation on the shard)", True)
    cm.settle(ctx, proved, bad, failed, orc_fail, lambda i: replays[i],
              "Model/GridIO.v vs gis/grid.py (save, from_stream, load, to_dict, from_dict, clip, Catchment dictionaries)")
    return ctx.finish()
