"""C02 - the transform Jacobian is the derivative of forward, positive on the
domain; forward is strictly increasing.

proof      : coq/Props/C02.v (is_derive / positivity / monotonicity theorems over R)
tie        : harness/extractors/c01.py -> coq/Gen/ConstsC01.v (bounds used by the
             positivity proofs); engine E3 on `jacobian` (shared with C01:
             harness/props/transform_common.py)
oracle     : 5-point central differences of `forward` with power-of-two steps
             against `jacobian` (relative 1e-4, stencil inside one smooth branch),
             positivity of `jacobian`, monotonicity of `forward` on sorted points
"""
import math
import os

import numpy as np

from harness import common as cm
from harness.props import transform_common as tc
from harness.props.c01 import vec_k, branch_sig, NVEC_QUICK

PID = "C02"


def local_scale(name, opts, vals, x):
    """length (in x) over which forward varies smoothly around x and stays in
    one branch / inside the domain; the stencil uses h = 2^k <= scale/256"""
    e = tc.eps()
    if name == "Identity":
        return max(abs(x), 1.0)
    if name == "Logit":
        d = math.exp(vals["logdelta"])
        return min(x - vals["lower"] - e, vals["lower"] + d - e - x)
    if name in ("Log", "BoxCox2", "BoxCox1lam", "BoxCox1nu", "Reciprocal"):
        o = tc.full_opts(name, opts)
        z = x + vals["nu"]
        return z - o.get("mininu", 0.0) if name != "Reciprocal" else z
    if name == "BoxCox2sym":
        return min(abs(x), abs(x) + vals["nu"])        # not straddling 0
    if name == "YeoJohnson":
        w = vals["nu"] + x * vals["scale"]
        return min(1 + abs(w), abs(w - e)) / vals["scale"]     # not straddling w = EPS
    if name == "LogSinh":
        a, b = math.exp(vals["loga"]), math.exp(vals["logb"])
        w = a + b * (x / vals["xmax"])
        return min(w - b * e, 1.0) * vals["xmax"] / b
    if name == "Sinh":
        u = (x - vals["nu"]) * vals["scale"]
        return math.sqrt(1 + u * u) / vals["scale"]
    if name == "Manly":
        lam = vals["lam"]
        u = x / vals["xmax"]
        lu = max(abs(u), 1.0)
        if lam != 0:
            lu = min(lu, 1 / abs(lam))
        return lu * vals["xmax"]
    raise KeyError(name)


def noisy_params(name, vals):
    """parameters for which forward itself is numerically noisy (the closed form
    cancels: EPS < |exponent| < 1e-7) - excluded from the stencil test,
    covered by the theorems and by E3 on jacobian (DESIGN 5/C02 S)"""
    if "lam" not in vals:
        return False
    lams = [vals["lam"]] + ([2 - vals["lam"]] if name == "YeoJohnson" else [])
    return any(0 < abs(l) < 1e-7 for l in lams)


def stencil(t, x, h):
    pts = [x - 2 * h, x - h, x + h, x + 2 * h]
    # exactly representable steps
    if not ((pts[2] - x) == h and (x - pts[1]) == h and (pts[3] - x) == 2 * h and (x - pts[0]) == 2 * h):
        return None
    f, err = tc.call(t, "fwd", pts)
    if f is None or not all(math.isfinite(v) for v in f):
        return None
    return (f[0] - 8 * f[1] + 8 * f[2] - f[3]) / (12 * h), f


def run(ctx):
    ctx.rule = ("12 scalar classes x constructor-option variants (log base > 1) x parameter vectors as in "
                "C01 x interior domain points; jacobian through the public API; Softmax: 2-D rows; "
                "non-trivial = distinct (class, parameter branch, sign of x, NaN expected) signature")
    ctx.trusted = cm.STD_TRUST + [
        "engine E3: the real-number model evaluated by `interval` inside Coq at the implementation's "
        "inputs, compared with the implementation's jacobian under an a priori forward-error bound",
        "Coquelicot (is_derive, auto_derive) for the derivative theorems",
    ]
    ctx.tested_not_proved = [
        "numerical agreement of jacobian with finite differences of forward (1e-4) - tested",
        "Softmax: jacobian = determinant of the partial derivatives for dimension >= 4 "
        "(proved for dimensions 1, 2 and 3; tested numerically for n <= 5)",
        "monotonicity of Yeo-Johnson across the sliver 0 < w < EPS (not claimed; DESIGN 5/C02 G)",
        "Log with a base < 1 is decreasing: outside the positivity clause (generators use base > 1)",
    ]
    ctx.checker_cmd = (f"cd /verif && ./check {PID} --tier {ctx.tier}  (make -C coq Props/{PID}.vo "
                       f"Proofs/TransformTac.vo; coqc on the generated E3_{PID}_*.v: one "
                       "`Goal close_R (model args x) y_impl tol. Proof. tr_solve. Qed.` per evaluation)")
    import time
    t0 = time.time()
    proved = cm.prove(ctx, extractors=["c01", "pygen"], extra_targets=["Proofs/TransformTac.vo", "Props/PyTie.vo"])
    t_prove = time.time() - t0
    cm.use_impl()
    rng = ctx.rng
    goals, meta = [], []
    orc_fail = set()

    def add_goal(g, m):
        goals.append(g)
        meta.append(m)
        return len(goals) - 1

    npts = ctx.scale(5, 7)
    for name in tc.CLASSES:
        if name == "Softmax":
            continue
        variants = tc.ctor_variants(name, rng, c02=True)
        nvec = ctx.scale(NVEC_QUICK[name], 5 * NVEC_QUICK[name] + 10)
        for k in range(nvec):
            opts = variants[k % len(variants)]
            vals = vec_k(name, opts, rng, k)
            via_get = (k % 2 == 0)
            cm.mark({"call": "transform.jacobian", "class": name, "opts": opts, "vals": vals})
            t, eff = tc.make(name, opts, vals, via_get)
            xs = tc.points(name, opts, eff, rng, npts)
            if not xs:
                continue
            base = {"class": name, "opts": opts, "values": eff, "via_get_transform": via_get}
            js, err = tc.call(t, "jac", xs)
            fs, ferr = tc.call(t, "fwd", xs)
            noisy = noisy_params(name, eff)
            for i, x in enumerate(xs):
                j = None if js is None else js[i]
                sig = branch_sig(name, eff, x)
                rep = dict(base, method="jacobian", x=x, output=j, exception=err)
                L = local_scale(name, opts, eff, x)
                interior = L > 0
                if j is None or math.isnan(j):
                    gi = add_goal(tc.goal_scalar(name, "jac", opts, eff, x, None, 0.0), rep)
                    ctx.count((name, "jac", sig, "nan"))
                    if interior:
                        orc_fail.add(gi)
                        mode = "jacobian-raises" if j is None else "jacobian-nan-in-domain"
                        ctx.failure(f"C02/{name}/{mode}", rep,
                                    f"{name}{opts} {eff}: jacobian({x!r}) "
                                    f"{'raised ' + str(err) if j is None else 'is NaN'} at an interior point")
                    continue
                tol = tc.tolerance(name, "jac", opts, eff, x, j)
                gi = None
                if tol is not None and math.isfinite(j):
                    gi = add_goal(tc.goal_scalar(name, "jac", opts, eff, x, j, tol), rep)
                    ctx.count((name, "jac", sig))
                if not interior:
                    continue
                # oracle 1: strictly positive
                if not j > 0:
                    if gi is not None:
                        orc_fail.add(gi)
                    ctx.failure(f"C02/{name}/jacobian-not-positive", rep,
                                f"{name}{opts} {eff}: jacobian({x!r}) = {j!r} is not positive")
                # oracle 2: 5-point central difference of forward
                if noisy or not math.isfinite(L):
                    continue
                h = 2.0 ** math.floor(math.log2(L / 256))
                st = stencil(t, x, h)
                if st is None:
                    continue
                fd, fvals = st
                # rounding of the stencil itself: 2^-53 * amplification of forward / h
                af = max(tc.amp(name, "fwd", opts, eff, xx, fv) for xx, fv in
                         zip([x - 2 * h, x - h, x + h, x + 2 * h], fvals))
                noise = 32 * tc.U * af / h if math.isfinite(af) else math.inf
                if not noise <= 2e-5 * abs(j):
                    continue            # the difference quotient is not accurate enough here
                ctx.count((name, "stencil", sig))
                if not abs(fd - j) <= 1e-4 * abs(j) + noise:
                    if gi is not None:
                        orc_fail.add(gi)
                    ctx.failure(f"C02/{name}/jacobian-differs-from-finite-difference",
                                dict(rep, h=h, finite_difference=fd, forward_at_stencil=fvals),
                                f"{name}{opts} {eff}: jacobian({x!r}) = {j!r}, 5-point central "
                                f"difference of forward (h={h!r}) = {fd!r}")
            # NaN guards of jacobian outside its domain
            for method, xg in tc.guard_points(name, opts, eff, rng):
                if method != "jac" or not math.isfinite(xg):
                    continue
                out, gerr = tc.call(t, "jac", [xg])
                o = None if out is None or math.isnan(out[0]) else out[0]
                tol = 0.0 if o is None else (tc.tolerance(name, "jac", opts, eff, xg, o) or 0.0)
                add_goal(tc.goal_scalar(name, "jac", opts, eff, xg, o, tol),
                         dict(base, method="jacobian (outside its domain)", x=xg, output=o, exception=gerr))
                ctx.count((name, "jac", "guard"))
            # oracle 3: forward increasing on sorted domain points
            if fs is not None:
                pairs = sorted((x, f) for x, f in zip(xs, fs) if math.isfinite(f))
                for (x1, f1), (x2, f2) in zip(pairs, pairs[1:]):
                    if x1 == x2:
                        continue
                    if name == "YeoJohnson":
                        w1 = eff["nu"] + x1 * eff["scale"]
                        w2 = eff["nu"] + x2 * eff["scale"]
                        if 0 < w1 < tc.eps() or 0 < w2 < tc.eps():
                            continue
                    a1 = tc.amp(name, "fwd", opts, eff, x1, f1)
                    a2 = tc.amp(name, "fwd", opts, eff, x2, f2)
                    slack = 16 * tc.U * (a1 + a2) if math.isfinite(a1 + a2) else math.inf
                    ctx.count((name, "monotone"))
                    if not f1 <= f2 + slack:
                        ctx.failure(f"C02/{name}/forward-not-increasing",
                                    dict(base, method="forward", x1=x1, x2=x2, f1=f1, f2=f2),
                                    f"{name}{opts} {eff}: forward({x1!r}) = {f1!r} > forward({x2!r}) = {f2!r}")
            if k % 5 == 0:
                ctx.sample({"class": name, "opts": opts, "values": eff, "x": xs[:3],
                            "jacobian": None if js is None else js[:3]})

    # ---- Softmax: jacobian = determinant of the matrix of partial derivatives
    from hydrodiy.stat import transform as T
    sm = T.Softmax()
    nmat = ctx.scale(10, 60)
    for k in range(nmat):
        nrows = [1, 2, 3][k % 3]
        ncols = [1, 2, 3, 5][k % 4]
        rows = tc.softmax_rows(rng, nrows, ncols, smax=0.99)
        if k % 5 == 4:
            rows[0][0] = -1e-3
        cm.mark({"call": "Softmax.jacobian", "rows": rows})
        js, err = tc.call(sm, "jac", rows)
        rep = {"class": "Softmax", "method": "jacobian", "rows": rows, "output": js, "exception": err}
        ctx.count(("Softmax", "jac", nrows, ncols, js is None))
        if js is None:
            add_goal(f"close_optlist (softmax_jac {tc.hxll(rows)}) None []", rep)
            if k % 5 != 4:
                ctx.failure("C02/Softmax/jacobian-raises", rep, f"Softmax.jacobian raised {err} in the domain")
            continue
        if k % 5 == 4:
            add_goal(f"close_optlist (softmax_jac {tc.hxll(rows)}) (Some {tc.hxl(js)}) "
                     f"{tc.hxl([0.0] * len(js))}", rep)
            ctx.failure("C02/Softmax/accepts-negative-entry", rep, "Softmax.jacobian accepted a negative entry")
            continue
        tols = [1e-10 * abs(j) + 16 * tc.U * abs(j) * (ncols + 2 + ncols / (1 - sum(r)))
                for j, r in zip(js, rows)]
        add_goal(f"close_optlist (softmax_jac {tc.hxll(rows)}) (Some {tc.hxl(js)}) {tc.hxl(tols)}", rep)
        for r, j in zip(rows, js):
            if not j > 0:
                ctx.failure("C02/Softmax/jacobian-not-positive", rep, f"Softmax.jacobian = {j!r}")
            # determinant of the numerical partial derivatives (central differences)
            n = len(r)
            s = sum(r)
            scale_h = min(min(r), 1 - s)
            h = 2.0 ** math.floor(math.log2(scale_h / 256))
            M = np.zeros((n, n))
            okm = True
            for c in range(n):
                cols = []
                for d in (-2, -1, 1, 2):
                    rr = list(r)
                    rr[c] = r[c] + d * h
                    f, _ = tc.call(sm, "fwd", [rr])
                    if f is None:
                        okm = False
                        break
                    cols.append(f)
                if not okm:
                    break
                for i in range(n):
                    M[i, c] = (cols[0][i] - 8 * cols[1][i] + 8 * cols[2][i] - cols[3][i]) / (12 * h)
            if okm:
                det = float(np.linalg.det(M))
                ctx.count(("Softmax", "det", n))
                if not abs(det - j) <= 1e-4 * abs(j):
                    ctx.failure("C02/Softmax/jacobian-differs-from-determinant",
                                dict(rep, row=r, determinant=det, jacobian=j),
                                f"Softmax: jacobian {j!r} != determinant of the partial derivatives {det!r}")

    t1 = time.time()
    bad, nok, nshards, failed = tc.run_e3(PID, goals, shard=ctx.scale(40, 60))
    ctx.notes["timing_s"] = {"prove": round(t_prove, 1), "generate+oracle": round(t1 - t0 - t_prove, 1),
                             "e3": round(time.time() - t1, 1)}
    ctx.notes["correspondence_goals"] = len(goals)
    ctx.notes["correspondence_mismatches"] = len(bad)
    ctx.notes["e3_shards"] = nshards
    for kk in range(nok):
        ctx.obligation(f"E3 shard {kk}: every goal closed by interval + Qed", True)
    for kk in range(nshards - nok):
        ctx.obligation(f"E3 shard (failing) {kk}", False)
    if os.environ.get("HYVERIF_E3_DUMP"):
        import json
        with open(os.environ["HYVERIF_E3_DUMP"], "w") as fh:
            json.dump({"goals": goals, "meta": meta, "bad": bad, "failed": failed}, fh, indent=1,
                      default=str)
    cm.settle(ctx, proved, bad, failed, orc_fail,
              lambda i: {"case": meta[i], "goal": goals[i], "model": "Hy.Model.Transform (tr_solve)"},
              "Model/Transform.v vs stat/transform.py (E3: jacobian)")
    return ctx.finish()
