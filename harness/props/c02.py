"""C02 - the transform Jacobian is the derivative of forward, positive on the
domain; forward is strictly increasing.

proof      : coq/Props/C02.v (is_derive / positivity / monotonicity theorems over R)
tie        : harness/extractors/c01.py -> coq/Gen/ConstsC01.v (bounds used by the
             positivity proofs); engine E3 on `jacobian` (shared with C01:
             harness/props/transform_common.py)
oracle     : 5-point central differences of `forward` with power-of-two steps
             against `jacobian` (relative 1e-4, stencil inside one smooth branch),
             positivity of `jacobian`, monotonicity of `forward` on sorted points;
             the same clauses element-wise on input class R (every representation of
             a float64 input: scalars, 1-/2-/3-d, C/Fortran order, transposed /
             strided / reversed / block views, read-only, byte-swapped,
             DataFrame.to_numpy()) and input class S (one object and one work buffer
             through sequences of parameter changes, in-place refills and calls),
             input class W (used objects walked down / up / across ladders of values with
             each way of setting, a sibling object used in between; forward judged on ALL
             ordered pairs of points lying on both sides of every seam of forward), input
             class X (exponents around every branch threshold x points with extreme
             logarithms), input class L (large arrays with ties) and input class F (the far ends
             of the domain: internal arguments and parameters from 1e-300 to 1e300 around every
             overflow / underflow threshold, wherever the exact forward value and the exact
             derivative are normal numbers; forward finite there, jacobian finite) and input class B
             (values REQUESTED beyond their bounds - one ulp outside, zero, the opposite sign, far outside,
             +-inf, NaN - through every route of setting; the clauses judged on the object as it is after
             the request, whether the library clipped, rejected or stored it) - oracle only
"""
import math
import os

import numpy as np

from harness import common as cm
from harness.props import transform_common as tc
from harness.props.c01 import vec_k, branch_sig, NVEC_QUICK

PID = "C02"


def local_scale(name, opts, vals, x):
    """length (in x) over which forward varies smoothly around x and stays in
    one branch / inside the domain; the stencil uses h = 2^k <= scale/256"""
    e = tc.eps()
    if name == "Identity":
        return max(abs(x), 1.0)
    if name == "Logit":
        d = math.exp(vals["logdelta"])
        return min(x - vals["lower"] - e, vals["lower"] + d - e - x)
    if name in ("Log", "BoxCox2", "BoxCox1lam", "BoxCox1nu", "Reciprocal"):
        o = tc.full_opts(name, opts)
        z = x + vals["nu"]
        return z - o.get("mininu", 0.0) if name != "Reciprocal" else z
    if name == "BoxCox2sym":
        return min(abs(x), abs(x) + vals["nu"])        # not straddling 0
    if name == "YeoJohnson":
        w = vals["nu"] + x * vals["scale"]
        return min(1 + abs(w), abs(w - e)) / vals["scale"]     # not straddling w = EPS
    if name == "LogSinh":
        a, b = math.exp(vals["loga"]), math.exp(vals["logb"])
        w = a + b * (x / vals["xmax"])
        return min(w - b * e, 1.0) * vals["xmax"] / b
    if name == "Sinh":
        u = (x - vals["nu"]) * vals["scale"]
        return math.sqrt(1 + u * u) / vals["scale"]
    if name == "Manly":
        lam = vals["lam"]
        u = x / vals["xmax"]
        lu = max(abs(u), 1.0)
        if lam != 0:
            lu = min(lu, 1 / abs(lam))
        return lu * vals["xmax"]
    raise KeyError(name)


def noisy_params(name, vals):
    """parameters for which forward itself is numerically noisy (the closed form
    cancels: EPS < |exponent| < 1e-7) - excluded from the stencil test,
    covered by the theorems and by E3 on jacobian (DESIGN 5/C02 S)"""
    if "lam" not in vals:
        return False
    lams = [vals["lam"]] + ([2 - vals["lam"]] if name == "YeoJohnson" else [])
    return any(0 < abs(l) < 1e-7 for l in lams)


def stencil(t, x, h):
    pts = [x - 2 * h, x - h, x + h, x + 2 * h]
    # exactly representable steps
    if not ((pts[2] - x) == h and (x - pts[1]) == h and (pts[3] - x) == 2 * h and (x - pts[0]) == 2 * h):
        return None
    f, err = tc.call(t, "fwd", pts)
    if f is None or not all(math.isfinite(v) for v in f):
        return None
    return (f[0] - 8 * f[1] + 8 * f[2] - f[3]) / (12 * h), f


def stencil_at(t, name, opts, eff, x, j, L):
    """the property's stencil at the interior point x (local scale L, jacobian j):
    None where it does not apply (noisy parameters, steps not exactly representable,
    forward not finite, difference quotient not accurate enough), else
    (h, finite difference, forward at the 4 stencil points, rounding bound of the quotient)"""
    if noisy_params(name, eff) or not math.isfinite(L) or not L > 0:
        return None
    h = 2.0 ** math.floor(math.log2(L / 256))
    st = stencil(t, x, h)
    if st is None:
        return None
    fd, fvals = st
    # rounding of the stencil itself: 2^-53 * amplification of forward / h
    af = max(tc.amp(name, "fwd", opts, eff, xx, fv) for xx, fv in
             zip([x - 2 * h, x - h, x + h, x + 2 * h], fvals))
    noise = 32 * tc.U * af / h if math.isfinite(af) else math.inf
    if not noise <= 2e-5 * abs(j):
        return None            # the difference quotient is not accurate enough here
    return h, fd, fvals, noise


# ----------------------------------------------------------------------------
# input classes R and S (oracle only; the model is a pure function of the values)
#
# R  representations: the SAME domain points handed to jacobian/forward through every
#    representation of a float64 input - python float, numpy scalar, 1-/2-/3-d arrays,
#    C / Fortran order, transposed and axes-permuted views, strided / reversed / column
#    / block views of larger arrays (NaN around them), read-only, non-native byte
#    order, DataFrame.to_numpy().  Element [idx] of jacobian(X) must be the derivative
#    of forward at X[idx].
# S  sequences: ONE transform object and ONE array object (a work buffer) taken through
#    a sequence of operations - parameters changed the ways the API offers, buffer
#    refilled / perturbed IN PLACE between calls, forward and jacobian called in varying
#    orders, the stencil itself evaluated by perturbing the buffer in place.  After every
#    operation jacobian(buffer) must be the derivative of forward at the buffer's
#    CURRENT content.
# Oracle for both = the clauses of the property, element-wise: jacobian > 0, jacobian
# within 1e-4 of the derivative (reference: the jacobian of a fresh object on a fresh
# contiguous 1-d array, which the main loop ties to the model by E3, and the 5-point
# stencil of forward evaluated THROUGH the representation / the buffer), forward
# non-decreasing over the elements.

REL = 1e-4
PATTERNS = (("jac",), ("fwd", "jac"), ("jac", "jac"), ("jac", "fwd"), ("fwd", "fwd", "jac"))


def _nanbox(shape, order="C"):
    return np.full(shape, np.nan, order=order)


def _r_strided(M, order="C"):
    big = _nanbox(tuple(3 * s for s in M.shape), order)
    sl = tuple(slice(1, None, 3) for _ in M.shape)
    big[sl] = M
    return big[sl]


def _r_reversed(M):
    rev = tuple(slice(None, None, -1) for _ in M.shape)
    return M[rev].copy()[rev]


def _r_readonly(M):
    a = M.copy()
    a.setflags(write=False)
    return a


def _r_column(M):
    col = _nanbox((M.shape[0], 3))
    col[:, 1] = M
    return col[:, 1]


def _r_block(M):
    wide = _nanbox(M.shape[:-1] + (M.shape[-1] + 2,))
    wide[..., 1:-1] = M
    return wide[..., 1:-1]


def _r_dataframe(M):
    import pandas as pd
    return pd.DataFrame({f"c{k}": M[:, k] for k in range(M.shape[1])}).to_numpy()


def _r_permuted(M):
    return np.ascontiguousarray(np.transpose(M, (1, 2, 0))).transpose(2, 0, 1)


# (label, dimensions it applies to, builder: C-contiguous float64 M -> equal array)
REPRESENTATIONS = [
    ("C-contiguous", (1, 2, 3), lambda M: M.copy()),
    ("read-only", (1, 2), _r_readonly),
    ("non-native byte order", (1, 2), lambda M: M.astype(M.dtype.newbyteorder())),
    ("strided view a[1::3, ...] of a larger array", (1, 2, 3), _r_strided),
    ("reversed view a[::-1, ...]", (1, 2, 3), _r_reversed),
    ("column view a[:, 1] of a 2-d array", (1,), _r_column),
    ("Fortran order", (2, 3), lambda M: np.asfortranarray(M)),
    ("transposed view a.T", (2, 3), lambda M: np.ascontiguousarray(M.T).T),
    ("strided view of a Fortran-ordered array", (2, 3), lambda M: _r_strided(M, "F")),
    ("block view a[..., 1:-1] of a wider array", (2, 3), _r_block),
    ("DataFrame.to_numpy()", (2,), _r_dataframe),
    ("axes-permuted view a.transpose(2, 0, 1)", (3,), _r_permuted),
    ("python float", (0,), lambda M: float(M)),
    ("numpy.float64 scalar", (0,), lambda M: np.float64(M)),
]

SHAPES = {12: [(12,), (3, 4), (2, 3, 2)], 8: [(8,), (2, 4), (2, 2, 2)], 6: [(6,), (2, 3)],
          4: [(4,), (2, 2)], 3: [(3,)], 2: [(2,)], 1: [(1,)]}


def describe(A):
    if isinstance(A, np.ndarray):
        return {"type": "ndarray", "shape": list(A.shape), "strides": list(A.strides), "dtype": A.dtype.str,
                "c_contiguous": bool(A.flags.c_contiguous), "f_contiguous": bool(A.flags.f_contiguous),
                "writeable": bool(A.flags.writeable), "owndata": bool(A.flags.owndata)}
    return {"type": type(A).__name__}


def _tolist(A):
    return np.asarray(A, dtype=np.float64).tolist()


def call_on(t, method, A):
    """t.<method>(A) on the very object A -> (flat C-order list of floats, shape, None) or
    (None, None, exception)"""
    f = {"fwd": t.forward, "jac": t.jacobian}[method]
    try:
        with np.errstate(all="ignore"):
            r = f(A)
        r = np.asarray(r, dtype=np.float64)
        return [float(v) for v in r.ravel(order="C")], tuple(r.shape), None
    except Exception as e:      # noqa: BLE001 - any exception of the implementation is an outcome
        return None, None, f"{type(e).__name__}: {e}"


def point_records(name, opts, eff, t, xs):
    """interior points with their reference values: jacobian / forward of `t` (a fresh object)
    on a fresh contiguous 1-d array, and the step of the property's stencil where it applies"""
    if not xs:
        return []
    js, _ = tc.call(t, "jac", xs)
    fs, _ = tc.call(t, "fwd", xs)
    if js is None:
        return []
    recs, seen = [], set()
    for i, x in enumerate(xs):
        j = js[i]
        L = local_scale(name, opts, eff, x)
        if x in seen or not (L > 0 and math.isfinite(j) and j > 0):
            continue
        seen.add(x)
        sa = stencil_at(t, name, opts, eff, x, j, L)
        recs.append({"x": x, "j": j, "f": None if fs is None else fs[i],
                     "h": sa[0] if sa else 0.0, "noise": sa[3] if sa else None})
    return recs


def eval_elements(ctx, tag, name, opts, eff, rep0, t, recs, idxs, shape, put, pattern, recheck):
    """the clauses of the property on every element of one array.  `put(M)` hands the
    content M (C-contiguous, `shape`) over as the array object to be passed to the
    transform (a new array in some representation, or THE buffer overwritten in place);
    `pattern`: the calls made on it, in order.  Returns False after the first report."""
    sel = [recs[i] for i in idxs]
    X = np.array([r["x"] for r in sel], dtype=np.float64).reshape(shape)
    H = np.array([r["h"] for r in sel], dtype=np.float64).reshape(shape)
    who = f"{name}{opts} {eff}"

    def fail(mode, extra, text):
        ctx.failure(f"C02/{name}/{tag}-{mode}", dict(rep0, **extra), f"{who}: {text}")
        return False

    A = put(X)
    desc = describe(A)
    rep0 = dict(rep0, array=desc, x=_tolist(X), calls=list(pattern))
    last = {}
    for m in pattern:
        out, oshape, err = call_on(t, m, A)
        meth = {"fwd": "forward", "jac": "jacobian"}[m]
        if out is None:
            return fail(f"{meth}-raises", {"method": meth, "exception": err},
                        f"{meth}(x) raised {err} for x = {_tolist(X)} passed as {desc} "
                        f"(calls on this array: {list(pattern)})")
        if len(out) != X.size or (X.ndim > 0 and oshape != X.shape):
            return fail(f"{meth}-shape", {"method": meth, "output": out, "output_shape": list(oshape)},
                        f"{meth}(x) has shape {oshape} for x of shape {X.shape} passed as {desc}: "
                        "its elements cannot be the derivative at the elements of x")
        last[m] = out
    if "fwd" not in last:
        last["fwd"], _, err = call_on(t, "fwd", A)
        if last["fwd"] is None or len(last["fwd"]) != X.size:
            return fail("forward-raises", {"method": "forward", "exception": err},
                        f"forward(x) raised {err} (or lost elements) for x = {_tolist(X)} passed as {desc}")
    changed = not np.array_equal(np.asarray(A, dtype=np.float64), X)
    # the stencil, evaluated through the same representation / the same buffer
    Fd = {}
    if np.any(H > 0):
        for d in (-2, -1, 1, 2):
            Fd[d], _, _ = call_on(t, "fwd", put(X + d * H))
            if Fd[d] is None or len(Fd[d]) != X.size:
                Fd = {}
                break
    checks = [("jacobian(x)", last["jac"])]
    if recheck:
        A = put(X)
        j2, _, err = call_on(t, "jac", A)
        if j2 is None or len(j2) != X.size:
            return fail("jacobian-raises", {"method": "jacobian", "exception": err},
                        f"jacobian(x) raised {err} (or lost elements) when x = {_tolist(X)} was passed again "
                        f"as {desc}")
        checks.append(("jacobian(x) after the array went through the stencil values and back", j2))
    note = " [the content of x was modified by the calls]" if changed else ""
    for p, r in enumerate(sel):
        idx = [int(i) for i in np.unravel_index(p, shape)] if shape else []
        if not math.isfinite(last["fwd"][p]):
            # an interior point inside C01's conditioning region: the exact value is a normal number
            return fail("forward-not-finite",
                        {"method": "forward", "index": idx, "x_at_index": r["x"], "output": last["fwd"][p],
                         "output_all": last["fwd"]},
                        f"forward(x){idx} = {last['fwd'][p]!r} at the interior point x{idx} = {r['x']!r} (jacobian "
                        f"there: {r['j']!r}): forward has no derivative there; x = {_tolist(X)} passed as "
                        f"{desc}{note}")
        for label, J in checks:
            j = J[p]
            ext = {"method": "jacobian", "index": idx, "x_at_index": r["x"], "output": j,
                   "output_all": J, "reference_jacobian": r["j"]}
            if not j > 0:
                return fail("jacobian-not-positive", ext,
                            f"{label}{idx} = {j!r} is not positive at x{idx} = {r['x']!r}; x = {_tolist(X)} "
                            f"passed as {desc}{note}")
            if not abs(j - r["j"]) <= REL * abs(r["j"]):
                return fail("jacobian-differs-from-derivative", ext,
                            f"{label}{idx} = {j!r} but the derivative of forward at x{idx} = {r['x']!r} is "
                            f"{r['j']!r} (jacobian of a fresh object on a fresh 1-d array); x = {_tolist(X)} "
                            f"passed as {desc}{note}")
        if Fd and r["h"] > 0:
            h = r["h"]
            fv = [Fd[d][p] for d in (-2, -1, 1, 2)]
            fd = (fv[0] - 8 * fv[1] + 8 * fv[2] - fv[3]) / (12 * h)
            j = last["jac"][p]
            ctx.count((name, tag, "stencil"))
            if not abs(fd - j) <= REL * abs(j) + r["noise"]:
                return fail("jacobian-differs-from-finite-difference",
                            {"method": "jacobian", "index": idx, "x_at_index": r["x"], "output": j, "h": h,
                             "finite_difference": fd, "forward_at_stencil": fv},
                            f"jacobian(x){idx} = {j!r} at x{idx} = {r['x']!r}, 5-point central difference of "
                            f"forward (h={h!r}, evaluated through the same array) = {fd!r}; x = {_tolist(X)} "
                            f"passed as {desc}{note}")
    # forward increasing over the elements
    pairs = sorted((r["x"], f) for r, f in zip(sel, last["fwd"]) if math.isfinite(f))
    for (x1, f1), (x2, f2) in zip(pairs, pairs[1:]):
        if x1 == x2:
            continue
        if name == "YeoJohnson":
            w1 = eff["nu"] + x1 * eff["scale"]
            w2 = eff["nu"] + x2 * eff["scale"]
            if 0 < w1 < tc.eps() or 0 < w2 < tc.eps():
                continue
        a1 = tc.amp(name, "fwd", opts, eff, x1, f1)
        a2 = tc.amp(name, "fwd", opts, eff, x2, f2)
        slack = 16 * tc.U * (a1 + a2) if math.isfinite(a1 + a2) else math.inf
        if not f1 <= f2 + slack:
            return fail("forward-not-increasing",
                        {"method": "forward", "x1": x1, "x2": x2, "f1": f1, "f2": f2, "output_all": last["fwd"]},
                        f"forward(x) has {f1!r} at the element {x1!r} > {f2!r} at the element {x2!r}; "
                        f"x = {_tolist(X)} passed as {desc}{note}")
    ctx.count((name, tag, desc["type"], len(shape)), n=X.size)
    return True


def representation_checks(ctx):
    """input class R for the 12 element-wise classes"""
    rng = ctx.rng
    nrep = 0
    for name in tc.CLASSES:
        if name == "Softmax":
            continue
        variants = tc.ctor_variants(name, rng, c02=True)
        nvec = ctx.scale(NVEC_QUICK[name], 5 * NVEC_QUICK[name] + 10)
        for k in range(nvec):
            opts = variants[k % len(variants)]
            vals = vec_k(name, opts, rng, k)
            cm.mark({"call": "transform.jacobian (representations)", "class": name, "opts": opts, "vals": vals})
            t, eff = tc.make(name, opts, vals, k % 2 == 1)
            recs = point_records(name, opts, eff, t, tc.points(name, opts, eff, rng, 12))
            n = max([m for m in SHAPES if m <= len(recs)], default=0)
            if not n:
                continue
            base = {"class": name, "opts": opts, "values": eff,
                    "input_class": "representations of the input (R)"}
            for shape in SHAPES[n] + [()]:
                for ri, (label, dims, build) in enumerate(REPRESENTATIONS):
                    if len(shape) not in dims:
                        continue
                    if not shape and name == "YeoJohnson":
                        # its methods work on atleast_1d copies and dutils.cast converts the 1-element
                        # result with float(): TypeError under numpy >= 2.? on the unchanged tree for
                        # every 0-d input (no value is wrong; C01 leaves it out for the same reason)
                        continue
                    off = (k + ri) % len(recs)
                    idxs = [(off + p) % len(recs) for p in range(int(np.prod(shape)))]
                    fresh, _ = tc.make(name, opts, eff)
                    nrep += 1
                    if not eval_elements(ctx, "representation", name, opts, eff, dict(base, representation=label),
                                         fresh, recs, idxs, shape, build, ("jac", "fwd"), False):
                        break
    ctx.notes["representation_arrays"] = nrep


def sequence_checks(ctx):
    """input class S for the 12 element-wise classes"""
    rng = ctx.rng
    nsteps = ctx.scale(6, 20)
    nbuf = 6
    buffers = [("1-d buffer", (nbuf,), lambda: np.zeros(nbuf)),
               ("2-d buffer", (2, 3), lambda: np.zeros((2, 3))),
               ("Fortran-ordered 2-d buffer", (2, 3), lambda: np.zeros((2, 3), order="F")),
               ("strided view used as buffer", (nbuf,), lambda: np.zeros(2 * nbuf)[::2])]
    nobj = 0
    for name in tc.CLASSES:
        if name == "Softmax":
            continue
        variants = tc.ctor_variants(name, rng, c02=True)
        for oi in range(ctx.scale(2, max(3, len(variants)))):
            opts = variants[oi % len(variants)]
            if tc.bounds(name, opts):
                try:
                    first, steps = tc.stateful_plan(name, opts, rng, nsteps)
                except (ValueError, OverflowError, ZeroDivisionError):
                    # the generator of random settings cannot work with the bounds extracted from
                    # this tree (e.g. a lower bound of a scale that is not positive - the proofs
                    # report that): one setting, the buffer operations only
                    ctx.notes.setdefault("sequence_plan_fallback", []).append(name)
                    first, steps = vec_k(name, opts, rng, 0), [("none", {})] * nsteps
            else:                                   # Identity: nothing to set
                first, steps = {}, [("none", {})] * nsteps
            blabel, shape, alloc = buffers[(oi + len(name)) % len(buffers)]
            buf = alloc()
            cm.mark({"call": "transform (sequence)", "class": name, "opts": opts, "first": first, "steps": steps})
            t, _ = tc.make(name, opts, first, via_get=oi % 2 == 1)
            nobj += 1
            history = [("construct", first)]

            def put(M, buf=buf):
                buf[...] = M
                return buf

            alive = True
            for si in range(len(steps) + 1):
                if si:
                    style, changes = steps[si - 1]
                    if style != "none":
                        history.append((style, changes))
                        try:
                            tc.apply_step(t, style, changes)
                        except Exception as e:      # noqa: BLE001
                            ctx.failure(f"C02/{name}/sequence-set-raises",
                                        {"class": name, "opts": opts, "history": history, "exception": repr(e)},
                                        f"{name}{opts}: {style} {changes} raised {type(e).__name__}")
                            break
                eff = tc.stored_values(t)
                if any(math.isnan(v) for v in eff.values()):
                    continue
                fresh, eff2 = tc.make(name, opts, eff)
                if eff2 != eff:
                    continue
                recs = point_records(name, opts, eff, fresh, tc.points(name, opts, eff, rng, 9))
                if len(recs) < 2:
                    continue
                # the buffer is refilled in place twice per setting: every element changes
                for fill in range(2):
                    off = rng.randrange(len(recs)) if fill == 0 else off + 1 + rng.randrange(len(recs) - 1)
                    idxs = [(off + p) % len(recs) for p in range(nbuf)]
                    pattern = PATTERNS[(si + fill + oi) % len(PATTERNS)]
                    history.append(("buffer refilled in place, then " + ", ".join(pattern) + ", stencil in place, jac",
                                    [recs[i]["x"] for i in idxs]))
                    rep0 = {"class": name, "opts": opts, "values": eff, "history": list(history), "buffer": blabel,
                            "input_class": "sequence of operations on one object and one array (S)"}
                    alive = eval_elements(ctx, "sequence", name, opts, eff, rep0, t, recs, idxs, shape, put,
                                          pattern, True)
                    if not alive:
                        break
                if not alive:
                    break
    ctx.notes["sequence_objects"] = nobj


def softmax_fd_dets(fwd, R):
    """determinants of the matrices of 5-point partial derivatives of forward at the rows of R;
    `fwd(M)` = forward values (flat, C order) of the content M, None when it raised"""
    nr, nc = R.shape
    hv = np.array([2.0 ** math.floor(math.log2(min(min(r), 1 - sum(r)) / 256)) for r in R.tolist()])
    P = np.zeros((nr, nc, nc))
    for c in range(nc):
        f = {}
        for d in (-2, -1, 1, 2):
            M = R.copy()
            M[:, c] = R[:, c] + d * hv
            out = fwd(M)
            if out is None or len(out) != R.size:
                return None
            f[d] = np.array(out).reshape(nr, nc)
        P[:, :, c] = (f[-2] - 8 * f[-1] + 8 * f[1] - f[2]) / (12 * hv[:, None])
    return [float(np.linalg.det(P[i])) for i in range(nr)]


def eval_softmax(ctx, tag, rep0, sm, R, put, pattern, recheck):
    """the Softmax clauses on the rows of R handed over by `put` (see eval_elements)"""
    from hydrodiy.stat import transform as T
    nr, nc = R.shape

    def fail(mode, extra, text):
        ctx.failure(f"C02/Softmax/{tag}-{mode}", dict(rep0, **extra), f"Softmax: {text}")
        return False

    # references: a fresh object on fresh arrays
    ref = T.Softmax()
    refj, _, _ = call_on(ref, "jac", R.copy())
    refdet = softmax_fd_dets(lambda M: call_on(ref, "fwd", M)[0], R)
    if refj is None or refdet is None or not all(abs(d - j) <= REL * abs(j) for d, j in zip(refdet, refj)):
        ctx.notes["softmax_reference_unusable"] = ctx.notes.get("softmax_reference_unusable", 0) + 1
        return True                    # the main loop's matter (fresh object, fresh arrays)
    A = put(R)
    desc = describe(A)
    rep0 = dict(rep0, array=desc, rows=R.tolist(), calls=list(pattern))
    last = {}
    for m in pattern:
        out, _, err = call_on(sm, m, A)
        meth = {"fwd": "forward", "jac": "jacobian"}[m]
        if out is None:
            return fail(f"{meth}-raises", {"method": meth, "exception": err},
                        f"{meth}(x) raised {err} in the domain for x = {R.tolist()} passed as {desc} "
                        f"(calls on this array: {list(pattern)})")
        if len(out) != (nr if m == "jac" else R.size):
            return fail(f"{meth}-shape", {"method": meth, "output": out},
                        f"{meth}(x) has {len(out)} elements for x of shape {R.shape} passed as {desc}")
        last[m] = out
    changed = not np.array_equal(np.asarray(A, dtype=np.float64).reshape(R.shape), R)
    dets = softmax_fd_dets(lambda M: call_on(sm, "fwd", put(M))[0], R)
    checks = [("jacobian(x)", last["jac"])]
    if recheck:
        A = put(R)
        j2, _, err = call_on(sm, "jac", A)
        if j2 is None or len(j2) != nr:
            return fail("jacobian-raises", {"method": "jacobian", "exception": err},
                        f"jacobian(x) raised {err} (or lost rows) when x = {R.tolist()} was passed again as {desc}")
        checks.append(("jacobian(x) after the array went through the stencil values and back", j2))
    note = " [the content of x was modified by the calls]" if changed else ""
    for i in range(nr):
        for label, J in checks:
            j = J[i]
            ext = {"method": "jacobian", "row": i, "output": j, "output_all": J,
                   "reference_jacobian": refj[i], "determinant_of_partial_derivatives": refdet[i]}
            if not j > 0:
                return fail("jacobian-not-positive", ext,
                            f"{label}[{i}] = {j!r} is not positive; x = {R.tolist()} passed as {desc}{note}")
            if not (abs(j - refdet[i]) <= REL * abs(j) and abs(j - refj[i]) <= REL * abs(refj[i])):
                return fail("jacobian-differs-from-determinant", ext,
                            f"{label}[{i}] = {j!r} but the determinant of the partial derivatives of forward at "
                            f"the row x[{i}] = {R[i].tolist()} is {refdet[i]!r} (jacobian of a fresh object on a "
                            f"fresh array: {refj[i]!r}); x = {R.tolist()} passed as {desc}{note}")
        if dets is None or not abs(dets[i] - last["jac"][i]) <= REL * abs(last["jac"][i]):
            return fail("jacobian-differs-from-determinant",
                        {"method": "jacobian", "row": i, "output": last["jac"][i],
                         "determinant_of_partial_derivatives": None if dets is None else dets[i]},
                        f"jacobian(x)[{i}] = {last['jac'][i]!r}, determinant of the 5-point partial derivatives of "
                        f"forward evaluated through the same array = {None if dets is None else dets[i]!r}; "
                        f"x = {R.tolist()} passed as {desc}{note}")
    ctx.count(("Softmax", tag, desc["type"], nr, nc), n=nr)
    return True


def softmax_checks(ctx):
    """input classes R and S for Softmax (rows = points of the simplex interior)"""
    from hydrodiy.stat import transform as T
    rng = ctx.rng

    def rows(nr, nc):
        return np.array(tc.softmax_rows(rng, nr, nc, smax=0.99), dtype=np.float64)

    # R
    for k in range(ctx.scale(8, 40)):
        nr, nc = [1, 2, 3, 4][k % 4], [2, 3, 1, 5, 4][k % 5]
        R = rows(nr, nc)
        cm.mark({"call": "Softmax.jacobian (representations)", "rows": R.tolist()})
        reps = [(lab, b) for lab, dims, b in REPRESENTATIONS if 2 in dims] + [("list of rows", lambda M: M.tolist())]
        if nr == 1:
            reps += [("one row, 1-d: " + lab, (lambda M, b=b: b(M[0]))) for lab, dims, b in REPRESENTATIONS
                     if 1 in dims] + [("one row, python list", lambda M: M[0].tolist())]
        for label, build in reps:
            if not eval_softmax(ctx, "representation",
                                {"class": "Softmax", "representation": label,
                                 "input_class": "representations of the input (R)"},
                                T.Softmax(), R, build, ("jac", "fwd"), False):
                break
    # S
    buffers = [("2-d buffer", lambda nr, nc: np.zeros((nr, nc))),
               ("Fortran-ordered 2-d buffer", lambda nr, nc: np.zeros((nr, nc), order="F")),
               ("strided view used as buffer", lambda nr, nc: np.zeros((2 * nr, 3 * nc))[::2, 1::3])]
    nsteps = ctx.scale(8, 24)
    for oi in range(ctx.scale(6, 24)):
        nr, nc = [2, 3, 1, 4][oi % 4], [3, 2, 4, 1, 5][oi % 5]
        blabel, alloc = buffers[oi % len(buffers)]
        buf = alloc(nr, nc)
        sm = T.Softmax() if oi % 2 else T.get_transform("Softmax")
        history = []

        def put(M, buf=buf):
            buf[...] = M
            return buf

        R = rows(nr, nc)
        cm.mark({"call": "Softmax (sequence)", "first": R.tolist()})
        for si in range(nsteps):
            op = ["refill", "scale", "refill", "reverse-rows", "scale"][(si + oi) % 5] if si else "fill"
            if op == "scale":
                c = [0.5, 0.25, 0.75][si % 3]
                R = R * c
                op = f"scaled in place by {c}"
            elif op == "reverse-rows" and nr > 1:
                R = R[::-1].copy()
            else:
                R = rows(nr, nc)
            if rng.random() < 0.25:           # another array goes through the object in between
                other = rows(nr, nc)
                call_on(sm, "jac", other)
                history.append(("jacobian of another array", other.tolist()))
            pattern = PATTERNS[(si + oi) % len(PATTERNS)]
            history.append((f"buffer: {op}, then " + ", ".join(pattern) + ", stencil in place, jac", R.tolist()))
            if not eval_softmax(ctx, "sequence",
                                {"class": "Softmax", "buffer": blabel, "history": list(history),
                                 "input_class": "sequence of operations on one object and one array (S)"},
                                sm, R, put, pattern, True):
                break


# ----------------------------------------------------------------------------
# input classes W and X (oracle only)
#
# W  walks: ONE object per (class, way of setting a value, direction of the walk), already USED (forward,
#    jacobian, sometimes backward called on it) before every change, taken DOWN a ladder of parameter
#    vectors (one value lowered per step), UP the ladder (one value raised per step) or through shuffled
#    vectors (every value changed; a reset() in between); each of the API's ways of setting is used alone
#    on its object (attribute, item, params item, params attribute: one element of the live array is
#    assigned; params.values = ...: a new array), parameters and constants alike; for every second object
#    a SIBLING object of the same class holding other values is set and called between the walker's
#    change and its evaluation.  After every change the clauses of the property are judged on a point set
#    that lies on BOTH sides of every seam of forward (the sign change of BoxCox2sym at 0, the formula
#    switch of Yeo-Johnson at nu + scale*x = 0 / EPS, the centre of symmetry of Sinh / Manly / Logit, the
#    zero of the logarithm / power family at x + nu = 1, a + b*x/xmax = a for LogSinh) at distances from
#    2^-40 to 1 times the natural scale, the seam itself included: forward non-decreasing over ALL ordered
#    pairs (running maximum; the pairs straddling a seam are the ones no stencil can see), jacobian > 0,
#    jacobian = derivative (stencil of forward through the same object, and the jacobian of a fresh
#    object) at every interior point.
# X  extremes: exponents at / one ulp either side of EVERY threshold at which some method could switch
#    formula (EPS, the isclose windows 1e-8 around 0 and 1e-8 + 2e-5 around 2) x points whose logarithm is
#    large (x + nu resp. |nu + scale*x| from 1e-100 to 1e100, inside |lam * ln| <= 13.8): a jacobian and a
#    forward that pick their formula from two different tests differ by the factor exp(lam * ln z), which
#    exceeds 1e-4 only far from the origin.  Same clauses, same stencil.

WALK_STYLES = ("attr", "item", "vector-item", "vector-attr", "values")
WALK_DIRECTIONS = ("down", "up", "shuffled")


def walk_ladders(name, opts):
    """{value name: increasing legal values} - rungs of the ladders of input class W"""
    b = tc.bounds(name, opts)

    def clip(n, vals):
        lo, hi = b[n][2], b[n][3]
        return sorted({min(max(float(v), lo), hi) for v in vals})

    if name == "Logit":
        return {"lower": clip("lower", [-2.0, 0.0, 3.0]), "logdelta": clip("logdelta", [-1.0, 0.0, 2.0])}
    if name in ("Log", "Reciprocal"):
        lo = b["nu"][2]
        return {"nu": clip("nu", [lo + 1e-3, lo + 0.5, lo + 2.0, lo + 7.0])}
    if name in ("BoxCox2", "BoxCox1lam", "BoxCox1nu", "BoxCox2sym"):
        lo = b["nu"][2]
        return {"nu": clip("nu", [lo + 1e-3, lo + 0.5, lo + 2.0, lo + 7.0]),
                "lam": clip("lam", [-1.0, -0.5, 0.0, 0.2, 1.0, 1.7, 3.0])}
    if name == "YeoJohnson":
        return {"nu": clip("nu", [-3.0, 0.0, 0.5]), "scale": clip("scale", [0.1, 1.0, 10.0]),
                "lam": clip("lam", [-1.0, 0.0, 0.5, 1.0, 2.0, 3.0])}
    if name == "LogSinh":
        return {"loga": clip("loga", [-5.0, -1.0, -0.1]), "logb": clip("logb", [-1.0, 0.0, 1.0]),
                "xmax": clip("xmax", [1.0, 10.0, 1e3])}
    if name == "Sinh":
        return {"nu": clip("nu", [-1.0, 0.0, 100.0]), "scale": clip("scale", [0.1, 1.0, 1e3])}
    if name == "Manly":
        return {"lam": clip("lam", [-1.0, 0.0, 1e-3, 0.1, 1.0]), "xmax": clip("xmax", [1.0, 10.0, 1e4])}
    raise KeyError(name)


def walk_plan(name, opts, rng, direction, nmax):
    """(first setting, [{name: value}]) - down / up: ONE value moves one or two rungs per step until every
    value sits at the other end of its ladder; shuffled: vectors of the ladders' product and of C01's
    generator, every value changes"""
    lad = walk_ladders(name, opts)
    names = sorted(lad)
    if direction == "shuffled":
        vecs = [{n: rng.choice(lad[n]) for n in names} for _ in range(nmax)]
        vecs += tc.param_vectors(name, opts, rng, 6)[2:]
        rng.shuffle(vecs)
        return vecs[0], [dict(v) for v in vecs[1:nmax + 1]]
    sgn = -1 if direction == "down" else 1
    pos = {n: (len(lad[n]) - 1 if sgn < 0 else 0) for n in names}
    end = {n: (0 if sgn < 0 else len(lad[n]) - 1) for n in names}
    first = {n: lad[n][pos[n]] for n in names}
    steps = []
    k = rng.randrange(len(names))
    total = sum(len(lad[n]) - 1 for n in names)
    while len(steps) < nmax and any(pos[n] != end[n] for n in names):
        n = names[k % len(names)]
        k += 1
        if pos[n] == end[n]:
            continue
        left = sum(abs(end[m] - pos[m]) for m in names)
        jump = 2 if (left > nmax - len(steps) or (total <= nmax and rng.random() < 0.3)) else 1
        pos[n] = max(pos[n] - jump, 0) if sgn < 0 else min(pos[n] + jump, end[n])
        steps.append({n: lad[n][pos[n]]})
    return first, steps


def seam_points(name, opts, eff):
    """domain points at and on both sides of the places where forward changes formula, sign or side of
    its symmetry, at distances 2^-40 .. 1 of the natural scale; kept inside C01's conditioning region"""
    from harness.props.c01 import in_region
    c = []
    pm = (1, -1)
    try:
        if name == "Identity":
            c = [0.0] + [s * 2.0 ** -k for k in (0, 20) for s in pm]
        elif name == "Logit":
            d = math.exp(eff["logdelta"])
            c = [eff["lower"] + d * 0.5] + [eff["lower"] + d * (0.5 + s * 2.0 ** -k) for k in (2, 8, 30) for s in pm]
        elif name in ("Log", "BoxCox2", "BoxCox1lam", "BoxCox1nu", "Reciprocal"):
            c = [1.0 - eff["nu"]] + [(1.0 + s * 2.0 ** -k) - eff["nu"] for k in (1, 12, 40) for s in pm]
        elif name == "BoxCox2sym":
            nu = eff["nu"]
            c = [0.0] + [s * nu * 2.0 ** -k for k in (0, 4, 16, 40) for s in pm] + [s * v for v in (1e-12, 1.0) for s in pm]
        elif name == "YeoJohnson":
            ws = [0.0] + [s * 2.0 ** -k for k in (20, 10, 3, 0) for s in pm]
            c = [(w - eff["nu"]) / eff["scale"] for w in ws]
        elif name == "LogSinh":
            a, b = math.exp(eff["loga"]), math.exp(eff["logb"])
            c = [0.0] + [eff["xmax"] * (s * a * 2.0 ** -k) / b for k in (1, 10, 30) for s in pm]
        elif name == "Sinh":
            c = [eff["nu"]] + [eff["nu"] + s * 2.0 ** -k / eff["scale"] for k in (16, 6, 0) for s in pm]
        elif name == "Manly":
            c = [0.0] + [s * 2.0 ** -k * eff["xmax"] for k in (16, 6, 0) for s in pm]
    except (ValueError, OverflowError, ZeroDivisionError):
        return []
    return sorted({float(x) for x in c if in_region(name, opts, eff, float(x))})


def monotone_pairs(ctx, tag, name, opts, eff, rep0, t, xs):
    """`x1 < x2 implies forward(x1) <= forward(x2)` (equality within rounding) over ALL ordered pairs of
    the domain points xs handed to `t.forward` as one array.  False after a report."""
    xs = sorted(set(xs))
    who = f"{name}{opts} {eff}"
    out, _, err = call_on(t, "fwd", np.array(xs, dtype=np.float64))
    if out is None or len(out) != len(xs):
        ctx.failure(f"C02/{name}/{tag}-forward-raises", dict(rep0, method="forward", x=xs, exception=err),
                    f"{who}: forward(x) raised {err} (or lost elements) for the domain points x = {xs}")
        return False
    best = None                      # running maximum (forward value, point, rounding bound)
    for x, f in zip(xs, out):
        if not math.isfinite(f):
            continue
        if name == "YeoJohnson" and 0 < eff["nu"] + x * eff["scale"] < tc.eps():
            continue
        a = tc.amp(name, "fwd", opts, eff, x, f)
        if not math.isfinite(a):
            continue
        ctx.count((name, tag, "monotone"))
        if best is not None and not best[0] <= f + 16 * tc.U * (best[2] + a):
            ctx.failure(f"C02/{name}/{tag}-forward-not-increasing",
                        dict(rep0, method="forward", x=xs, x1=best[1], x2=x, f1=best[0], f2=f, output_all=out),
                        f"{who}: forward({best[1]!r}) = {best[0]!r} > forward({x!r}) = {f!r} "
                        f"(both in one call on x = {xs})")
            return False
        if best is None or f > best[0]:
            best = (f, x, a)
    return True


def judge_setting(ctx, tag, name, opts, t, rep0, rng, npts, pattern, mono_first, between=None):
    """the clauses of the property for the values `t` holds now, on seam_points + `npts` points of C01's
    generator; `between()` runs between the two parts of the judgement (all pairs of forward / the
    element-wise clauses).  None: nothing to judge here (values outside the conditioning region), else
    True / False"""
    eff = tc.stored_values(t)
    if any(math.isnan(v) for v in eff.values()):
        return None
    fresh, eff2 = tc.make(name, opts, eff)
    if eff2 != eff:
        return None
    xs = seam_points(name, opts, eff) + tc.points(name, opts, eff, rng, npts)
    if len(set(xs)) < 2:
        return None
    recs = point_records(name, opts, eff, fresh, xs)
    rep0 = dict(rep0, values=eff)
    for n, part in enumerate((0, 1) if mono_first else (1, 0)):
        if n and between is not None:
            between()
        if part == 0:
            if not monotone_pairs(ctx, tag, name, opts, eff, rep0, t, xs):
                return False
        elif recs and not eval_elements(ctx, tag, name, opts, eff, rep0, t, recs, list(range(len(recs))),
                                        (len(recs),), lambda M: M.copy(), pattern, False):
            return False
    return True


def walk_checks(ctx):
    """input class W for the 11 element-wise classes that hold values"""
    rng = ctx.rng
    nmax = ctx.scale(6, 14)
    nobj = nset = 0
    for name in tc.CLASSES:
        if name == "Softmax" or not tc.bounds(name, {}):
            continue
        variants = tc.ctor_variants(name, rng, c02=True)
        oi = 0
        for rep in range(ctx.scale(1, 2)):
            for style in WALK_STYLES:
                for direction in WALK_DIRECTIONS:
                    oi += 1
                    opts = variants[(oi + rep) % len(variants)]
                    try:
                        first, steps = walk_plan(name, opts, rng, direction, nmax)
                    except (ValueError, OverflowError, ZeroDivisionError, KeyError, IndexError):
                        # ladders cannot be formed inside the bounds extracted from this tree (the proofs
                        # report a broken bound)
                        ctx.notes.setdefault("walk_plan_fallback", []).append(name)
                        continue
                    plan = [(style, s) for s in steps]
                    if direction == "shuffled" and plan:
                        plan.insert(1 + rng.randrange(len(plan)), ("reset", {}))
                    cm.mark({"call": "transform (walk)", "class": name, "opts": opts, "first": first, "plan": plan})
                    t, _ = tc.make(name, opts, first, via_get=oi % 4 == 2)
                    sib = tc.make(name, opts, first)[0] if oi % 2 else None
                    lad = walk_ladders(name, opts)
                    others = [{n: v[-1] for n, v in lad.items()}, {n: v[0] for n, v in lad.items()},
                              {n: rng.choice(v) for n, v in lad.items()}]
                    turn = [oi]
                    nobj += 1
                    history = [("construct", first)]
                    for si in range(len(plan) + 1):
                        if si:
                            st, changes = plan[si - 1]
                            history.append((st, changes))
                            try:
                                tc.apply_step(t, st, changes)
                            except Exception as e:      # noqa: BLE001
                                ctx.failure(f"C02/{name}/walk-set-raises",
                                            {"class": name, "opts": opts, "history": history, "exception": repr(e)},
                                            f"{name}{opts}: {st} {changes} raised {type(e).__name__}")
                                break

                        def use_sibling(history=history, turn=turn):
                            # another object of the class is given other values (top of every ladder, bottom,
                            # a shuffled vector, in turn) and called
                            turn[0] += 1
                            other = others[turn[0] % len(others)]
                            try:
                                tc.apply_step(sib, "values", {**tc.stored_values(sib), **other})
                                call_on(sib, "fwd", np.array([0.25, -0.5, 2.0]))
                                call_on(sib, "jac", np.array([0.25, -0.5, 2.0]))
                                history.append(("a sibling object set to and called (forward, jacobian)", other))
                            except Exception:           # noqa: BLE001 - the sibling is not under test
                                pass

                        if sib is not None:
                            use_sibling()
                        pattern = PATTERNS[(si + oi) % len(PATTERNS)]
                        rep0 = {"class": name, "opts": opts, "history": list(history), "direction": direction,
                                "way_of_setting": style,
                                "input_class": "walk of one used object along a ladder of values (W)"}
                        res = judge_setting(ctx, "walk", name, opts, t, rep0, rng, 4, pattern, (si + oi) % 2 == 0,
                                            use_sibling if sib is not None else None)
                        if res is False:
                            break
                        if res:
                            nset += 1
                            history.append(("judged: forward on all pairs, " + ", ".join(pattern) + ", stencil", None))
                        if (si + oi) % 3 == 0:          # the rest of the API is part of the use of an object
                            use_otherwise(t)
                            history.append(("backward, backward_censored, params_sample, params_logprior, str "
                                            "called", None))
    ctx.notes["walk_objects"] = nobj
    ctx.notes["walk_settings_judged"] = nset


def use_otherwise(t):
    """the other public methods of a transform, as a user of the object would call them between two
    evaluations (their results are not C02's matter)"""
    y = np.array([-0.5, 0.0, 0.125, 1.0])
    for f in (lambda: t.backward(y), lambda: t.backward_censored(y, 0.0), lambda: t.params_sample(3),
              lambda: t.params_logprior(), lambda: str(t)):
        try:
            with np.errstate(all="ignore"):
                f()
        except Exception:               # noqa: BLE001
            pass


def extreme_checks(ctx):
    """input class X: threshold exponents x extreme logarithms (the vectors and points of C01's class X)"""
    n = 0
    for name in ("Log", "BoxCox2", "BoxCox1lam", "BoxCox1nu", "BoxCox2sym", "YeoJohnson"):
        cm.mark({"call": "transform.jacobian (class X)", "class": name})
        alive = True
        for k, (opts, vals) in enumerate(tc.extreme_vectors(name)):
            base = opts.get("base")
            if base is not None and base < 1:           # decreasing: outside the positivity clause
                continue
            t, eff = tc.make(name, opts, vals, k % 8 == 3)
            xs = tc.extreme_points(name, opts, eff)
            if not xs:
                continue
            recs = point_records(name, opts, eff, t, xs)
            rep0 = {"class": name, "opts": opts, "values": eff,
                    "input_class": "threshold exponent x extreme logarithm (X)"}
            n += len(xs)
            alive = monotone_pairs(ctx, "extreme", name, opts, eff, rep0, t, xs)
            if alive and recs:
                alive = eval_elements(ctx, "extreme", name, opts, eff, rep0, t, recs, list(range(len(recs))),
                                      (len(recs),), lambda M: M.copy(), ("jac", "fwd"), False)
            if not alive:
                break
    ctx.notes["classX_points"] = n


def large_array_checks(ctx):
    """input class L: one call on a LARGE 1-d array (contiguous, and a strided view of a larger one) whose
    elements repeat a dozen domain points many times (ties), in an order that is not sorted: every element of
    jacobian(x) is positive and equals the derivative at ITS element (stencil of forward evaluated through
    arrays of the same size; the jacobian of a fresh object on the dozen points), forward is non-decreasing
    over the elements.  Vectorised: the clauses are those of eval_elements."""
    rng = ctx.rng
    n = ctx.scale(50021, 200003)
    nchk = 0
    for name in tc.CLASSES:
        if name == "Softmax":
            continue
        variants = tc.ctor_variants(name, rng, c02=True)
        for k in range(ctx.scale(2, 4)):
            opts = variants[k % len(variants)]
            vals = vec_k(name, opts, rng, k + 1)
            t, eff = tc.make(name, opts, vals, k % 2 == 1)
            recs = point_records(name, opts, eff, t, seam_points(name, opts, eff) + tc.points(name, opts, eff, rng, 8))
            if len(recs) < 2:
                continue
            m = len(recs)
            order = np.array([(i * 7 + (i // m)) % m for i in range(m * 3)])      # period 3m, not sorted
            sel = np.resize(order, n)
            px = np.array([r["x"] for r in recs])
            pj = np.array([r["j"] for r in recs])
            ph = np.array([r["h"] for r in recs])
            pn = np.array([r["noise"] if r["noise"] is not None else 0.0 for r in recs])
            pa = np.array([tc.amp(name, "fwd", opts, eff, r["x"], r["f"]) if r["f"] is not None and
                           math.isfinite(r["f"]) else math.inf for r in recs])
            X, H = px[sel], ph[sel]
            who = f"{name}{opts} {eff}"
            for label, build in (("C-contiguous", lambda M: M.copy()),
                                 ("strided view a[1::3] of a larger array", _r_strided)):
                fresh, _ = tc.make(name, opts, eff)
                A = build(X)
                desc = describe(A)
                rep0 = {"class": name, "opts": opts, "values": eff, "representation": label, "array": desc,
                        "input_class": "large array with ties (L)", "distinct_points": px.tolist(),
                        "x": f"distinct_points[order[i % {3 * m}]] for i < {n}", "order": order.tolist()}
                cm.mark({"call": "transform.jacobian (large array)", "class": name, "opts": opts, "vals": eff})

                def fail(mode, extra, text, rep0=rep0):
                    ctx.failure(f"C02/{name}/large-{mode}", dict(rep0, **extra), f"{who}: {text}")

                J, jshape, jerr = call_on(fresh, "jac", A)
                F, fshape, ferr = call_on(fresh, "fwd", A)
                bad = None
                for meth, out, oshape, err in (("jacobian", J, jshape, jerr), ("forward", F, fshape, ferr)):
                    if out is None:
                        bad = fail(f"{meth}-raises", {"method": meth, "exception": err},
                                   f"{meth}(x) raised {err} for x of {n} elements passed as {desc}") or True
                    elif oshape != (n,):
                        bad = fail(f"{meth}-shape", {"method": meth, "output_shape": list(oshape)},
                                   f"{meth}(x) has shape {oshape} for x of shape ({n},) passed as {desc}") or True
                    if bad:
                        break
                if bad:
                    break
                J, F = np.array(J), np.array(F)
                nchk += n
                ctx.count((name, "large", label), n=n)
                with np.errstate(all="ignore"):
                    notpos = np.flatnonzero(~(J > 0))
                    differs = np.flatnonzero(~(np.abs(J - pj[sel]) <= REL * np.abs(pj[sel])))
                if notpos.size:
                    i = int(notpos[0])
                    fail("jacobian-not-positive", {"method": "jacobian", "index": i, "x_at_index": float(X[i]),
                                                   "output": float(J[i]), "failing_elements": int(notpos.size)},
                         f"jacobian(x)[{i}] = {float(J[i])!r} is not positive at x[{i}] = {float(X[i])!r} "
                         f"({notpos.size} of {n} elements; x passed as {desc})")
                    break
                if differs.size:
                    i = int(differs[0])
                    fail("jacobian-differs-from-derivative",
                         {"method": "jacobian", "index": i, "x_at_index": float(X[i]), "output": float(J[i]),
                          "reference_jacobian": float(pj[sel][i]), "failing_elements": int(differs.size)},
                         f"jacobian(x)[{i}] = {float(J[i])!r} but the derivative of forward at x[{i}] = "
                         f"{float(X[i])!r} is {float(pj[sel][i])!r} (jacobian of a fresh object on the "
                         f"{m} distinct points); {differs.size} of {n} elements; x passed as {desc}")
                    break
                # the stencil through arrays of the same size and representation
                Fd = {}
                for d in (-2, -1, 1, 2):
                    out, _, _ = call_on(fresh, "fwd", build(X + d * H))
                    if out is None or len(out) != n:
                        Fd = None
                        break
                    Fd[d] = np.array(out)
                if Fd:
                    with np.errstate(all="ignore"):
                        fd = (Fd[-2] - 8 * Fd[-1] + 8 * Fd[1] - Fd[2]) / (12 * np.where(H > 0, H, 1.0))
                        off = np.flatnonzero((H > 0) & ~(np.abs(fd - J) <= REL * np.abs(J) + pn[sel]))
                    if off.size:
                        i = int(off[0])
                        fail("jacobian-differs-from-finite-difference",
                             {"method": "jacobian", "index": i, "x_at_index": float(X[i]), "output": float(J[i]),
                              "h": float(H[i]), "finite_difference": float(fd[i]),
                              "forward_at_stencil": [float(Fd[d][i]) for d in (-2, -1, 1, 2)],
                              "failing_elements": int(off.size)},
                             f"jacobian(x)[{i}] = {float(J[i])!r} at x[{i}] = {float(X[i])!r}, 5-point central "
                             f"difference of forward (h={float(H[i])!r}, evaluated through arrays of the same "
                             f"size) = {float(fd[i])!r}; {off.size} of {n} elements; x passed as {desc}")
                        break
                # forward non-decreasing over the elements (stable sort by x; ties must agree within rounding too)
                srt = np.argsort(X, kind="stable")
                xs_, fs_, as_ = X[srt], F[srt], pa[sel][srt]
                use = np.isfinite(fs_) & np.isfinite(as_)
                if name == "YeoJohnson":
                    w = eff["nu"] + xs_ * eff["scale"]
                    use &= ~((w > 0) & (w < tc.eps()))
                xs_, fs_, as_ = xs_[use], fs_[use], as_[use]
                if xs_.size > 1:
                    runmax = np.maximum.accumulate(fs_)
                    # index of the running maximum (first position reaching it)
                    first_at = np.flatnonzero(np.concatenate(([True], fs_[1:] > runmax[:-1])))
                    imax = first_at[np.searchsorted(first_at, np.arange(xs_.size), side="right") - 1]
                    prev = imax[:-1]
                    down = np.flatnonzero(~(fs_[prev] <= fs_[1:] + 16 * tc.U * (as_[prev] + as_[1:])))
                    if down.size:
                        q = int(down[0])
                        x1, f1 = float(xs_[prev[q]]), float(fs_[prev[q]])
                        x2, f2 = float(xs_[q + 1]), float(fs_[q + 1])
                        fail("forward-not-increasing",
                             {"method": "forward", "x1": x1, "x2": x2, "f1": f1, "f2": f2,
                              "failing_elements": int(down.size)},
                             f"forward(x) has {f1!r} at an element {x1!r} > {f2!r} at an element {x2!r} "
                             f"(x of {n} elements passed as {desc})")
                        break
    ctx.notes["large_array_elements"] = nchk


# ----------------------------------------------------------------------------
# input class F (oracle only): the FAR ENDS of the domain
#
# The other classes draw their points where C01's round trip is well conditioned (|ln(x + nu)| <= 11.5,
# a + b*x/xmax <= 40, |x - nu|*scale <= 1e6 ...).  C02's quantifier is wider: ALL interior points of the
# domain at which the stencil fits.  F walks the internal argument of every class (x for Identity, the
# distance to either end for Logit, x + nu for the logarithm / power / reciprocal family, |nu + scale*x| for
# Yeo-Johnson, a + b*x/xmax for LogSinh, (x - nu)*scale for Sinh, lam*x/xmax and x/xmax for Manly, the row
# sum and the entries for Softmax) along a ladder of magnitudes from 1e-300 to 1e300 whose rungs sit on both
# sides of every threshold of binary64 / binary32 arithmetic at which an intermediate result of SOME way of
# writing the formula overflows, underflows or is absorbed (exp: 88.7, 709.8, -745.1; exp(2w): 354.9;
# sinh / cosh: 710.5; squares: 1.3e154, 1e-154; cubes: 1e102; 1 + w == w: 2^53), with the parameters and
# constants at the far ends of their legal ranges as well (xmax from its lower bound to 1e250, scale from
# its lower bound to 1e100, nu up to 1e100, every bound of loga / logb / logdelta / lam, a tiny mininu, a
# logarithm base next to 1 and a huge one).  A point is judged where the EXACT forward value and the EXACT
# derivative are normal binary64 numbers (|ln| <= 690, computed in the log domain from the definitions, not
# from the library): there the property's clauses read
#   * forward(x) is a finite number (a function that has a derivative at x has a value at x), at x and at the
#     four stencil points;
#   * jacobian(x) is finite and > 0;
#   * jacobian(x) = 5-point central difference of forward within 1e-4 (+ the stencil's own rounding bound;
#     skipped where that bound exceeds 2e-5 |j|, as everywhere in this check);
#   * forward non-decreasing within rounding over ALL ordered pairs of the points;
#   * equality only within rounding: for neighbouring points x1 < x2 on one side of the centre of symmetry /
#     branch switch (where the derivative is monotone, so that forward grows by at least
#     min(j1, j2) (x2 - x1) between them), forward(x2) > forward(x1) whenever half of that growth exceeds
#     four times the rounding bound of the two values;
#   * mean value: for the same neighbouring points (every point has a companion a quarter of its local scale
#     further on), (forward(x2) - forward(x1)) / (x2 - x1) lies between jacobian(x1) and jacobian(x2) (widened
#     by 1e-3 and the rounding bound of the two forward values).  This sees a jacobian that is not the
#     derivative where the rounding of forward blinds the stencil (the difference is taken over 64 steps and
#     the bracket is some 10 % wide), e.g. beyond a + b*x/xmax ~ 1e6 or next to the ends of Logit.

BRACKET = 1e-3         # relative widening of the mean-value bracket (the property's 1e-4 at both ends, and to spare)
LNREP = 690.0          # e^690 = 4.7e299: |ln v| <= LNREP  =>  v is a normal binary64 number
FAR_MAGS = [1e-300, 1e-250, 1e-200, 9e-155, 2e-154, 1e-120, 1e-100, 1e-60, 1e-30, 1e-20, 1e-16, 1e-12, 1e-9,
            1e-6, 1e-3, 0.1, 1.0, 10.0, 20.0, 40.0, 88.0, 90.0, 200.0, 354.0, 356.0, 500.0, 700.0, 708.0, 709.5,
            710.2, 711.0, 744.0, 746.0, 800.0, 1e3, 2e3, 1e4, 1e5, 1e6, 1e7, 1e9, 1e12, 2.0 ** 53, 1e17, 1e20,
            1e30, 1e50, 9e101, 2e102, 1e120, 1e150, 1.3e154, 1.4e154, 1e200, 1e250, 1e300]


def far_region(name, opts, eff, x):
    """x is an interior point of the domain at which the exact value of forward and the exact derivative are
    normal binary64 numbers - judged in the log domain from the definition of the transform"""
    try:
        if not (math.isfinite(x) and abs(x) <= 1e300):
            return False
        e = tc.eps()
        ok = lambda v: abs(v) <= LNREP                                  # noqa: E731
        if name == "Identity":
            return True
        if name == "Logit":
            lo, d = eff["lower"], math.exp(eff["logdelta"])
            return x - lo > 2 * e and (lo + d) - x > 2 * e and abs(lo) <= 1e6 * d
        if name in ("Log", "BoxCox2", "BoxCox1lam", "BoxCox1nu", "BoxCox2sym"):
            o = tc.full_opts(name, opts)
            nu, lam = eff["nu"], eff.get("lam", 0.0)
            z = (abs(x) if name == "BoxCox2sym" else x) + nu
            if not (z > o.get("mininu", 0.0) and z > 0):
                return False
            lz = math.log(z)
            if name == "Log":
                bf = 1.0 if o["base"] is None else math.log(o["base"])
                return bf > 0 and ok(lz) and ok(-lz - math.log(bf)) and ok(math.log(abs(lz) + 1) - math.log(bf))
            if name == "BoxCox2sym" and not (x != 0 and nu > 0 and ok(math.log(nu)) and ok(lam * math.log(nu))):
                return False
            if abs(lam) <= e:
                return ok(lz)
            return ok(lz) and ok(max(lam * lz, 0.0) - math.log(abs(lam))) and ok((lam - 1) * lz)
        if name == "YeoJohnson":
            nu, sc, lam = eff["nu"], eff["scale"], eff["lam"]
            w = nu + x * sc
            if 0 < w < e or not math.isfinite(w):
                return False
            ex_ = lam if w >= e else 2 - lam
            lz = math.log1p(abs(w))
            lnf = max(ex_ * lz, 0.0) - (math.log(abs(ex_)) if abs(ex_) > 1e-8 else 0.0)
            # (ex_ - 1) * lz on its own too: the unchanged library forms (1 + |w|)**(ex_ - 1) before multiplying by
            # scale, which underflows to 0.0 for scale ~ 1e100 where the exact product is a normal number -
            # observed on the unchanged tree and reported (run()'s tested_not_proved), not asserted here
            return ok(lz) and ok(lnf) and ok((ex_ - 1) * lz + math.log(sc)) and ok((ex_ - 1) * lz)
        if name == "LogSinh":
            a, b, xmax = math.exp(eff["loga"]), math.exp(eff["logb"]), eff["xmax"]
            xn = x / xmax
            w = a + b * xn
            if not (xn > -a / b + 2 * e and w > 0 and w / b <= 1e299):
                return False
            lncoth = -math.log(math.tanh(w)) if w < 20 else 0.0
            return ok(lncoth - math.log(xmax)) and ok(math.log(w) - math.log(b))
        if name == "Reciprocal":
            z = eff["nu"] + x
            return z > 0 and ok(2 * math.log(z))
        if name == "Sinh":
            nu, sc = eff["nu"], eff["scale"]
            u = (x - nu) * sc
            # |u| <= 1e150: beyond 1.34e154 the unchanged library's jacobian scale/sqrt(1 + u*u) is 0.0 (u*u
            # overflows) although the exact derivative scale/|u| is a normal number - observed on the unchanged
            # tree and reported (run()'s tested_not_proved), not asserted here
            if not (math.isfinite(u) and abs(u) <= 1e150):
                return False
            return ok(math.log(sc) - (math.log(abs(u)) if abs(u) > 1e8 else 0.5 * math.log1p(u * u)))
        if name == "Manly":
            lam, xmax = eff["lam"], eff["xmax"]
            u = x / xmax
            if not (math.isfinite(u) and abs(u) <= 1e300):
                return False
            if abs(lam) <= e:
                return ok(math.log(xmax))
            return ok(max(lam * u, 0.0) - math.log(abs(lam))) and ok(lam * u - math.log(xmax))
    except (ValueError, OverflowError, ZeroDivisionError):
        return False
    raise KeyError(name)


def far_scale(name, opts, eff, x):
    """local_scale, except in the far field of LogSinh where forward is linear up to O(exp(-2w)): the step may
    grow with w (a step of 1/256 in w is lost in the rounding of forward beyond w ~ 1e6)"""
    try:
        L = local_scale(name, opts, eff, x)
        if name == "LogSinh":
            a, b = math.exp(eff["loga"]), math.exp(eff["logb"])
            w = a + b * (x / eff["xmax"])
            if w >= 40:
                L = max(L, 0.5 * w * eff["xmax"] / b)
        return L
    except (ValueError, OverflowError, ZeroDivisionError):
        return 0.0


def far_amp(name, opts, eff, x, f):
    """a priori bound of |computed forward - exact forward| / 2^-53, valid in the far field (tc.amp, except for
    Sinh whose bound there is the absolute error of u = (x - nu)*scale, not propagated through arcsinh)"""
    if name == "Sinh":
        try:
            u = (x - eff["nu"]) * eff["scale"]
            cu = max(abs(x), abs(eff["nu"])) * eff["scale"] * 2
            return cu / math.hypot(1.0, u) + abs(f) + 1.0
        except (ValueError, OverflowError, ZeroDivisionError):
            return math.inf
    return tc.amp(name, "fwd", opts, eff, x, f)


def far_side(name, eff, x):
    """label of the stretch of the domain on which the derivative of forward is monotone"""
    if name == "Logit":
        return x - eff["lower"] >= 0.5 * math.exp(eff["logdelta"])
    if name == "BoxCox2sym":
        return x >= 0
    if name == "YeoJohnson":
        return eff["nu"] + x * eff["scale"] >= tc.eps()
    if name == "Sinh":
        return x >= eff["nu"]
    return True


def far_settings(name, rng, thorough):
    """[(constructor options, values)]: the corners of the legal ranges and extreme magnitudes of the unbounded
    values; quick: a rotating subset that always contains the first (default-like) settings"""
    e = tc.eps()
    out = []
    if name == "Identity":
        return [({}, {})]
    if name == "Logit":
        b = tc.bounds(name, {})
        lo, hi = b["logdelta"][2], b["logdelta"][3]
        for ld in (0.0, lo, hi, -3.0, 5.0):
            for lower in (0.0, -1.0, 1e3, -1e5, 1e100):
                out.append(({}, {"lower": lower, "logdelta": ld}))
    elif name in ("Log", "Reciprocal"):
        optl = [{}, {"mininu": 1e-305}, {"mininu": 1.0}, {"mininu": tc.TINY_MININU}]
        if name == "Log":
            optl = [{}, {"base": 10.0}, {"mininu": 1e-305}, {"mininu": 1e-305, "base": 2.0}, {"mininu": 1.0},
                    {"base": 1.0000001}, {"base": 1e300}, {"mininu": tc.TINY_MININU, "base": 3.0}]
        for o in optl:
            lo = tc.full_opts(name, o)["mininu"]
            for nu in (lo, lo + 1.0, 1e100, lo + 1e-3):
                out.append((dict(o), {"nu": nu}))
    elif name in ("BoxCox2", "BoxCox1lam", "BoxCox1nu", "BoxCox2sym"):
        for o in ({}, {"minilam": -3.0}, {"mininu": 1e-305, "minilam": -1.0}, {"mininu": 1.0, "minilam": -1.0}):
            b = tc.bounds(name, o)
            lo, llo, lhi = b["nu"][2], b["lam"][2], b["lam"][3]
            for k, lam in enumerate([1.0, 0.0, llo, lhi, 0.2, -1.0, e, 2.0, -0.5, 1e-3, 0.5, 1.5, -2.0, -e, 1e-5]):
                if not llo <= lam <= lhi:
                    continue
                for nu in ((lo, 1e100), (lo + 1.0, lo + 1e-3))[k % 2]:
                    out.append((dict(o), {"nu": nu, "lam": lam}))
    elif name == "YeoJohnson":
        b = tc.bounds(name, {})
        slo = b["scale"][2]
        combos = [(0.0, 1.0), (0.5, slo), (-3.0, 1e3), (0.0, 1e100), (1e50, slo), (0.0, slo), (-1e5, 1.0)]
        for k, lam in enumerate([1.0, 0.0, 2.0, b["lam"][2], b["lam"][3], 0.5, 1.5, 2.5, -0.5, 1e-6, 2.0 - 1e-3,
                                 2.0 + 1e-3, 1e-9]):
            for j in range(3):
                nu, sc = combos[(k + 2 * j) % len(combos)]
                out.append(({}, {"nu": nu, "scale": sc, "lam": lam}))
    elif name == "LogSinh":
        b = tc.bounds(name, {})
        las = [-1.0, b["loga"][2], b["loga"][3], -5.0]
        lbs = [0.0, b["logb"][3], b["logb"][2], 1.0]
        xms = [1.0, 37.0, b["xmax"][2], 1e-5, 1e5, 1e100, 1e250, 0.5]
        k = 0
        for lb in lbs:
            for la in las:
                for xm in xms:
                    out.append(({}, {"loga": la, "logb": lb, "xmax": xm}))
                    k += 1
    elif name == "Sinh":
        b = tc.bounds(name, {})
        for sc in (1.0, b["scale"][2], 1e-3, 1e3, 1e100):
            for nu in (0.0, 1.0, -1e5, 1e100):
                out.append(({}, {"nu": nu, "scale": sc}))
    elif name == "Manly":
        b = tc.bounds(name, {})
        for lam in (0.1, 0.0, b["lam"][2], b["lam"][3], 1.0, -1.0, 1e-3, -1e-3, e, 1e-5, -1e-5):
            for xm in (1.0, b["xmax"][2], 1e-3, 1e4, 1e100):
                out.append(({}, {"lam": lam, "xmax": xm}))
    else:
        raise KeyError(name)
    if thorough:
        # + parameter vectors of C01's generator (branch values, one ulp either side, log-uniform magnitudes)
        for o in tc.ctor_variants(name, rng, c02=True):
            for v in tc.param_vectors(name, o, rng, 12):
                out.append((dict(o), v))
        return out
    keep = {"Logit": 9, "Log": 14, "Reciprocal": 8, "LogSinh": 40, "YeoJohnson": 16, "Sinh": 10, "Manly": 20}.get(name, 22)
    if len(out) <= keep:
        return out
    head = out[:keep // 2]
    rest = out[keep // 2:]
    rng.shuffle(rest)
    return head + rest[:keep - len(head)]


def far_points(name, opts, eff, rng, nextra):
    """points whose internal argument runs over FAR_MAGS (+ `nextra` log-uniform magnitudes), both signs /
    both ends where the domain has them; not yet filtered by far_region"""
    mags = list(FAR_MAGS) + [10 ** rng.uniform(-300, 300) for _ in range(nextra)] + \
        [10 ** rng.uniform(1, 4) for _ in range(nextra)]
    xs = []
    try:
        if name == "Identity":
            xs = [s * m for m in mags for s in (1, -1)] + [0.0]
        elif name == "Logit":
            lo, d = eff["lower"], math.exp(eff["logdelta"])
            for m in mags:
                if m <= 0.5:
                    xs += [lo + m * d, (lo + d) - m * d]
            xs += [lo + d * 2.0 ** -k for k in (1, 2, 30, 40, 45, 50)] + [(lo + d) - d * 2.0 ** -k for k in (2, 30, 40, 45, 50)]
        elif name in ("Log", "BoxCox2", "BoxCox1lam", "BoxCox1nu", "Reciprocal"):
            nu = eff["nu"]
            lo = tc.full_opts(name, opts).get("mininu", 0.0)
            xs = [m - nu for m in mags] + [m for m in mags] + [lo * (1 + 2.0 ** -k) - nu for k in (0, 10, 30)]
        elif name == "BoxCox2sym":
            nu = eff["nu"]
            xs = [s * m for m in mags for s in (1, -1)] + [s * (m - nu) for m in mags for s in (1, -1) if m > nu]
        elif name == "YeoJohnson":
            nu, sc = eff["nu"], eff["scale"]
            xs = [(s * m - nu) / sc for m in mags for s in (1, -1)] + [(0.0 - nu) / sc, (tc.eps() - nu) / sc]
        elif name == "LogSinh":
            a, b, xmax = math.exp(eff["loga"]), math.exp(eff["logb"]), eff["xmax"]
            xs = [((m - a) / b) * xmax for m in mags] + [m * xmax for m in mags] + \
                 [(-a / b + tc.eps() * (1 + k)) * xmax for k in (1.0, 3.0, 1e3, 1e6)]
        elif name == "Sinh":
            nu, sc = eff["nu"], eff["scale"]
            xs = [s * m / sc + nu for m in mags for s in (1, -1)] + [nu]
        elif name == "Manly":
            lam, xmax = eff["lam"], eff["xmax"]
            xs = [s * m * xmax for m in mags for s in (1, -1)] + [0.0]
            if lam != 0:
                xs += [(s * m / lam) * xmax for m in mags for s in (1, -1)]
    except (ValueError, OverflowError, ZeroDivisionError):
        pass
    return [float(x) for x in xs if isinstance(x, float) and math.isfinite(x)]


def far_judge(ctx, name, opts, eff, t, xs, rep0):
    """the clauses of the property (header of class F) for the values `t` holds, on the points of xs inside
    far_region.  Returns the number of points judged."""
    inside = lambda x: far_region(name, opts, eff, x) and far_scale(name, opts, eff, x) > 0      # noqa: E731
    xs = {x for x in xs if inside(x)}
    # a companion a quarter of the local scale further on (same stretch): the pair brackets the derivative
    # over a distance 64 times the stencil's step
    for x in list(xs):
        c = x + 0.25 * far_scale(name, opts, eff, x)
        if c != x and inside(c) and far_side(name, eff, c) == far_side(name, eff, x):
            xs.add(c)
    xs = sorted(xs)
    if len(xs) < 1:
        return 0
    who = f"{name}{opts} {eff}"
    n = len(xs)
    X = np.array(xs, dtype=np.float64)
    rep0 = dict(rep0, x=xs)
    region = ("an interior point of the domain where the exact forward value and the exact derivative are normal "
              "binary64 numbers")

    def fail(mode, extra, text):
        ctx.failure(f"C02/{name}/far-{mode}", dict(rep0, **extra), f"{who}: {text}")

    J, jshape, jerr = call_on(t, "jac", X.copy())
    F, fshape, ferr = call_on(t, "fwd", X.copy())
    for meth, out, oshape, err in (("jacobian", J, jshape, jerr), ("forward", F, fshape, ferr)):
        if out is None:
            fail(f"{meth}-raises", {"method": meth, "exception": err},
                 f"{meth}(x) raised {err} for x = {xs}, all interior points of the domain")
            return 0
        if oshape != (n,):
            fail(f"{meth}-shape", {"method": meth, "output_shape": list(oshape)},
                 f"{meth}(x) has shape {oshape} for x of shape ({n},)")
            return 0
    good = []
    for i, x in enumerate(xs):
        j, f = J[i], F[i]
        ctx.count((name, "far", "point", far_side(name, eff, x), math.floor(math.log10(abs(x))) // 25 if x else 0))
        okp = True
        if not j > 0:
            okp = False
            fail("jacobian-not-positive", {"method": "jacobian", "x_at_index": x, "index": i, "output": j},
                 f"jacobian({x!r}) = {j!r} is not positive at {region}")
        elif not math.isfinite(j):
            okp = False
            fail("jacobian-not-finite", {"method": "jacobian", "x_at_index": x, "index": i, "output": j},
                 f"jacobian({x!r}) = {j!r} at {region}: it is not the derivative of forward")
        if not math.isfinite(f):
            okp = False
            fail("forward-not-finite", {"method": "forward", "x_at_index": x, "index": i, "output": f,
                                        "jacobian": j},
                 f"forward({x!r}) = {f!r} at {region} (jacobian there: {j!r}): forward has no derivative at x")
        if okp:
            good.append(i)
    # ---- the stencil (vectorised over the points at which it fits)
    if not noisy_params(name, eff):
        S, H = [], []
        for i in good:
            x = xs[i]
            L = far_scale(name, opts, eff, x)
            if not (math.isfinite(L) and L > 0):
                continue
            h = 2.0 ** math.floor(math.log2(L / 256))
            pts = [x - 2 * h, x - h, x + h, x + 2 * h]
            if not ((pts[2] - x) == h and (x - pts[1]) == h and (pts[3] - x) == 2 * h and (x - pts[0]) == 2 * h):
                continue
            if not all(far_region(name, opts, eff, p) and far_scale(name, opts, eff, p) > 0 for p in pts):
                continue
            S.append(i)
            H.append(h)
        if S:
            Xs, Hs = X[S], np.array(H)
            Fd = {}
            for d in (-2, -1, 1, 2):
                out, _, err = call_on(t, "fwd", Xs + d * Hs)
                if out is None or len(out) != len(S):
                    fail("forward-raises", {"method": "forward", "exception": err, "x": (Xs + d * Hs).tolist()},
                         f"forward(x) raised {err} (or lost elements) for x = {(Xs + d * Hs).tolist()}, all "
                         "interior points of the domain")
                    Fd = None
                    break
                Fd[d] = out
            for q, i in enumerate(S if Fd else []):
                x, h, j = xs[i], H[q], J[i]
                fv = [Fd[d][q] for d in (-2, -1, 1, 2)]
                pts = [x - 2 * h, x - h, x + h, x + 2 * h]
                bad = [(p, v) for p, v in zip(pts, fv) if not math.isfinite(v)]
                if bad:
                    fail("forward-not-finite", {"method": "forward", "x_at_index": bad[0][0], "output": bad[0][1],
                                                "stencil_centre": x, "h": h, "jacobian": j},
                         f"forward({bad[0][0]!r}) = {bad[0][1]!r} at {region} (stencil point of x = {x!r}, "
                         f"h = {h!r}; jacobian(x) = {j!r}): the derivative of forward does not exist there")
                    continue
                af = max(far_amp(name, opts, eff, p, v) for p, v in zip(pts, fv))
                noise = 32 * tc.U * af / h if math.isfinite(af) else math.inf
                if not noise <= 2e-5 * abs(j):
                    continue
                fd = (fv[0] - 8 * fv[1] + 8 * fv[2] - fv[3]) / (12 * h)
                ctx.count((name, "far", "stencil", far_side(name, eff, x)))
                if not abs(fd - j) <= REL * abs(j) + noise:
                    fail("jacobian-differs-from-finite-difference",
                         {"method": "jacobian", "x_at_index": x, "index": i, "output": j, "h": h,
                          "finite_difference": fd, "forward_at_stencil": fv},
                         f"jacobian({x!r}) = {j!r}, 5-point central difference of forward (h={h!r}) = {fd!r}")
    # ---- forward over all ordered pairs (running maximum) and equality only within rounding (neighbours)
    A = [far_amp(name, opts, eff, x, f) if math.isfinite(f) else math.inf for x, f in zip(xs, F)]
    best = None
    prev = None
    for i, x in enumerate(xs):
        f, a = F[i], A[i]
        if not (math.isfinite(f) and math.isfinite(a)):
            continue
        ctx.count((name, "far", "monotone"))
        if best is not None and not best[0] <= f + 16 * tc.U * (best[2] + a):
            fail("forward-not-increasing", {"method": "forward", "x1": best[1], "x2": x, "f1": best[0], "f2": f},
                 f"forward({best[1]!r}) = {best[0]!r} > forward({x!r}) = {f!r} (both in one call)")
            break
        if best is None or f > best[0]:
            best = (f, x, a)
        if prev is not None and i in good and prev in good and far_side(name, eff, xs[prev]) == far_side(name, eff, x):
            x1, f1, a1 = xs[prev], F[prev], A[prev]
            with np.errstate(all="ignore"):
                dx = np.float64(x) - np.float64(x1)
                lo_, hi_ = float(min(J[prev], J[i]) * dx), float(max(J[prev], J[i]) * dx)
            slack = 16 * tc.U * (a1 + a)
            if 0.5 * lo_ > 4 * slack and not f > f1:
                fail("forward-not-strictly-increasing",
                     {"method": "forward", "x1": x1, "x2": x, "f1": f1, "f2": f, "j1": J[prev], "j2": J[i]},
                     f"forward({x1!r}) = {f1!r} and forward({x!r}) = {f!r} although the derivative is at least "
                     f"{min(J[prev], J[i])!r} between them (jacobian at the two points, monotone in between): "
                     "equality beyond rounding")
                break
            # mean value: forward(x2) - forward(x1) = derivative at some point between, which lies between the
            # derivatives at the two ends
            ctx.count((name, "far", "bracket", far_side(name, eff, x)))
            if not (lo_ * (1 - BRACKET) - slack <= f - f1 <= hi_ * (1 + BRACKET) + slack):
                fail("jacobian-differs-from-secant",
                     {"method": "jacobian", "x1": x1, "x2": x, "f1": f1, "f2": f, "j1": J[prev], "j2": J[i],
                      "secant": (f - f1) / float(dx)},
                     f"(forward({x!r}) - forward({x1!r})) / (x2 - x1) = {(f - f1) / float(dx)!r} is not between "
                     f"jacobian({x1!r}) = {J[prev]!r} and jacobian({x!r}) = {J[i]!r} (the derivative of forward is "
                     "monotone between these points: by the mean value theorem jacobian is not the derivative of "
                     "forward at one of them)")
                break
        prev = i
    return n


def far_softmax(ctx):
    """class F for Softmax: rows whose entries are all tiny (product down to 1e-300) and rows whose sum comes
    within 2e-10 .. 1e-2 of 1 (entries of comparable size, so that one stencil step fits every column)"""
    from hydrodiy.stat import transform as T
    rng = ctx.rng
    njudged = 0
    for k in range(ctx.scale(24, 120)):
        nc = [1, 2, 3, 5, 4][k % 5]
        g = [rng.uniform(0.5, 1.5) for _ in range(nc)]
        tot = sum(g)
        tiny = [1e-280, 1e-200, 1e-100, 1e-55, 1e-30, 1e-12, 1e-5]
        near = [1e-2, 1e-4, 1e-6, 1e-8, 2e-9, 3e-10]
        if k % 2 == 0:
            s = tiny[(k // 2) % len(tiny)]
        else:
            s = 1.0 - near[(k // 2) % len(near)]
        row = [v / tot * s for v in g]
        ssum = float(np.sum(np.array(row)))
        lnprod = sum(math.log(v) for v in row)
        if not (1 - ssum > 2 * tc.eps() and abs(lnprod) <= LNREP and abs(lnprod + math.log(1 - ssum)) <= LNREP):
            continue
        sm = T.Softmax() if k % 3 else T.get_transform("Softmax")
        R = np.array([row], dtype=np.float64)
        rep0 = {"class": "Softmax", "rows": R.tolist(), "input_class": "far ends of the domain (F)"}
        cm.mark({"call": "Softmax (far)", "rows": R.tolist()})

        def fail(mode, extra, text, rep0=rep0):
            ctx.failure(f"C02/Softmax/far-{mode}", dict(rep0, **extra), f"Softmax: {text}")

        J, _, jerr = call_on(sm, "jac", R.copy())
        Fw, _, ferr = call_on(sm, "fwd", R.copy())
        njudged += 1
        ctx.count(("Softmax", "far", nc, k % 2, (k // 2) % 7))
        if J is None or Fw is None:
            meth, err = ("jacobian", jerr) if J is None else ("forward", ferr)
            fail(f"{meth}-raises", {"method": meth, "exception": err},
                 f"{meth}(x) raised {err} for the row x = {row} (entries > 0, 1 - sum = {1 - ssum!r} > 2 EPS): "
                 "inside the domain")
            continue
        j = J[0]
        if not (j > 0 and math.isfinite(j)):
            fail("jacobian-not-positive", {"method": "jacobian", "output": j},
                 f"jacobian(x) = {j!r} for the row x = {row}, where the exact determinant exp({-lnprod!r}) / "
                 f"{1 - ssum!r} is a normal binary64 number")
            continue
        if not all(math.isfinite(v) for v in Fw):
            fail("forward-not-finite", {"method": "forward", "output": Fw},
                 f"forward(x) = {Fw} for the row x = {row} inside the domain")
            continue
        # determinant of the partial derivatives where the stencil is accurate (no cancellation in 1 - sum
        # beyond 1e-4 of it; the step fits every column because the entries are of one size)
        if 1 - ssum >= 1e-4:
            dets = softmax_fd_dets(lambda M: call_on(sm, "fwd", M)[0], R)
            if dets is None or not math.isfinite(dets[0]):
                fail("forward-not-finite", {"method": "forward", "determinant": None if dets is None else dets[0]},
                     f"forward raised or is not finite at a stencil point of the row x = {row} inside the domain")
            elif not abs(dets[0] - j) <= REL * abs(j):
                fail("jacobian-differs-from-determinant", {"method": "jacobian", "output": j, "determinant": dets[0]},
                     f"jacobian(x) = {j!r} but the determinant of the 5-point partial derivatives of forward at "
                     f"the row x = {row} is {dets[0]!r}")
    ctx.notes["classF_softmax_rows"] = njudged


def far_checks(ctx):
    """input class F"""
    rng = ctx.rng
    npts = nset = 0
    for name in tc.CLASSES:
        if name == "Softmax":
            continue
        for k, (opts, vals) in enumerate(far_settings(name, rng, ctx.thorough)):
            cm.mark({"call": "transform (far ends)", "class": name, "opts": opts, "vals": vals})
            try:
                t, eff = tc.make(name, opts, vals, k % 2 == 1)
            except Exception:           # noqa: BLE001 - a setting the constructor refuses is not a point of F
                continue
            if any(not math.isfinite(v) for v in eff.values()):
                continue
            rep0 = {"class": name, "opts": opts, "values": eff, "via_get_transform": k % 2 == 1,
                    "input_class": "far ends of the domain (F)"}
            m = far_judge(ctx, name, opts, eff, t, far_points(name, opts, eff, rng, ctx.scale(2, 12)), rep0)
            npts += m
            nset += 1 if m else 0
    far_softmax(ctx)
    ctx.notes["classF_settings"] = nset
    ctx.notes["classF_points"] = npts


# ----------------------------------------------------------------------------
# input class B (oracle only): values REQUESTED BEYOND THEIR BOUNDS
#
# The bounds of the parameters and constants (scale >= 1e-5, xmax >= 1e-10, nu >= mininu, lam in [minilam, 3],
# loga <= 0 ...) are what keeps every branch of forward increasing; the library is meant to clip a requested
# value to them (or to reject it: NaN).  The other classes only ever REQUEST values inside the bounds.  B asks
# for values beyond them - one ulp outside, just outside, at zero, with the opposite sign, the negative of
# legal values, far outside (1e6, 1e300), -inf / +inf towards a finite bound, NaN - for every parameter and
# constant of every class, at both ends, through EVERY route by which a value can be set: t.name = v,
# t[name] = v, t.params[name] = v, t.params.name = v, t.params.values = [...] (one element beyond, and all of
# them at once), get_transform(name, ..., name=v), on objects that were used before, with legal changes and
# reset() in between.  Whatever values the object holds after a request - clipped, kept (the request raised),
# or stored as asked - are values of a transform the user now works with, i.e. a state the property
# quantifies over: the clauses are judged on the object AS IT IS, not on a freshly built twin:
#   * at every point around which forward has finite values on the whole 5-point stencil (the stencil's step
#     from the local scale of the values the object holds; the sign-carrying values scale / xmax enter forward
#     only through scale*x, (x - nu)*scale, x/xmax, so the smooth stretch for a negative one is the mirror image
#     of that for its absolute value): jacobian(x) is a number > 0;
#   * jacobian(x) = the 5-point central difference of forward within 1e-4 (+ the stencil's rounding bound, as
#     everywhere in this check; only where the differences with steps h and h/2 agree within 2e-5);
#   * forward non-decreasing within rounding over ALL ordered pairs of these points.
# Where the object ends in a state that a fresh object reproduces (the case on the unchanged tree: every route
# clips or rejects), the full judgement of class W (seams, reference jacobian of a fresh object) is applied
# too, once per (route, state).  The report names the request that led to the state.  That a route clips is
# NOT asserted (an unclipped lam = 3.5 keeps the property): the outcome of every request is counted in the
# notes (`classB_outcomes`).

BEYOND_ROUTES = WALK_STYLES + ("values-all", "get_transform")


def beyond_requests(name, opts):
    """[(value name, requested value, description)] - requests beyond each finite bound of each value"""
    b = tc.bounds(name, opts)
    lad = walk_ladders(name, opts)
    out = []
    for n in sorted(b):
        lo, hi = b[n][2], b[n][3]
        legal = [v for v in lad.get(n, []) if v != 0]
        if math.isfinite(lo):
            d = abs(lo) if lo != 0 else 1.0
            c = [(math.nextafter(lo, -math.inf), "one ulp below the lower bound"),
                 (lo - 1e-3 * d, "just below the lower bound"),
                 (lo - d, "below the lower bound by its own size"),
                 (lo - 3 * d, "below the lower bound by three times its size"),
                 (-1.0 - abs(lo), "below the lower bound by more than 1"),
                 (-2.0 - 2 * abs(lo), "below the lower bound by more than 2"),
                 (-1e6 * max(1.0, d), "far below the lower bound"),
                 (-1e300, "far below the lower bound"),
                 (-math.inf, "-inf")]
            c += [(-abs(v), "the negative of a legal value") for v in legal]
            out += [(n, float(v), f"{what}; bounds [{lo!r}, {hi!r}]") for v, what in c if v < lo]
        if math.isfinite(hi):
            d = abs(hi) if hi != 0 else 1.0
            c = [(math.nextafter(hi, math.inf), "one ulp above the upper bound"),
                 (hi + 1e-3 * d, "just above the upper bound"),
                 (hi + d, "above the upper bound by its own size"),
                 (hi + 3 * d, "above the upper bound by three times its size"),
                 (1e6 * max(1.0, d), "far above the upper bound"),
                 (1e300, "far above the upper bound"),
                 (math.inf, "+inf")]
            c += [(abs(v), "a legal value of the other sign") for v in legal if hi <= 0]
            out += [(n, float(v), f"{what}; bounds [{lo!r}, {hi!r}]") for v, what in c if v > hi]
        if math.isfinite(lo) or math.isfinite(hi):
            out.append((n, math.nan, f"NaN; bounds [{lo!r}, {hi!r}]"))
    seen, uniq = set(), []
    for n, v, what in out:
        key = (n, repr(v))
        if key not in seen:
            seen.add(key)
            uniq.append((n, v, what))
    return uniq


def mirrored(name, eff, x):
    """(values, point) giving forward the same internal argument, with scale / xmax made positive"""
    v = dict(eff)
    if name == "YeoJohnson" and v["scale"] < 0:
        v["scale"], x = -v["scale"], -x
    elif name == "Sinh" and v["scale"] < 0:
        v["scale"], x = -v["scale"], 2 * v["nu"] - x
    elif name in ("LogSinh", "Manly") and v["xmax"] < 0:
        v["xmax"], x = -v["xmax"], -x
    return v, x


def as_is_scale(name, opts, eff, x):
    """local_scale for whatever finite values the object holds; 0.0 where it cannot be formed"""
    try:
        v, xm = mirrored(name, eff, x)
        L = local_scale(name, opts, v, xm)
        return L if math.isfinite(L) and L > 0 else 0.0
    except (ValueError, OverflowError, ZeroDivisionError, KeyError):
        return 0.0


def judge_as_is(ctx, name, opts, t, rep0, request, rng, canonical):
    """the clauses of the property on the object `t` as it is (header of class B).  None: nothing could be
    judged, else True / False (reported)"""
    eff = tc.stored_values(t)
    if not all(math.isfinite(v) for v in eff.values()):
        return None                     # a value that is not a number: "to be set" (constants) - no domain
    b = tc.bounds(name, opts)
    legal = {n: min(max(v, b[n][2]), b[n][3]) for n, v in eff.items()}
    try:
        xs = seam_points(name, opts, legal) + tc.points(name, opts, legal, rng, 5)
    except (ValueError, OverflowError, ZeroDivisionError):
        return None
    if not canonical:
        # the stretch of a negative scale / xmax is the mirror image
        xs = xs + [-x for x in xs] + ([2 * eff["nu"] - x for x in xs] if name == "Sinh" else [])
        # the same internal arguments x + nu resp. (x - lower) / delta for the values held
        if name in ("Log", "BoxCox2", "BoxCox1lam", "BoxCox1nu", "Reciprocal"):
            xs = xs + [x + (legal["nu"] - eff["nu"]) for x in xs]
        elif name == "Logit":
            try:
                r = math.exp(eff["logdelta"] - legal["logdelta"])
                xs = xs + [eff["lower"] + (x - eff["lower"]) * r for x in xs]
            except OverflowError:
                pass
    Ls = [as_is_scale(name, opts, eff, x) for x in xs]
    pts = {}
    for x, L in zip(xs, Ls):
        if not (L > 0 and math.isfinite(x)) or x in pts:
            continue
        h = 2.0 ** math.floor(math.log2(L / 256))
        p = [x - 2 * h, x - h, x + h, x + 2 * h, x - h / 2, x + h / 2]
        if not ((p[2] - x) == h and (x - p[1]) == h and (p[3] - x) == 2 * h and (x - p[0]) == 2 * h and
                (p[5] - x) == h / 2 and (x - p[4]) == h / 2):
            continue
        pts[x] = h
    if not pts:
        return None
    xs = sorted(pts)
    X = np.array(xs, dtype=np.float64)
    H = np.array([pts[x] for x in xs])
    who = f"{name}{opts}"
    state = f"after the request {request} the object holds {eff}"
    rep0 = dict(rep0, values=eff, x=xs, request=request)

    def fail(mode, extra, text):
        ctx.failure(f"C02/{name}/beyond-{mode}", dict(rep0, **extra), f"{who}: {state}; {text}")
        return False

    Fd = {}
    for d in (0.0, -2.0, -1.0, 1.0, 2.0, -0.5, 0.5):
        out, _, err = call_on(t, "fwd", X + d * H)
        if out is None or len(out) != len(xs):
            if canonical and d == 0.0:
                return fail("forward-raises", {"method": "forward", "exception": err},
                            f"forward(x) raised {err} (or lost elements) for the domain points x = {xs}")
            return None
        Fd[d] = out
    inner = [i for i in range(len(xs)) if all(math.isfinite(Fd[d][i]) for d in Fd)]
    if name == "YeoJohnson":
        inner = [i for i in inner if not 0 < eff["nu"] + xs[i] * eff["scale"] < tc.eps()]
    if not inner:
        return None
    J, _, jerr = call_on(t, "jac", X.copy())
    if J is None or len(J) != len(xs):
        return fail("jacobian-raises", {"method": "jacobian", "exception": jerr},
                    f"jacobian(x) raised {jerr} (or lost elements) for x = {xs} although forward has finite values "
                    f"around x = {[xs[i] for i in inner]}")
    ctx.count((name, "beyond", "canonical" if canonical else "as stored"), n=len(inner))
    noisy = noisy_params(name, eff)
    best = None
    for i in inner:
        x, h, j, f = xs[i], pts[xs[i]], J[i], Fd[0.0][i]
        v, xm = mirrored(name, eff, x)
        if not (j > 0 and math.isfinite(j)) and (canonical or j < 0 or math.isnan(j) or far_region(name, opts, v, xm)):
            # (0.0 / inf in a state no fresh object reproduces: reported where the exact derivative is a normal
            # number - e.g. not for an exponent of -1e6 stored unclipped, whose derivative underflows)
            return fail("jacobian-not-positive", {"method": "jacobian", "x_at_index": x, "index": i, "output": j,
                                                  "forward": f},
                        f"jacobian({x!r}) = {j!r} is not a positive number although forward has finite values "
                        f"around x (forward({x!r}) = {f!r}, forward({x + h!r}) = {Fd[1.0][i]!r})")
        if not (j > 0 and math.isfinite(j)):
            continue
        a = tc.amp(name, "fwd", opts, v, xm, f)
        # ---- the stencil
        if not noisy and math.isfinite(a):
            fv = [Fd[d][i] for d in (-2.0, -1.0, 1.0, 2.0)]
            fd = (fv[0] - 8 * fv[1] + 8 * fv[2] - fv[3]) / (12 * h)
            fd2 = (fv[1] - 8 * Fd[-0.5][i] + 8 * Fd[0.5][i] - fv[2]) / (6 * h)
            af = max([a] + [tc.amp(name, "fwd", opts, *mirrored(name, eff, x + d * h), Fd[d][i])
                            for d in (-2.0, -1.0, 1.0, 2.0)])
            noise = 64 * tc.U * af / h if math.isfinite(af) else math.inf
            if noise <= 2e-5 * abs(j) and abs(fd - fd2) <= 2e-5 * abs(fd2):
                ctx.count((name, "beyond", "stencil"))
                if not abs(fd2 - j) <= REL * abs(j) + noise + abs(fd - fd2):
                    return fail("jacobian-differs-from-finite-difference",
                                {"method": "jacobian", "x_at_index": x, "index": i, "output": j, "h": h / 2,
                                 "finite_difference": fd2, "finite_difference_h": fd},
                                f"jacobian({x!r}) = {j!r}, 5-point central difference of forward = {fd2!r} "
                                f"(h={h / 2!r}; {fd!r} with h={h!r})")
        # ---- forward over all ordered pairs
        if math.isfinite(a):
            if best is not None and not best[0] <= f + 16 * tc.U * (best[2] + a):
                return fail("forward-not-increasing",
                            {"method": "forward", "x1": best[1], "x2": x, "f1": best[0], "f2": f},
                            f"forward({best[1]!r}) = {best[0]!r} > forward({x!r}) = {f!r} (both in one call)")
            if best is None or f > best[0]:
                best = (f, x, a)
    return True


def beyond_checks(ctx):
    """input class B"""
    from hydrodiy.stat import transform as T
    rng = ctx.rng
    outcomes = {}
    nreq = njudged = nfull = 0
    for name in tc.CLASSES:
        if name == "Softmax" or not tc.bounds(name, {}):
            continue
        variants = tc.ctor_variants(name, rng, c02=True)
        nvar = ctx.scale(1, len(variants))
        for ri, route in enumerate(BEYOND_ROUTES):
            for vi in range(nvar):
                opts = variants[(ri + vi) % len(variants)]
                try:
                    reqs = beyond_requests(name, opts)
                    lad = walk_ladders(name, opts)
                    first = {n: v[(ri + vi) % len(v)] for n, v in lad.items()}
                except (ValueError, OverflowError, ZeroDivisionError, KeyError, IndexError):
                    ctx.notes.setdefault("beyond_plan_fallback", []).append(name)
                    continue
                b = tc.bounds(name, opts)
                cm.mark({"call": "transform (requests beyond the bounds)", "class": name, "opts": opts,
                         "route": route, "first": first})
                t, _ = tc.make(name, opts, first, via_get=(ri + vi) % 2 == 1)
                call_on(t, "fwd", np.array([0.25, -0.5, 2.0]))
                call_on(t, "jac", np.array([0.25, -0.5, 2.0]))
                history = [("construct", first)]
                full_done = set()
                pending = []
                if route == "values-all":
                    # every value of a vector beyond a bound at once: the k-th request of each name together
                    by = {}
                    for n, v, what in reqs:
                        by.setdefault(n, []).append((v, what))
                    steps = []
                    for k in range(max(len(v) for v in by.values())):
                        ch = {n: by[n][k % len(by[n])][0] for n in by}
                        steps.append((ch, "; ".join(f"{n}: {by[n][k % len(by[n])][1]}" for n in sorted(by))))
                else:
                    steps = [({n: v}, what) for n, v, what in reqs]
                if not ctx.thorough:
                    rng.shuffle(steps)          # the order of the requests varies with the seed; all are made
                alive = True
                for si, (changes, what) in enumerate(steps):
                    style = "values" if route == "values-all" else route
                    shown = {"attr": "t.{n} = {v!r}", "item": "t[{n!r}] = {v!r}",
                             "vector-item": "t.params / t.constants[{n!r}] = {v!r}",
                             "vector-attr": "t.params / t.constants.{n} = {v!r}",
                             "values": "values = [...] with {n} = {v!r}",
                             "get_transform": "get_transform(..., {n}={v!r})"}[style]
                    request = ", ".join(shown.format(n=n, v=v) for n, v in sorted(changes.items())) + f" ({what})"
                    nreq += 1
                    raised = None
                    try:
                        with np.errstate(all="ignore"):
                            if route == "get_transform":
                                cur = tc.stored_values(t)
                                kw = {n: v for n, v in {**cur, **changes}.items()
                                      if not (math.isnan(v) and n not in changes)}
                                t = T.get_transform(name, **dict(opts), **kw)
                            else:
                                tc.apply_step(t, style, changes)
                    except Exception as e:      # noqa: BLE001 - a rejected request is a legitimate outcome
                        raised = f"{type(e).__name__}: {e}"
                    history.append((request, "raised " + raised if raised else "accepted"))
                    try:
                        eff = tc.stored_values(t)
                    except Exception as e:      # noqa: BLE001
                        ctx.failure(f"C02/{name}/beyond-object-unusable",
                                    {"class": name, "opts": opts, "history": history, "exception": repr(e)},
                                    f"{name}{opts}: after the request {request} the values of the object cannot "
                                    f"be read ({type(e).__name__}: {e})")
                        break
                    stored = all((v == eff[n]) or (math.isnan(v) and math.isnan(eff[n])) for n, v in changes.items())
                    inb = all(math.isnan(v) or b[n][2] <= v <= b[n][3] for n, v in eff.items())
                    oc = ("raised" if raised else "stored as requested" if stored else
                          "clipped into the bounds" if inb else "changed, outside the bounds")
                    key = f"{route}: {oc}" + ("" if inb else " [the object holds values outside the bounds]")
                    outcomes[key] = outcomes.get(key, 0) + 1
                    canonical = False
                    if all(math.isfinite(v) for v in eff.values()):
                        try:
                            canonical = tc.make(name, opts, eff)[1] == eff
                        except Exception:       # noqa: BLE001
                            canonical = False
                    rep0 = {"class": name, "opts": opts, "history": list(history), "route": route,
                            "outcome_of_the_request": oc,
                            "input_class": "values requested beyond their bounds (B)"}
                    # the requests made since the object last held values a fresh object reproduces
                    pending = ([] if canonical else pending) + [request]
                    res = judge_as_is(ctx, name, opts, t, rep0, "; then ".join(pending[-4:]), rng, canonical)
                    if res is False:
                        alive = False
                        break
                    njudged += 1 if res else 0
                    skey = tuple(sorted(eff.items()))
                    if canonical and skey not in full_done and len(full_done) < ctx.scale(3, 12):
                        full_done.add(skey)
                        nfull += 1
                        rep1 = dict(rep0, request=request)
                        if judge_setting(ctx, "beyond", name, opts, t, rep1, rng, 3,
                                         PATTERNS[(si + ri) % len(PATTERNS)], si % 2 == 0) is False:
                            alive = False
                            break
                    # a value that is not a number (NaN accepted by the constants: "to be set"; an infinity stored)
                    # leaves no domain to judge: it is set to a legal value again before the next request
                    for n, v in eff.items():
                        if not math.isfinite(v):
                            try:
                                (t.params if b[n][0] == "params" else t.constants)[n] = first[n]
                                history.append((f"{n} set to {first[n]!r} again (it was {v!r})", None))
                            except Exception:   # noqa: BLE001
                                pass
                    # a legal change / a reset through the API in between: in -> out -> in
                    if si % 4 == 3 and route != "get_transform":
                        n = sorted(lad)[(si // 4) % len(lad)]
                        ch = {n: rng.choice(lad[n])}
                        try:
                            if si % 8 == 7:
                                t.reset()
                                history.append(("reset()", None))
                            else:
                                tc.apply_step(t, style, {**tc.stored_values(t), **ch} if style == "values" else ch)
                                history.append((f"legal change through the same route: {ch}", None))
                        except Exception as e:  # noqa: BLE001
                            history.append((f"legal change {ch} raised {type(e).__name__}", None))
                if not alive:
                    continue
    ctx.notes["classB_requests"] = nreq
    ctx.notes["classB_states_judged"] = njudged
    ctx.notes["classB_full_judgements"] = nfull
    ctx.notes["classB_outcomes"] = dict(sorted(outcomes.items()))


def run(ctx):
    ctx.rule = ("12 scalar classes x constructor-option variants (log base > 1) x parameter vectors as in "
                "C01 x interior domain points; jacobian through the public API; Softmax: 2-D rows; "
                "non-trivial = distinct (class, parameter branch, sign of x, NaN expected) signature; "
                "R = the same points through every representation of a float64 input (python/numpy scalar, "
                "1-/2-/3-d arrays, C/Fortran order, transposed, axes-permuted, strided, reversed, column and "
                "block views, read-only, non-native byte order, DataFrame.to_numpy(); Softmax: also lists); "
                "S = one object and one array object through sequences (parameters changed in the 6 API "
                "styles, buffer refilled / scaled / perturbed in place, forward and jacobian in varying order); "
                "W = one used object per (class, way of setting, direction) walked down / up a ladder of values "
                "one value per step or across shuffled vectors (reset in between), a sibling object of the class "
                "set and called in between, points on both sides of every seam of forward (0 for BoxCox2sym, "
                "nu + scale*x = 0 for Yeo-Johnson, centres of symmetry, x + nu = 1) from 2^-40 to 1 of the natural "
                "scale: forward over all ordered pairs, jacobian clauses at the interior points; "
                "X = exponents at / around EPS and the isclose windows at 0 and 2 x |ln(x + nu)|, |ln(1 + |w|)| up "
                "to 230 inside |lam * ln| <= 13.8; L = one call on 50021 (thorough: 200003) elements with ties, "
                "contiguous and strided; F = the far ends of the domain: the internal argument of every class (x, the "
                "distance to either end of Logit, x + nu, |nu + scale*x|, a + b*x/xmax, (x - nu)*scale, lam*x/xmax, "
                "Softmax entries and 1 - sum) from 1e-300 to 1e300 on both sides of every overflow / underflow / "
                "absorption threshold of binary64 and binary32 arithmetic (88.7, 354.9, 709.8, 710.5, 745.1, 2^53, "
                "1e102, 1.3e154), parameters and constants at the far ends of their ranges (xmax 1e-10 .. 1e250, scale "
                "to 1e100, nu to 1e100, tiny mininu, base next to 1 and 1e300), wherever the exact forward value and "
                "the exact derivative are normal binary64 numbers: forward finite, jacobian finite and > 0, stencil, "
                "forward over all pairs, equality of forward only within rounding; "
                "B = every parameter / constant REQUESTED beyond either finite bound (one ulp outside, just outside, "
                "zero, the opposite sign, the negative of legal values, 1e6, 1e300, -inf / +inf, NaN) through every route "
                "(t.name = v, t[name] = v, t.params[name] = v, t.params.name = v, values = [...] with one / with all "
                "elements beyond, get_transform(..., name=v)) on used objects with legal changes and reset() in between: "
                "jacobian > 0, jacobian = stencil of forward, forward over all pairs, judged on the object as it is "
                "after the request (clipped, rejected or stored)")
    ctx.trusted = cm.STD_TRUST + [
        "engine E3: the real-number model evaluated by `interval` inside Coq at the implementation's "
        "inputs, compared with the implementation's jacobian under an a priori forward-error bound",
        "Coquelicot (is_derive, auto_derive) for the derivative theorems",
    ]
    ctx.tested_not_proved = [
        "numerical agreement of jacobian with finite differences of forward (1e-4) - tested",
        "Softmax: jacobian = determinant of the partial derivatives for dimension >= 4 "
        "(proved for dimensions 1, 2 and 3; tested numerically for n <= 5)",
        "monotonicity of Yeo-Johnson across the sliver 0 < w < EPS (not claimed; DESIGN 5/C02 G)",
        "Log with a base < 1 is decreasing: outside the positivity clause (generators use base > 1)",
        "independence of jacobian/forward from the memory representation of x and from the history of the "
        "object / of the array passed (input classes R and S): tested; the model is a pure function of the values",
        "independence from the history of parameter changes, from other objects of the class and from the size "
        "of the array (input classes W, L), agreement of the formula selection of jacobian and forward around "
        "the branch thresholds far from the origin (input class X): tested",
        "far ends of the domain (input class F): tested at ~34000 (thorough: ~290000) points; left out, because "
        "the unchanged library does not hold there: Sinh beyond |(x - nu)*scale| = 1e150 (jacobian is 0.0 from "
        "1.34e154 on: u*u overflows) and Yeo-Johnson where (1 + |w|)**(exponent - 1) alone underflows although its "
        "product with scale is a normal number (scale ~ 1e100)",
        "values requested beyond their bounds (input class B): tested, ~1900 requests (thorough: ~6900); that a "
        "route clips is not asserted (only the property's clauses on the resulting object); observed on the "
        "unchanged tree: every route clips or raises, except NaN for a constant (xmax, nu of BoxCox1lam, lam of "
        "BoxCox1nu), which is stored by design ('to be set': forward then raises) - notes['classB_outcomes']",
        "R leaves out float32/integer inputs (the 1e-4 clause is stated for binary64 points), 0-d arrays, and "
        "0-d inputs of YeoJohnson (TypeError in dutils.cast under this numpy on the unchanged tree)",
    ]
    ctx.checker_cmd = (f"cd /verif && ./check {PID} --tier {ctx.tier}  (make -C coq Props/{PID}.vo "
                       f"Proofs/TransformTac.vo; coqc on the generated E3_{PID}_*.v: one "
                       "`Goal close_R (model args x) y_impl tol. Proof. tr_solve. Qed.` per evaluation)")
    import time
    t0 = time.time()
    proved = cm.prove(ctx, extractors=["c01", "pygen"], extra_targets=["Proofs/TransformTac.vo", "Props/PyTie.vo"])
    t_prove = time.time() - t0
    cm.use_impl()
    rng = ctx.rng
    goals, meta = [], []
    orc_fail = set()

    def add_goal(g, m):
        goals.append(g)
        meta.append(m)
        return len(goals) - 1

    npts = ctx.scale(5, 7)
    for name in tc.CLASSES:
        if name == "Softmax":
            continue
        variants = tc.ctor_variants(name, rng, c02=True)
        nvec = ctx.scale(NVEC_QUICK[name], 5 * NVEC_QUICK[name] + 10)
        for k in range(nvec):
            opts = variants[k % len(variants)]
            vals = vec_k(name, opts, rng, k)
            via_get = (k % 2 == 0)
            cm.mark({"call": "transform.jacobian", "class": name, "opts": opts, "vals": vals})
            t, eff = tc.make(name, opts, vals, via_get)
            xs = tc.points(name, opts, eff, rng, npts)
            if not xs:
                continue
            base = {"class": name, "opts": opts, "values": eff, "via_get_transform": via_get}
            js, err = tc.call(t, "jac", xs)
            fs, ferr = tc.call(t, "fwd", xs)
            for i, x in enumerate(xs):
                j = None if js is None else js[i]
                sig = branch_sig(name, eff, x)
                rep = dict(base, method="jacobian", x=x, output=j, exception=err)
                L = local_scale(name, opts, eff, x)
                interior = L > 0
                if j is None or math.isnan(j):
                    gi = add_goal(tc.goal_scalar(name, "jac", opts, eff, x, None, 0.0), rep)
                    ctx.count((name, "jac", sig, "nan"))
                    if interior:
                        orc_fail.add(gi)
                        mode = "jacobian-raises" if j is None else "jacobian-nan-in-domain"
                        ctx.failure(f"C02/{name}/{mode}", rep,
                                    f"{name}{opts} {eff}: jacobian({x!r}) "
                                    f"{'raised ' + str(err) if j is None else 'is NaN'} at an interior point")
                    continue
                tol = tc.tolerance(name, "jac", opts, eff, x, j)
                gi = None
                if tol is not None and math.isfinite(j):
                    gi = add_goal(tc.goal_scalar(name, "jac", opts, eff, x, j, tol), rep)
                    ctx.count((name, "jac", sig))
                if not interior:
                    continue
                # oracle 0: forward has a value where it is said to have a derivative
                if fs is None or not math.isfinite(fs[i]):
                    ctx.failure(f"C02/{name}/forward-not-finite",
                                dict(base, method="forward", x=x, output=None if fs is None else fs[i],
                                     exception=ferr, jacobian=j),
                                f"{name}{opts} {eff}: forward({x!r}) "
                                f"{'raised ' + str(ferr) if fs is None else '= ' + repr(fs[i])} at an interior point "
                                f"(jacobian there: {j!r})")
                # oracle 1: strictly positive
                if not j > 0:
                    if gi is not None:
                        orc_fail.add(gi)
                    ctx.failure(f"C02/{name}/jacobian-not-positive", rep,
                                f"{name}{opts} {eff}: jacobian({x!r}) = {j!r} is not positive")
                # oracle 2: 5-point central difference of forward
                sa = stencil_at(t, name, opts, eff, x, j, L)
                if sa is None:
                    continue
                h, fd, fvals, noise = sa
                ctx.count((name, "stencil", sig))
                if not abs(fd - j) <= 1e-4 * abs(j) + noise:
                    if gi is not None:
                        orc_fail.add(gi)
                    ctx.failure(f"C02/{name}/jacobian-differs-from-finite-difference",
                                dict(rep, h=h, finite_difference=fd, forward_at_stencil=fvals),
                                f"{name}{opts} {eff}: jacobian({x!r}) = {j!r}, 5-point central "
                                f"difference of forward (h={h!r}) = {fd!r}")
            # NaN guards of jacobian outside its domain
            for method, xg in tc.guard_points(name, opts, eff, rng):
                if method != "jac" or not math.isfinite(xg):
                    continue
                out, gerr = tc.call(t, "jac", [xg])
                o = None if out is None or math.isnan(out[0]) else out[0]
                tol = 0.0 if o is None else (tc.tolerance(name, "jac", opts, eff, xg, o) or 0.0)
                add_goal(tc.goal_scalar(name, "jac", opts, eff, xg, o, tol),
                         dict(base, method="jacobian (outside its domain)", x=xg, output=o, exception=gerr))
                ctx.count((name, "jac", "guard"))
            # oracle 3: forward increasing on sorted domain points
            if fs is not None:
                pairs = sorted((x, f) for x, f in zip(xs, fs) if math.isfinite(f))
                for (x1, f1), (x2, f2) in zip(pairs, pairs[1:]):
                    if x1 == x2:
                        continue
                    if name == "YeoJohnson":
                        w1 = eff["nu"] + x1 * eff["scale"]
                        w2 = eff["nu"] + x2 * eff["scale"]
                        if 0 < w1 < tc.eps() or 0 < w2 < tc.eps():
                            continue
                    a1 = tc.amp(name, "fwd", opts, eff, x1, f1)
                    a2 = tc.amp(name, "fwd", opts, eff, x2, f2)
                    slack = 16 * tc.U * (a1 + a2) if math.isfinite(a1 + a2) else math.inf
                    ctx.count((name, "monotone"))
                    if not f1 <= f2 + slack:
                        ctx.failure(f"C02/{name}/forward-not-increasing",
                                    dict(base, method="forward", x1=x1, x2=x2, f1=f1, f2=f2),
                                    f"{name}{opts} {eff}: forward({x1!r}) = {f1!r} > forward({x2!r}) = {f2!r}")
            if k % 5 == 0:
                ctx.sample({"class": name, "opts": opts, "values": eff, "x": xs[:3],
                            "jacobian": None if js is None else js[:3]})

    # ---- Softmax: jacobian = determinant of the matrix of partial derivatives
    from hydrodiy.stat import transform as T
    sm = T.Softmax()
    nmat = ctx.scale(10, 60)
    for k in range(nmat):
        nrows = [1, 2, 3][k % 3]
        ncols = [1, 2, 3, 5][k % 4]
        rows = tc.softmax_rows(rng, nrows, ncols, smax=0.99)
        if k % 5 == 4:
            rows[0][0] = -1e-3
        cm.mark({"call": "Softmax.jacobian", "rows": rows})
        js, err = tc.call(sm, "jac", rows)
        rep = {"class": "Softmax", "method": "jacobian", "rows": rows, "output": js, "exception": err}
        ctx.count(("Softmax", "jac", nrows, ncols, js is None))
        if js is None:
            add_goal(f"close_optlist (softmax_jac {tc.hxll(rows)}) None []", rep)
            if k % 5 != 4:
                ctx.failure("C02/Softmax/jacobian-raises", rep, f"Softmax.jacobian raised {err} in the domain")
            continue
        if k % 5 == 4:
            add_goal(f"close_optlist (softmax_jac {tc.hxll(rows)}) (Some {tc.hxl(js)}) "
                     f"{tc.hxl([0.0] * len(js))}", rep)
            ctx.failure("C02/Softmax/accepts-negative-entry", rep, "Softmax.jacobian accepted a negative entry")
            continue
        tols = [1e-10 * abs(j) + 16 * tc.U * abs(j) * (ncols + 2 + ncols / (1 - sum(r)))
                for j, r in zip(js, rows)]
        add_goal(f"close_optlist (softmax_jac {tc.hxll(rows)}) (Some {tc.hxl(js)}) {tc.hxl(tols)}", rep)
        for r, j in zip(rows, js):
            if not j > 0:
                ctx.failure("C02/Softmax/jacobian-not-positive", rep, f"Softmax.jacobian = {j!r}")
            # determinant of the numerical partial derivatives (central differences)
            n = len(r)
            s = sum(r)
            scale_h = min(min(r), 1 - s)
            h = 2.0 ** math.floor(math.log2(scale_h / 256))
            M = np.zeros((n, n))
            okm = True
            for c in range(n):
                cols = []
                for d in (-2, -1, 1, 2):
                    rr = list(r)
                    rr[c] = r[c] + d * h
                    f, _ = tc.call(sm, "fwd", [rr])
                    if f is None:
                        okm = False
                        break
                    cols.append(f)
                if not okm:
                    break
                for i in range(n):
                    M[i, c] = (cols[0][i] - 8 * cols[1][i] + 8 * cols[2][i] - cols[3][i]) / (12 * h)
            if okm:
                det = float(np.linalg.det(M))
                ctx.count(("Softmax", "det", n))
                if not abs(det - j) <= 1e-4 * abs(j):
                    ctx.failure("C02/Softmax/jacobian-differs-from-determinant",
                                dict(rep, row=r, determinant=det, jacobian=j),
                                f"Softmax: jacobian {j!r} != determinant of the partial derivatives {det!r}")

    # ---- input classes R (representations) and S (sequences on one object / one array): oracle only
    t_rs = time.time()
    representation_checks(ctx)
    sequence_checks(ctx)
    softmax_checks(ctx)
    t_rs = time.time() - t_rs
    t_wxl = time.time()
    walk_checks(ctx)
    extreme_checks(ctx)
    large_array_checks(ctx)
    far_checks(ctx)
    t_wxl = time.time() - t_wxl
    t_b = time.time()
    beyond_checks(ctx)
    t_b = time.time() - t_b

    t1 = time.time()
    bad, nok, nshards, failed = tc.run_e3(PID, goals, shard=ctx.scale(40, 60))
    ctx.notes["timing_s"] = {"prove": round(t_prove, 1),
                             "generate+oracle": round(t1 - t0 - t_prove - t_rs - t_wxl - t_b, 1),
                             "classes R+S": round(t_rs, 1), "classes W+X+L+F": round(t_wxl, 1), "class B": round(t_b, 1),
                             "e3": round(time.time() - t1, 1)}
    ctx.notes["correspondence_goals"] = len(goals)
    ctx.notes["correspondence_mismatches"] = len(bad)
    ctx.notes["e3_shards"] = nshards
    for kk in range(nok):
        ctx.obligation(f"E3 shard {kk}: every goal closed by interval + Qed", True)
    for kk in range(nshards - nok):
        ctx.obligation(f"E3 shard (failing) {kk}", False)
    if os.environ.get("HYVERIF_E3_DUMP"):
        import json
        with open(os.environ["HYVERIF_E3_DUMP"], "w") as fh:
            json.dump({"goals": goals, "meta": meta, "bad": bad, "failed": failed}, fh, indent=1,
                      default=str)
    cm.settle(ctx, proved, bad, failed, orc_fail,
              lambda i: {"case": meta[i], "goal": goals[i], "model": "Hy.Model.Transform (tr_solve)"},
              "Model/Transform.v vs stat/transform.py (E3: jacobian)")
    return ctx.finish()
