"""C05 helper: sanitizer builds and the two instrumented observers.

  * build_klib_san()  - the kernels of the working tree as a plain shared library,
                        clang -O0 -fsanitize=address,undefined (-O0 so that dead loads
                        such as `iaprev = aggindex[0]` with nval = 0 are not optimised
                        away before the sanitizer sees them);
  * build_ext_san()   - the three extension modules, same flags, plus `hyexact`, a
                        numpy data allocator handing out exact-size malloc blocks so
                        that ASan's red zones surround every numpy buffer;
  * run_worker()      - runs a list of cases in a child interpreter under the ASan
                        runtime; a sanitizer report / abnormal exit ends the child, is
                        attributed to the case that was running, and the child is
                        restarted on the next case.

Nothing here looks at the model: the verdicts are observations of the implementation.
"""
import hashlib
import json
import os
import re
import shutil
import subprocess
import sys
import tempfile
from pathlib import Path

from harness import common as cm

SAN_FLAGS = ["-O0", "-g", "-fsanitize=address,undefined", "-fno-sanitize-recover=undefined",
             "-fno-omit-frame-pointer", "-Wno-everything"]

HYEXACT_C = r"""
/* numpy data allocator with exact-size plain malloc blocks, so that
   AddressSanitizer's red zones surround every numpy array buffer */
#define NPY_NO_DEPRECATED_API NPY_1_7_API_VERSION
#include <Python.h>
#include <numpy/arrayobject.h>
#include <stdlib.h>

static void *ex_malloc(void *ctx, size_t size) { return malloc(size); }
static void *ex_calloc(void *ctx, size_t nelem, size_t elsize) { return calloc(nelem, elsize); }
static void *ex_realloc(void *ctx, void *ptr, size_t new_size) { return realloc(ptr, new_size); }
static void ex_free(void *ctx, void *ptr, size_t size) { free(ptr); }

static PyDataMem_Handler exact_handler = {
    "hyexact_allocator", 1,
    { NULL, ex_malloc, ex_calloc, ex_realloc, ex_free }
};

static PyObject *install(PyObject *self, PyObject *args)
{
    PyObject *cap = PyCapsule_New(&exact_handler, "mem_handler", NULL);
    PyObject *old;
    if (cap == NULL) return NULL;
    old = PyDataMem_SetHandler(cap);
    Py_DECREF(cap);
    if (old == NULL) return NULL;
    Py_DECREF(old);
    Py_RETURN_NONE;
}

static PyMethodDef methods[] = {
    {"install", install, METH_NOARGS, "install the exact-size allocator"},
    {NULL, NULL, 0, NULL}
};
static struct PyModuleDef moddef = { PyModuleDef_HEAD_INIT, "hyexact", NULL, -1, methods };
PyMODINIT_FUNC PyInit_hyexact(void)
{
    import_array();
    return PyModule_Create(&moddef);
}
"""

CACHE = cm.VERIF / ".cache" / "c05"


def asan_runtime():
    return subprocess.run(["clang", "-print-file-name=libclang_rt.asan-x86_64.so"],
                          capture_output=True, text=True).stdout.strip()


def _hash(files, extra=""):
    h = hashlib.sha256()
    h.update(extra.encode())
    for f in sorted(str(x) for x in files):
        h.update(f.encode())
        h.update(Path(f).read_bytes())
    return h.hexdigest()[:20]


def _prune(cache, keep=4):
    try:
        entries = sorted((p for p in cache.iterdir() if p.is_dir() and (p / "OK").exists()),
                         key=lambda p: p.stat().st_mtime)
        for p in entries[:-keep]:
            shutil.rmtree(p, ignore_errors=True)
    except OSError:
        pass


def build_klib_san():
    """Kernels only, clang -O0 + ASan + UBSan.  Returns the path of libhykernels.so."""
    files = []
    for pkg, srcs in cm.EXT_SOURCES.items():
        d = cm.REPO / "src" / "hydrodiy" / pkg
        files += [d / f"{s}.c" for s in srcs] + sorted(d.glob("*.h"))
    for f in files:
        if not Path(f).exists():
            raise cm.BrokenTie(f"source file missing: {f}")
    tag = _hash(files, " ".join(SAN_FLAGS))
    cache = CACHE / "klib"
    out = cache / tag
    if (out / "OK").exists():
        return out / "libhykernels.so"
    cache.mkdir(parents=True, exist_ok=True)
    tmp = Path(tempfile.mkdtemp(prefix="build.", dir=cache))
    cfiles, incs = [], []
    for pkg, srcs in cm.EXT_SOURCES.items():
        d = cm.REPO / "src" / "hydrodiy" / pkg
        cfiles += [str(d / f"{s}.c") for s in srcs]
        incs.append(f"-I{d}")
    r = subprocess.run(["clang", "-shared", "-fPIC"] + SAN_FLAGS + incs + cfiles +
                       ["-o", str(tmp / "libhykernels.so"), "-lm"], capture_output=True, text=True)
    if r.returncode != 0:
        shutil.rmtree(tmp, ignore_errors=True)
        raise cm.BrokenTie("sanitized kernel library build failed:\n" + (r.stdout + r.stderr)[-2000:])
    (tmp / "OK").write_text("ok")
    try:
        os.rename(tmp, out)
    except OSError:
        shutil.rmtree(tmp, ignore_errors=True)
    _prune(cache)
    return out / "libhykernels.so"


def build_ext_san():
    """c_hydrodiy_{data,stat,gis} + hyexact, clang -O0 + ASan + UBSan. Returns the directory."""
    allfiles = []
    for pkg in cm.EXT_SOURCES:
        allfiles += cm.ext_source_files(pkg)
    for f in allfiles:
        if not f.exists():
            raise cm.BrokenTie(f"source file missing: {f}")
    tag = _hash(allfiles, " ".join(SAN_FLAGS) + HYEXACT_C)
    cache = CACHE / "ext"
    out = cache / tag
    if (out / "OK").exists():
        return out
    cache.mkdir(parents=True, exist_ok=True)
    tmp = Path(tempfile.mkdtemp(prefix="build.", dir=cache))
    (tmp / "hyexact.c").write_text(HYEXACT_C)
    procs = []
    base = ["clang", "-shared", "-fPIC"] + SAN_FLAGS + [f"-I{cm.PYINC}", f"-I{cm.NPINC}"]
    for pkg, srcs in cm.EXT_SOURCES.items():
        d = cm.REPO / "src" / "hydrodiy" / pkg
        so = tmp / f"c_hydrodiy_{pkg}.cpython-312-x86_64-linux-gnu.so"
        cfiles = [str(d / f"c_hydrodiy_{pkg}.c")] + [str(d / f"{s}.c") for s in srcs]
        procs.append((pkg, subprocess.Popen(base + [f"-I{d}"] + cfiles + ["-o", str(so), "-lm"],
                                            stdout=subprocess.PIPE, stderr=subprocess.STDOUT, text=True)))
    procs.append(("hyexact", subprocess.Popen(
        base + [str(tmp / "hyexact.c"), "-o", str(tmp / "hyexact.cpython-312-x86_64-linux-gnu.so")],
        stdout=subprocess.PIPE, stderr=subprocess.STDOUT, text=True)))
    errs = []
    for pkg, p in procs:
        o, _ = p.communicate()
        if p.returncode != 0:
            errs.append(f"{pkg}: {o[-2000:]}")
    if errs:
        shutil.rmtree(tmp, ignore_errors=True)
        raise cm.BrokenTie("sanitized extension build failed:\n" + "\n".join(errs))
    (tmp / "OK").write_text("ok")
    try:
        os.rename(tmp, out)
    except OSError:
        shutil.rmtree(tmp, ignore_errors=True)
    _prune(cache)
    return out


def san_env(pythonpath):
    env = dict(os.environ)
    env["PYTHONPATH"] = ":".join(str(p) for p in pythonpath)
    env["PYTHONHASHSEED"] = "0"
    env["MPLBACKEND"] = "Agg"
    env["LD_PRELOAD"] = asan_runtime()
    env["ASAN_OPTIONS"] = ("detect_leaks=0:halt_on_error=1:abort_on_error=0:allocator_may_return_null=1:"
                           "handle_segv=1:handle_sigfpe=1:exitcode=77:detect_stack_use_after_return=0")
    env["UBSAN_OPTIONS"] = "halt_on_error=1:print_stacktrace=1:exitcode=78"
    env["OMP_NUM_THREADS"] = "1"
    env["OPENBLAS_NUM_THREADS"] = "1"
    return env


# ----------------------------------------------------------------------------
# classification of a sanitizer report

_KERNEL_FRAME = re.compile(r"#\d+ 0x[0-9a-f]+ in (\w+) ([^\s:]+):(\d+)")


def classify(stderr, rc):
    """-> (failure mode, location) from the child's stderr and exit status."""
    mode, loc = None, ""
    m = re.search(r"ERROR: AddressSanitizer: ([A-Za-z0-9_-]+)", stderr)
    if m:
        kind = m.group(1)
        if kind in ("heap-buffer-overflow", "stack-buffer-overflow", "global-buffer-overflow",
                    "heap-use-after-free", "stack-buffer-underflow"):
            acc = re.search(r"\b(READ|WRITE) of size \d+", stderr)
            mode = kind + ("-" + acc.group(1).lower() if acc else "")
        elif kind == "SEGV":
            acc = re.search(r"The signal is caused by a (READ|WRITE)", stderr)
            mode = "SEGV" + ("-" + acc.group(1).lower() if acc else "")
        elif kind == "FPE":
            mode = "FPE-integer-division"
        else:
            mode = kind
    if mode is None:
        m = re.search(r"runtime error: (.*)", stderr)
        if m:
            t = m.group(1)
            if "division by zero" in t:
                mode = "integer-divide-by-zero"
            elif "signed integer overflow" in t:
                mode = "signed-integer-overflow"
            elif "outside the range of representable values" in t:
                mode = "float-cast-overflow"
            elif "out of bounds" in t:
                mode = "index-out-of-bounds"
            elif "shift" in t:
                mode = "invalid-shift"
            elif "null pointer" in t:
                mode = "null-pointer"
            elif "misaligned" in t:
                mode = "misaligned-access"
            else:
                mode = "undefined-behaviour"
            m2 = re.search(r"([\w./-]+\.c):(\d+):\d+: runtime error", stderr)
            if m2:
                loc = f"{Path(m2.group(1)).name}:{m2.group(2)}"
    if mode is None:
        if rc is None:
            mode = "timeout"
        elif rc < 0:
            mode = f"signal-{-rc}"
        else:
            mode = f"abnormal-exit-{rc}"
    if not loc:
        for fm in _KERNEL_FRAME.finditer(stderr):
            fn, path, line = fm.group(1), fm.group(2), fm.group(3)
            if "/hydrodiy/" in path and not Path(path).name.startswith("c_hydrodiy_"):
                loc = f"{Path(path).name}:{line}"
                break
    return mode, loc


# ----------------------------------------------------------------------------
# child-process runner

def _run_group(cmd, env, timeout, sdir, tag):
    """Run `cmd` in its own session with stdout/stderr in files, then kill the whole
    process group: the ASan runtime forks an llvm-symbolizer that outlives a halted
    process and would otherwise keep pipes open for ever.  Returns (rc or None, stderr)."""
    import signal
    ferr = Path(sdir) / f"{tag}.stderr"
    fout = Path(sdir) / f"{tag}.stdout"
    with open(ferr, "wb") as fe, open(fout, "wb") as fo:
        p = subprocess.Popen(cmd, env=env, stdout=fo, stderr=fe, stdin=subprocess.DEVNULL,
                             cwd=str(sdir), start_new_session=True)
        try:
            rc = p.wait(timeout=timeout)
        except subprocess.TimeoutExpired:
            rc = None
        try:
            os.killpg(p.pid, signal.SIGKILL)
        except (ProcessLookupError, PermissionError):
            pass
        try:
            p.wait(timeout=10)
        except subprocess.TimeoutExpired:
            pass
    err = ferr.read_bytes()[-200000:].decode(errors="replace")
    for f in (ferr, fout):
        try:
            f.unlink()
        except OSError:
            pass
    return rc, err


def run_worker(script, cases, env, timeout_per_case=60, label="worker"):
    """Run `cases` (JSON-serialisable) through `script` (a python file taking
    <cases.json> <start index> <results.jsonl>) in a sanitized child.

    The child appends one JSON line per finished case and writes the index of the
    case it is about to run to <results>.cur.  Returns a list, one entry per case:
      {"status": "ok", "result": ...}                         finished
      {"status": "crash", "mode": ..., "loc": ..., "report": ...}  sanitizer report / abnormal end
    plus the list of abnormal ends that could not be attributed to a case."""
    sdir = cm.scratch()
    cfile = sdir / f"{label}_cases.json"
    rfile = sdir / f"{label}_results.jsonl"
    cur = Path(str(rfile) + ".cur")
    cfile.write_text(json.dumps(cases))
    if rfile.exists():
        rfile.unlink()
    out = [None] * len(cases)
    extras = []
    start = 0
    nrestart = 0
    while start < len(cases):
        if cur.exists():
            cur.unlink()
        nleft = len(cases) - start
        budget = max(180, timeout_per_case * nleft) if nleft < 40 else 180 + 3 * nleft
        rc, err = _run_group([cm.PY, str(script), str(cfile), str(start), str(rfile)], env, budget,
                             sdir, f"{label}_{start}")
        done = start
        if rfile.exists():
            for line in rfile.read_text().splitlines():
                try:
                    rec = json.loads(line)
                except ValueError:
                    continue
                out[rec["i"]] = {"status": "ok", "result": rec["r"]}
                done = max(done, rec["i"] + 1)
            rfile.unlink()
        if done >= len(cases) and rc == 0:
            break
        # the child ended before the end of the list
        at = done
        if cur.exists():
            try:
                at = int(cur.read_text().strip())
            except ValueError:
                at = done
        if at < start:
            # died before reaching a case (import of the sanitized modules failed...)
            mode, loc = classify(err, rc)
            extras.append({"status": "crash", "mode": mode, "loc": loc, "report": err[-3000:],
                           "at": "startup"})
            break
        if at >= len(cases):
            # died after the last case (interpreter shutdown): attribute to nothing
            if rc != 0:
                mode, loc = classify(err, rc)
                extras.append({"status": "crash", "mode": mode, "loc": loc, "report": err[-3000:],
                               "at": "interpreter-exit"})
            break
        mode, loc = classify(err, rc)
        out[at] = {"status": "crash", "mode": mode, "loc": loc, "report": err[-3000:]}
        start = at + 1
        nrestart += 1
        if nrestart > 400:
            for k in range(start, len(cases)):
                out[k] = {"status": "skipped"}
            break
    for k in range(len(cases)):
        if out[k] is None:
            out[k] = {"status": "skipped"}
    return out, extras
