"""C05 - native kernels never touch memory outside their buffers.

  (1) theorems: coq/Props/C05.v (index arithmetic of the kernel models, all lengths);
  (2) kernel level: the kernels of the working tree rebuilt with clang -O0 + ASan + UBSan,
      called through ctypes with every buffer malloc'ed at its exact length, on
      wrapper-admissible arguments; the verdict (clean / sanitizer report), return code,
      integer outputs and write footprints are compared inside Coq with the models;
  (3) API level (the search): every public entry point that reaches a kernel, under the
      sanitizer-built extension modules with an exact-size numpy allocator, at and beyond
      the boundary shapes, value classes and option ranges of the property; catchment
      topologies (holes, enclosed inlets, one cell wide, whole grid) x filled x inlets x nval
      x second grids coarser / equal / finer / shifted / partly covering, derived catchments
      (dictionary, clone, a + b, a - b); argument layouts the wrappers derive buffer sizes
      from (dimensions, views, orders, dtypes, disagreeing lengths); extreme legal sizes;
  (4) the buffers the Python call sites allocate for the kernels are re-extracted
      (harness/extractors/c05.py, PY_KERNEL_CALLS) and stated in Props/C05.v: the lengths the
      theorems assume and the wrappers do not assert rest on those expressions.
A sanitizer report or an abnormal end of the child is a failing input."""
import json
import time
from concurrent.futures import ThreadPoolExecutor

from harness import common as cm
from harness.props import c05_native as nat
from harness.props import c05_kcases as kc
from harness.props import c05_acases as ac

PID = "C05"
HEADER = ("From Coq Require Import ZArith List PrimFloat.\n"
          "From Hy Require Import Base.Num Model.SafetyCases.")
HERE = cm.VERIF / "harness" / "props"


def kernel_label(k):
    for pre in ("c_dateutils_", "c_"):
        if k.startswith(pre):
            return k[len(pre):]
    return k


def run_parallel(script, cases, env, label, nworkers):
    """Split `cases` over `nworkers` sanitized children; returns results in order."""
    if not cases:
        return [], []
    nworkers = max(1, min(nworkers, (len(cases) + 39) // 40))
    chunks = [list(range(w, len(cases), nworkers)) for w in range(nworkers)]
    res = [None] * len(cases)
    extras = []

    def one(w):
        sub = [cases[i] for i in chunks[w]]
        return w, nat.run_worker(script, sub, env, label=f"{label}{w}")

    with ThreadPoolExecutor(max_workers=nworkers) as ex:
        for w, (out, ext) in ex.map(one, range(nworkers)):
            for i, r in zip(chunks[w], out):
                res[i] = r
            extras += ext
    return res, extras


def run(ctx):
    ctx.rule = ("kernel level: the section-6 replays + weighted random wrapper-admissible arguments for 31 kernels "
                "(lengths 0,1,2,3,.. and random larger, grids 0x0..NxN, NaN/inf/huge/negative values, options at and "
                "beyond their ranges), every buffer at its exact malloc size under ASan+UBSan (-O0); API level: "
                "enumeration of boundary shapes x value classes x options for every public entry point reaching a "
                "kernel, under sanitizer-built extensions with an exact-size numpy allocator, + catchment topologies "
                "(with / without holes, enclosed inlets, one cell wide, whole grid, random) x filled x inlets x nval around "
                "the number of cells x second grids (coarser / equal / finer, shifted, covering / partial / one cell / "
                "one row / disjoint / empty) x derived catchments (dictionary round trip, clone, a + b, a - b, area and "
                "filled area given independently) + argument layouts (dimensions, views, Fortran order, dtypes, lengths "
                "that disagree, time zones / units of var2h) + extreme legal sizes (2*10^5 members / values, 120^2-cell "
                "catchments, 1500^2-cell second grid); non-trivial = distinct (kernel/function, size class, option "
                "class, outcome) signature")
    ctx.trusted = cm.STD_TRUST + [
        "clang 14 -O0 -fsanitize=address,undefined builds of the kernels and of the pre-generated wrapper C; "
        "AddressSanitizer/UBSan verdicts; ctypes; the exact-size numpy allocator (harness/props/c05_native.py)",
        "sanitizers do not see uninitialised reads, aliasing between buffers, or anything inside numpy itself"]
    ctx.tested_not_proved = [
        "kernels without a `_safe` theorem (see notes/C05.md): sanitizer verdicts + model correspondence only",
        "c_slice, c_olsleverage, c_exclude_zero_area_boundary, c_combi, ADinf.c: not modelled, API-level sanitizer runs only",
        "everything inside the Cython-generated wrapper C and numpy: sanitizer runs only",
        "binary64 instance of the float-dependent index walks (c_var2h, c_coord2cell, c_delineate_boundary): "
        "theorems are over the reals / any arithmetic with exact integer embedding; binary64 by correspondence"]
    # theorems incl. safe execution of the regenerated MiniC program; tie of the translator and the
    # interpreter with every compiled kernel (None = all kernels of harness/kernels_tie.py)
    proved = cm.prove_with_kernels(ctx, None, extractors=["c05", "minic", "minic_chk"],
                                   extra_targets=["Model/SafetyCases.vo"])
    # the overflow-checked translation (program_chk) against the compiled kernels as well
    from harness import kernels_tie
    kernels_tie.check(ctx, None, checked=True)
    rng = ctx.rng
    t0 = time.time()
    klib = nat.build_klib_san()
    ext = nat.build_ext_san()
    ctx.notes["sanitizer_build_s"] = round(time.time() - t0, 1)
    orc_fail = set()

    # ------------------------------------------------------------------ kernel level
    items = list(kc.fixed_cases())
    big = ctx.scale(12, 120)
    per = ctx.scale(30, 300)
    for gen, weight in kc.GENERATORS:
        for _ in range(per * weight):
            items.append(gen(rng, big))
    kenv = nat.san_env([cm.VERIF])
    kenv["HYK_LIB"] = str(klib)
    t0 = time.time()
    kres, kextra = run_parallel(HERE / "c05_kworker.py", [it[1] for it in items], kenv, "k", cm.NCPU)
    ctx.notes["kernel_level_s"] = round(time.time() - t0, 1)
    terms, replays, tidx = [], [], {}
    nk_crash = 0
    for i, ((sig, case, build), r) in enumerate(zip(items, kres)):
        label = kernel_label(case["k"])
        replay = {"level": "kernel (ctypes, exact malloc, ASan+UBSan)", "call": case["k"], "args": case["a"]}
        if r["status"] == "skipped":
            ctx.count((sig, "skipped"))
            continue
        crashed = r["status"] == "crash"
        ctx.count((sig, "crash" if crashed else ("rc0" if r["result"]["rc"] == 0 else "rc!=0")))
        if build is not None:
            terms.append(build(None if crashed else r["result"]))
            replays.append(replay)
            tidx[i] = len(terms) - 1
        if crashed:
            nk_crash += 1
            if i in tidx:
                orc_fail.add(tidx[i])
            replay = dict(replay, sanitizer_report=r["report"][-1500:])
            ctx.failure(f"C05/{label}/{r['mode']}", replay,
                        f"kernel {case['k']} on wrapper-admissible arguments: {r['mode']} at {r['loc'] or '?'}")
        elif len(ctx.samples) < 3 and i % 97 == 0:
            ctx.sample({"call": case["k"], "rc": r["result"]["rc"]})
    for e in kextra:
        ctx.failure(f"C05/kernel-driver/{e['mode']}", {"at": e.get("at"), "report": e["report"][-1500:]},
                    f"the kernel-level sanitizer driver ended abnormally ({e.get('at')})", nofail=True)
    nskip = sum(1 for r in kres if r["status"] == "skipped")
    ctx.notes["kernel_cases"] = len(items)
    ctx.notes["kernel_crashes"] = nk_crash
    ctx.notes["kernel_skipped"] = nskip
    ctx.obligation("kernel-level sanitizer driver ran every case", nskip == 0 and not kextra)

    bad, nshards, failed = cm.run_case_files(PID, HEADER, "kcase", "k_ok", terms, shard=250, max_bytes=250000)
    ctx.notes["correspondence_cases"] = len(terms)
    ctx.notes["correspondence_mismatches"] = len(bad)
    for k in range(nshards):
        ctx.obligation(f"Cases_{PID}_{k}.agree (model = sanitized kernel on the shard)", True)

    # ------------------------------------------------------------------ API level
    acases = [(c["fn"], c["code"], "corpus") for c in cm.load_corpus(PID)]
    if not acases:      # corpus/C05 missing: the same replays, from the module
        acases = [(f, code, "replay") for f, code in ac.REPLAYS]
    acases += [(f, code, "enum") for f, code in ac.all_cases(rng, not ctx.thorough)]
    if ctx.replay and isinstance(ctx.replay.get("replay"), dict) and "code" in ctx.replay["replay"]:
        acases.insert(0, (ctx.replay["replay"].get("fn", "replay"), ctx.replay["replay"]["code"], "replay-arg"))
    aenv = nat.san_env([ext, cm.REPO / "src", cm.VERIF])
    t0 = time.time()
    ares, aextra = run_parallel(HERE / "c05_aworker.py", [{"code": c[1]} for c in acases], aenv, "a", cm.NCPU)
    ctx.notes["api_level_s"] = round(time.time() - t0, 1)
    na_crash, outcomes = 0, {}
    for (fn, code, origin), r in zip(acases, ares):
        if r["status"] == "skipped":
            ctx.count((fn, "skipped"))
            continue
        if r["status"] == "crash":
            na_crash += 1
            ctx.count((fn, "crash", r["mode"]))
            ctx.failure(f"C05/{fn}/{r['mode']}",
                        {"level": "public API under sanitizer-built extensions", "fn": fn, "code": code,
                         "how": "run in the namespace of harness/props/c05_aworker.py with LD_PRELOAD=<asan runtime>",
                         "asan_options": aenv["ASAN_OPTIONS"], "sanitizer_report": r["report"][-1500:]},
                        f"{fn}: {r['mode']} at {r['loc'] or '?'} for `{code[:160]}`")
        else:
            o = r["result"]["outcome"]
            ctx.count((fn, o))
            outcomes[o] = outcomes.get(o, 0) + 1
            if not r["result"].get("exact"):
                ctx.notes["exact_allocator"] = "NOT installed"
    for e in aextra:
        ctx.failure(f"C05/api-driver/{e['mode']}", {"at": e.get("at"), "report": e["report"][-1500:]},
                    f"the API-level sanitizer driver ended abnormally ({e.get('at')})", nofail=True)
    nskip_a = sum(1 for r in ares if r["status"] == "skipped")
    ctx.notes.setdefault("exact_allocator", "installed (every numpy buffer is an exact-size malloc block)")
    ctx.notes["api_cases"] = len(acases)
    ctx.notes["api_crashes"] = na_crash
    ctx.notes["api_skipped"] = nskip_a
    ctx.notes["api_outcomes"] = dict(sorted(outcomes.items(), key=lambda kv: -kv[1])[:12])
    ctx.obligation("API-level sanitizer driver ran every case", nskip_a == 0 and not aextra)
    if nskip or nskip_a:
        ctx.failure("C05/driver/cases-skipped", {"kernel_skipped": nskip, "api_skipped": nskip_a},
                    "the sanitizer drivers could not run every case (too many abnormal ends)", nofail=True)

    cm.settle(ctx, proved, bad, failed, orc_fail, lambda i: replays[i],
              "Model/Safety*.v vs the ASan/UBSan-instrumented kernels (verdict, return code, integer outputs, footprints)")
    return ctx.finish()
