"""C05 kernel-level driver (child process, runs under the ASan runtime).

usage: python c05_kworker.py <cases.json> <start> <results.jsonl>   (env HYK_LIB = libhykernels.so)

Each case is {"k": <C function>, "ret": "i"|"q", "a": [[type, value], ...]} with
types  i (int)  q (long long)  d (double)  pi / pq / pd (pointer to int / long long /
double).  A pointer value is either a list (initial content) or {"n": length}
(output buffer pre-filled with a sentinel).  EVERY buffer is obtained from malloc at
its exact byte length (malloc is ASan's interceptor: the process is started with
LD_PRELOAD), so a one-element overrun hits a red zone.  After the call the content
of every buffer is reported (sentinel cells as null: the write footprint)."""
import ctypes
import json
import struct
import sys

SENT_D_BITS = 0x7FF8DEADBEEF0001
SENT_D = struct.unpack("<d", struct.pack("<Q", SENT_D_BITS))[0]
SENT_I = 0x5A5A5A5A
SENT_Q = 0x5A5A5A5A5A5A5A5A

CT = {"i": ctypes.c_int, "q": ctypes.c_longlong, "d": ctypes.c_double}


def main():
    cases = json.load(open(sys.argv[1]))
    start = int(sys.argv[2])
    resf = open(sys.argv[3], "a")
    curf = sys.argv[3] + ".cur"
    import os
    lib = ctypes.CDLL(os.environ["HYK_LIB"])
    libc = ctypes.CDLL(None)
    libc.malloc.restype = ctypes.c_void_p
    libc.malloc.argtypes = [ctypes.c_size_t]
    libc.free.argtypes = [ctypes.c_void_p]
    devnull = os.open(os.devnull, os.O_WRONLY)
    os.dup2(devnull, 1)          # the kernels print progress lines
    for idx in range(start, len(cases)):
        c = cases[idx]
        with open(curf, "w") as f:
            f.write(str(idx))
        fn = getattr(lib, c["k"])
        fn.restype = CT[c.get("ret", "i")]
        argtypes, args, bufs = [], [], []
        for t, v in c["a"]:
            if t in CT:
                argtypes.append(CT[t])
                args.append(CT[t](v))
                continue
            et = t[1]
            ety = CT[et]
            size = ctypes.sizeof(ety)
            fill = isinstance(v, dict)
            n = int(v["n"]) if fill else len(v)
            ptr = libc.malloc(n * size)
            if not ptr:
                raise MemoryError
            arr = (ety * n).from_address(ptr) if n else None
            if fill and et == "d":
                # keep the sentinel's NaN payload: write raw bits
                raw = (ctypes.c_ulonglong * n).from_address(ptr) if n else None
                for j in range(n):
                    raw[j] = SENT_D_BITS
            elif fill:
                for j in range(n):
                    arr[j] = SENT_I if et == "i" else SENT_Q
            elif et == "d":
                for j, x in enumerate(v):
                    arr[j] = float(x)
            else:
                for j, x in enumerate(v):
                    arr[j] = int(x)
            argtypes.append(ctypes.c_void_p)
            args.append(ctypes.c_void_p(ptr))
            bufs.append((et, n, ptr))
        fn.argtypes = argtypes
        rc = fn(*args)
        outs = []
        for et, n, ptr in bufs:
            if c.get("noout"):
                libc.free(ptr)
                continue
            if et == "d":
                raw = (ctypes.c_ulonglong * n).from_address(ptr) if n else []
                arr = (ctypes.c_double * n).from_address(ptr) if n else []
                outs.append([None if raw[j] == SENT_D_BITS else float(arr[j]).hex() for j in range(n)])
            else:
                arr = (CT[et] * n).from_address(ptr) if n else []
                sent = SENT_I if et == "i" else SENT_Q
                outs.append([None if arr[j] == sent else int(arr[j]) for j in range(n)])
            libc.free(ptr)
        resf.write(json.dumps({"i": idx, "r": {"rc": int(rc), "bufs": outs}}) + "\n")
        resf.flush()
    with open(curf, "w") as f:
        f.write(str(len(cases)))


if __name__ == "__main__":
    main()
