"""C07 - grid cell numbers, rows/columns and coordinates are mutually consistent."""
import math
from fractions import Fraction as Fr

import numpy as np

from harness import common as cm

PID = "C07"
HEADER = "From Coq Require Import ZArith List PrimFloat.\nFrom Hy Require Import Base.Num Model.Grid."


def mkgrid(nrows, ncols, xll, yll, csz):
    from hydrodiy.gis.grid import Grid
    return Grid("g", ncols, nrows, cellsize=csz, xllcorner=xll, yllcorner=yll)


def exact_cell(nrows, ncols, xll, yll, csz, x, y):
    """Exact (rational) answer and the distance to the nearest cell edge in cell units."""
    if not (math.isfinite(x) and math.isfinite(y)):
        return -1, None
    qx = (Fr(x) - Fr(xll)) / Fr(csz)
    qy = (Fr(y) - Fr(yll)) / Fr(csz)
    fx, fy = math.floor(qx), math.floor(qy)
    margin = min(qx - fx, fx + 1 - qx, qy - fy, fy + 1 - qy)
    if fx < 0 or fx >= ncols or fy < 0 or fy >= nrows:
        # outside: margin = distance to the extent in cell units
        dx = max(-qx, qx - ncols, 0)
        dy = max(-qy, qy - nrows, 0)
        return -1, max(dx, dy)
    return (nrows - 1 - fy) * ncols + fx, margin


# ----------------------------------------------------------------------------
# Stored representations of the arguments (the quantifier's "all valid and invalid cell
# numbers", "points"): the same number / point handed over as a Python scalar, a numpy scalar
# of any integer type, a 0-d array, a list, a tuple, arrays of every integer / float type,
# byte order and memory layout.  `core` = representations the library itself uses when it calls
# these functions (Grid.clip, xvalues, catchment code): an exception there for a valid cell or a
# finite point is a failure; elsewhere an exception only means "representation not accepted".

def _fits(vals, dt):
    if dt is None:
        return all(-2 ** 63 <= v < 2 ** 63 for v in vals)
    info = np.iinfo(dt)
    return all(info.min <= v <= info.max for v in vals)


def _strided(a, k=3):
    buf = np.zeros((len(a) * k,) + a.shape[1:], dtype=a.dtype)
    buf[::k] = a
    return buf[::k]


def _readonly(a):
    a = np.array(a)
    a.setflags(write=False)
    return a


def _colstrided(P):
    buf = np.full((len(P), 5), -7.25)
    buf[:, 1::2] = P
    return buf[:, 1::2]


# name, integer type limiting the values (None = int64 range), builder(int), core
SCALAR_REPS = [
    ("python int", None, int, True),
    ("numpy.int64 scalar", np.int64, np.int64, True),
    ("numpy.int32 scalar", np.int32, np.int32, False),
    ("numpy.int16 scalar", np.int16, np.int16, False),
    ("numpy.int8 scalar", np.int8, np.int8, False),
    ("numpy.uint8 scalar", np.uint8, np.uint8, False),
    ("numpy.uint16 scalar", np.uint16, np.uint16, False),
    ("numpy.uint32 scalar", np.uint32, np.uint32, False),
    ("numpy.uint64 scalar", np.int64, lambda c: np.uint64(c) if c >= 0 else np.int64(c), False),
    ("numpy.intp scalar", np.intp, np.intp, False),
    ("0-d int64 array", np.int64, lambda c: np.array(c, dtype=np.int64), False),
    ("0-d int32 array", np.int32, lambda c: np.array(c, dtype=np.int32), False),
    ("0-d big-endian int64 array", np.int64, lambda c: np.array(c, dtype=">i8"), False),
]

# name, integer type limiting the values, builder(list of int), core
ARRAY_REPS = [
    ("int64 array", np.int64, lambda L: np.array(L, dtype=np.int64), True),
    ("list", None, list, True),
    ("tuple", None, tuple, False),
    ("list of numpy.int64 scalars", np.int64, lambda L: [np.int64(v) for v in L], False),
    ("int32 array", np.int32, lambda L: np.array(L, dtype=np.int32), False),
    ("int16 array", np.int16, lambda L: np.array(L, dtype=np.int16), False),
    ("int8 array", np.int8, lambda L: np.array(L, dtype=np.int8), False),
    ("uint8 array", np.uint8, lambda L: np.array(L, dtype=np.uint8), False),
    ("uint32 array", np.uint32, lambda L: np.array(L, dtype=np.uint32), False),
    ("big-endian int64 array", np.int64, lambda L: np.array(L, dtype=">i8"), False),
    ("big-endian int32 array", np.int32, lambda L: np.array(L, dtype=">i4"), False),
    ("strided int64 view", np.int64, lambda L: _strided(np.array(L, dtype=np.int64)), False),
    ("strided int32 view", np.int32, lambda L: _strided(np.array(L, dtype=np.int32), 2), False),
    ("reversed int64 view", np.int64, lambda L: np.array(L[::-1], dtype=np.int64)[::-1], False),
    ("read-only int64 array", np.int64, lambda L: _readonly(np.array(L, dtype=np.int64)), False),
    ("object array of python ints", None, lambda L: np.array(L, dtype=object), False),
]

# name, builder(float64 C array of shape (k, 2)), core.  The oracle is evaluated on the values the
# representation holds (np.asarray(obj, float64)): float32 rounds the points, everything else is exact.
COORD_REPS = [
    ("float64 array", lambda P: np.array(P), True),
    ("nested list", lambda P: P.tolist(), True),
    ("tuple of tuples", lambda P: tuple(map(tuple, P.tolist())), False),
    ("list of 1-d arrays", lambda P: [row.copy() for row in P], False),
    ("Fortran-ordered array", lambda P: np.asfortranarray(P), False),
    ("transposed view", lambda P: np.ascontiguousarray(P.T).T, False),
    ("row-strided view", lambda P: _strided(np.array(P), 2), False),
    ("column-strided view", _colstrided, False),
    ("reversed rows view", lambda P: np.array(P[::-1])[::-1], False),
    ("big-endian float64 array", lambda P: P.astype(">f8"), False),
    ("read-only array", _readonly, False),
    ("float32 array", lambda P: P.astype(np.float32), False),
    ("longdouble array", lambda P: P.astype(np.longdouble), False),
    ("object array of python floats", lambda P: np.array(P.tolist(), dtype=object), False),
]

# one point
POINT_REPS = [
    ("1-d float64 array", lambda x, y: np.array([x, y]), True),
    ("list [x, y]", lambda x, y: [x, y], True),
    ("tuple (x, y)", lambda x, y: (x, y), False),
    ("list of numpy.float64 scalars", lambda x, y: [np.float64(x), np.float64(y)], False),
    ("1-d strided view", lambda x, y: np.array([x, 0., y, 0.])[::2], False),
    ("nested list [[x, y]]", lambda x, y: [[x, y]], True),
]


def draw_geometry(rng, csz=None):
    """A geometry inside the property's quantifier (cell size, origin relative to the cell size)."""
    if csz is None:
        csz = rng.choice([1.0, 0.5, 2.0, 0.05, 10 ** rng.uniform(-4, 4), 0.025, 1e-4, 1e4])
    off = rng.choice([0, 1, 10, 1e2, 1e4])
    xll = rng.choice([0.0, rng.uniform(-1, 1) * off * csz, float(round(rng.uniform(-1, 1) * off)) * csz])
    yll = rng.choice([0.0, rng.uniform(-1, 1) * off * csz, -off * csz])
    return xll, yll, csz


def live_geometry(g):
    """The geometry of a Grid object = its public attributes, as they are now."""
    return int(g.nrows), int(g.ncols), float(g.xllcorner), float(g.yllcorner), float(g.cellsize)


def draw_points(rng, G, nin, nout, special=True):
    nrows, ncols, xll, yll, csz = G
    pts = []
    for _k in range(nin):  # inside footprints
        r, c = rng.randrange(nrows), rng.randrange(ncols)
        u = rng.choice([1e-9, 1e-6, 0.5, rng.random(), 1 - 1e-9, 1 - 1e-6])
        v = rng.choice([1e-9, 1e-6, 0.5, rng.random(), 1 - 1e-9, 1 - 1e-6])
        pts.append((xll + csz * (c + u), yll + csz * (nrows - 1 - r + v)))
    for _k in range(nout):  # outside, eight directions
        d = rng.choice([1e-9, 1e-6, 1e-3, 0.3, 0.5, 0.999, 1.0, 1.5, 7.0, 1e3, 1e6])
        sx, sy = rng.choice([(-1, 0), (1, 0), (0, -1), (0, 1), (-1, -1), (-1, 1), (1, -1), (1, 1)])
        u, v = rng.random() * ncols, rng.random() * nrows
        px = xll + csz * (-d if sx < 0 else ncols + d if sx > 0 else u)
        py = yll + csz * (-d if sy < 0 else nrows + d if sy > 0 else v)
        pts.append((px, py))
    if special:
        pts += [(float("nan"), yll), (xll + csz / 2, float("inf")), (-float("inf"), yll + csz / 2),
                (1e300, 1e300), (-1e300, yll + csz / 2)]
    return pts


def draw_ids(rng, G, nvalid, ninvalid, far=True):
    nrows, ncols = G[0], G[1]
    n = nrows * ncols
    inv = [-1, -2, -ncols, -n, n, n + 1, n + ncols, 10 * n + 3]
    if far:
        inv += [-2 ** 40, 2 ** 40, 2 ** 63 - 1, -2 ** 63, 2 ** 31, -2 ** 31 - 1]
    val = [0, ncols - 1, n - ncols, n - 1, n // 2]
    return ([rng.choice(val + [rng.randrange(n)] * 3) for _ in range(nvalid)]
            + [rng.choice(inv) for _ in range(ninvalid)])


class Obs:
    """Observers: one call of a cell function on one Grid object, the correspondence case(s) for the
    geometry the object has NOW, and the oracle of the property's clauses."""

    def __init__(self, ctx):
        self.ctx = ctx
        self.terms, self.replays = [], []
        self.orc_fail = set()
        self.unsupported = {}

    def add(self, term, replay, sig):
        self.terms.append(term)
        self.replays.append(replay)
        self.ctx.count(sig)
        if len(self.terms) % 700 == 1:
            self.ctx.sample(replay)
        return len(self.terms) - 1

    def fail(self, idx, key, what):
        self.orc_fail.add(idx)
        self.ctx.failure(key, self.replays[idx], what)

    def fail_plain(self, key, replay, what, sig):
        """A failure with no model case of its own (exception, malformed result)."""
        i = self.add("GRowcol 1%Z 1%Z 0%Z 0%Z 0%Z", replay, sig)
        self.fail(i, key, what)

    def _call(self, fn, name, f, arg, values, all_invalid, G, rep, core, extra):
        """Run f(arg).  Returns (True, result) or (False, None) when the call raised and that is
        acceptable (an error is a way of flagging invalid numbers; a representation that is not one of
        the library's own may be refused)."""
        geom = {"nrows": G[0], "ncols": G[1], "xll": G[2], "yll": G[3], "csz": G[4]}
        cm.mark(dict(geom, call=name, arg=repr(arg)[:300], representation=rep, **extra))
        try:
            with np.errstate(all="ignore"):
                return True, f(arg)
        except Exception as e:
            self.ctx.count((name, "raised", all_invalid, rep))
            if all_invalid:
                return False, None
            if core:
                self.fail_plain(f"C07/{name}/error",
                                dict(geom, call=name, arg=repr(arg)[:300], values=values, representation=rep,
                                     error=f"{type(e).__name__}: {e}"[:300], **extra),
                                f"{name}({values!r} given as {rep}) raised {type(e).__name__}: {str(e)[:120]} "
                                f"on a {G[0]}x{G[1]} grid", (name, "error"))
            else:
                self.unsupported[(name, rep)] = self.unsupported.get((name, rep), 0) + 1
            return False, None

    # ---- cell2coord
    def cell2coord(self, g, G, arg, ids, rep="int64 array", core=True, extra=None, roundtrip=True):
        extra = extra or {}
        nrows, ncols, xll, yll, csz = G
        n = nrows * ncols
        ok, res = self._call(g, "cell2coord", g.cell2coord, arg, ids,
                             all(not 0 <= i < n for i in ids), G, rep, core, extra)
        if not ok:
            return
        geom = {"nrows": nrows, "ncols": ncols, "xll": xll, "yll": yll, "csz": csz}
        try:
            xy = np.asarray(res, dtype=np.float64).reshape(-1, 2)
        except Exception:
            xy = np.zeros((0, 2))
        if len(xy) != len(ids):
            self.fail_plain("C07/cell2coord/not-centre",
                            dict(geom, call="cell2coord", idx=ids, representation=rep, impl=repr(res)[:300], **extra),
                            f"cell2coord({ids!r} given as {rep}) does not return one (x, y) per cell: {res!r}"[:300],
                            ("c2c", "shape"))
            return
        head = f"{cm.coq_z(nrows)} {cm.coq_z(ncols)} {cm.coq_float(xll)} {cm.coq_float(yll)} {cm.coq_float(csz)}"
        for idx, (x, y) in zip(ids, xy):
            x, y = float(x), float(y)
            i = self.add(f"GCell2coord {head} {cm.coq_z(idx)} {cm.coq_float(x)} {cm.coq_float(y)}",
                         dict(geom, call="cell2coord", idx=idx, representation=rep, impl=[x, y], **extra),
                         ("c2c", 0 <= idx < n, nrows == 1, ncols == 1, rep, bool(extra)))
            as_rep = "" if rep == "int64 array" else f" given as {rep}"
            if 0 <= idx < n:
                r, c = idx // ncols, idx % ncols
                ex = Fr(xll) + Fr(csz) * (c + Fr(1, 2))
                ey = Fr(yll) + Fr(csz) * (nrows - 1 - r + Fr(1, 2))
                tol = 1e-12 * (abs(xll) + abs(yll) + csz * (nrows + ncols))
                if not (math.isfinite(x) and math.isfinite(y)
                        and abs(Fr(x) - ex) <= tol and abs(Fr(y) - ey) <= tol):
                    self.fail(i, "C07/cell2coord/not-centre",
                              f"cell2coord({idx}{as_rep}) = {(x, y)} is not the cell centre {(float(ex), float(ey))} "
                              f"(grid {nrows}x{ncols} xll={xll!r} yll={yll!r} csz={csz!r})")
                elif roundtrip:
                    back = int(g.coord2cell(np.array([[x, y]]))[0])
                    self.ctx.count()
                    if back != idx:
                        self.fail(i, "C07/roundtrip", f"coord2cell(cell2coord({idx}{as_rep})) = {back}")
            elif not (math.isnan(x) and math.isnan(y)):
                self.fail(i, "C07/cell2coord/invalid-cell",
                          f"cell2coord({idx}{as_rep}) = {(x, y)} for an invalid cell "
                          f"(grid {nrows}x{ncols}: cells 0..{n - 1})")

    # ---- cell2rowcol
    def cell2rowcol(self, g, G, arg, ids, rep="int64 array", core=True, extra=None):
        extra = extra or {}
        nrows, ncols = G[0], G[1]
        n = nrows * ncols
        ok, res = self._call(g, "cell2rowcol", g.cell2rowcol, arg, ids,
                             all(not 0 <= i < n for i in ids), G, rep, core, extra)
        if not ok:
            return
        try:
            rc = np.asarray(res).reshape(-1, 2)
            rc = [(int(r), int(c)) for r, c in rc]
        except Exception:
            rc = []
        if len(rc) != len(ids):
            self.fail_plain("C07/cell2rowcol/wrong",
                            {"call": "cell2rowcol", "shape": [nrows, ncols], "idx": ids, "representation": rep,
                             "impl": repr(res)[:300], **extra},
                            f"cell2rowcol({ids!r} given as {rep}) does not return one (row, col) per cell: {res!r}"[:300],
                            ("rowcol", "shape"))
            return
        for idx, (r, c) in zip(ids, rc):
            i = self.add(f"GRowcol {cm.coq_z(nrows)} {cm.coq_z(ncols)} {cm.coq_z(idx)} {cm.coq_z(r)} {cm.coq_z(c)}",
                         {"call": "cell2rowcol", "shape": [nrows, ncols], "idx": idx, "representation": rep,
                          "impl": [r, c], **extra},
                         ("rowcol", 0 <= idx < n, nrows == 1, ncols == 1, rep, bool(extra)))
            want = (idx // ncols, idx % ncols) if 0 <= idx < n else (-1, -1)
            if (r, c) != want:
                as_rep = "" if rep == "int64 array" else f" given as {rep}"
                self.fail(i, "C07/cell2rowcol/wrong", f"cell2rowcol({idx}{as_rep}) on {nrows}x{ncols} -> {(r, c)}")

    # ---- neighbours
    def neighbours(self, g, G, arg, idx, rep="python int", extra=None):
        extra = extra or {}
        nrows, ncols = G[0], G[1]
        n = nrows * ncols
        cm.mark({"call": "neighbours", "shape": [nrows, ncols], "idx": idx, "representation": rep, **extra})
        try:
            ng = [int(v) for v in g.neighbours(arg)]
        except ValueError:
            ng = None
        i = self.add(f"GNeigh {cm.coq_z(nrows)} {cm.coq_z(ncols)} {cm.coq_z(idx)} "
                     f"{cm.coq_option(ng, cm.coq_zlist)}",
                     {"call": "neighbours", "shape": [nrows, ncols], "idx": idx, "representation": rep,
                      "impl": ng, **extra},
                     ("neigh", ng is None, nrows == 1, ncols == 1, rep, bool(extra)))
        as_rep = "" if rep == "python int" else f" given as {rep}"
        if (ng is None) != (not 0 <= idx < n):
            self.fail(i, "C07/neighbours/invalid-cell", f"neighbours({idx}{as_rep}) on {nrows}x{ncols} -> {ng}")
        elif ng is not None:
            r0, c0 = idx // ncols, idx % ncols
            want = []
            for iy in (-1, 0, 1):
                for ix in (-1, 0, 1):
                    r, c = r0 + iy, c0 + ix
                    want.append(-1 if (ix == 0 and iy == 0) or not (0 <= r < nrows and 0 <= c < ncols)
                                else r * ncols + c)
            if ng != want:
                self.fail(i, "C07/neighbours/wrong", f"neighbours({idx}{as_rep}) on {nrows}x{ncols} -> {ng}")

    # ---- coord2cell
    def coord2cell(self, g, G, arg, pts, rep="float64 array", core=True, extra=None):
        """pts = the points as the representation holds them (float64 values)."""
        extra = extra or {}
        nrows, ncols, xll, yll, csz = G
        geom = {"nrows": nrows, "ncols": ncols, "xll": xll, "yll": yll, "csz": csz}
        ok, res = self._call(g, "coord2cell", g.coord2cell, arg, [list(p) for p in pts], False, G, rep, core, extra)
        if not ok:
            return
        try:
            got = [int(v) for v in np.asarray(res).reshape(-1)]
        except Exception:
            got = []
        if len(got) != len(pts):
            self.fail_plain("C07/coord2cell/inside-wrong-cell",
                            dict(geom, call="coord2cell", points=[list(p) for p in pts], representation=rep,
                                 impl=repr(res)[:300], **extra),
                            f"coord2cell of {len(pts)} point(s) given as {rep} does not return one cell per point: "
                            f"{res!r}"[:300], ("p2c", "shape"))
            return
        head = f"{cm.coq_z(nrows)} {cm.coq_z(ncols)} {cm.coq_float(xll)} {cm.coq_float(yll)} {cm.coq_float(csz)}"
        for (x, y), cell in zip(pts, got):
            x, y = float(x), float(y)
            want, margin = exact_cell(nrows, ncols, xll, yll, csz, x, y)
            cls = ("nonfinite" if margin is None else "outside" if want < 0 else "inside",
                   None if margin is None else margin < 1e-5, nrows == 1, ncols == 1, rep, bool(extra))
            i = self.add(f"GCoord2cell {head} {cm.coq_float(x)} {cm.coq_float(y)} {cm.coq_z(cell)}",
                         dict(geom, call="coord2cell", point=[x, y], representation=rep, impl=cell, exact=want,
                              **extra), ("p2c",) + cls)
            scale = max(abs(xll), abs(yll), abs(x) if math.isfinite(x) else 0,
                        abs(y) if math.isfinite(y) else 0) / csz
            safe = margin is None or margin > 1e-9 + 4e-16 * scale
            if safe and cell != want:
                side = "outside-maps-to-cell" if want < 0 else "inside-wrong-cell"
                as_rep = "" if rep == "float64 array" else f" given as {rep}"
                self.fail(i, f"C07/coord2cell/{side}",
                          f"coord2cell({x!r},{y!r}{as_rep}) = {cell}, exact answer {want} "
                          f"(grid {nrows}x{ncols} xll={xll!r} yll={yll!r} csz={csz!r})")

    # ---- xvalues / yvalues
    def xyvalues(self, g, G, extra=None):
        extra = extra or {}
        nrows, ncols, xll, yll, csz = G
        geom = {"nrows": nrows, "ncols": ncols, "xll": xll, "yll": yll, "csz": csz}
        cm.mark(dict(geom, call="xvalues/yvalues", **extra))
        xv, yv = g.xvalues, g.yvalues
        self.ctx.count(("xvalues", nrows == 1, ncols == 1, bool(extra)))
        okx = len(xv) == ncols and all(
            abs(Fr(float(xv[c])) - (Fr(xll) + Fr(csz) * (c + Fr(1, 2)))) <= 1e-12 * (abs(xll) + csz * ncols)
            for c in range(ncols))
        oky = len(yv) == nrows and all(
            abs(Fr(float(yv[r])) - (Fr(yll) + Fr(csz) * (nrows - 1 - r + Fr(1, 2)))) <= 1e-12 * (abs(yll) + csz * nrows)
            for r in range(nrows))
        if not (okx and oky):
            self.fail_plain("C07/xvalues-yvalues",
                            dict(geom, call="xvalues/yvalues", xvalues=[float(v) for v in xv][:50],
                                 yvalues=[float(v) for v in yv][:50], **extra),
                            f"xvalues/yvalues are not the column/row centres of the grid {nrows}x{ncols} "
                            f"xll={xll!r} yll={yll!r} csz={csz!r}", ("xv",))


def run(ctx):
    ctx.rule = ("integer operations: every shape 1..5 x 1..5 (thorough 1..8) and every cell number -2..n+1 "
                "(exhaustive); coordinates: random shapes up to 40x40, cell sizes 1e-4..1e4, origins up to 1e4 "
                "cells from zero, points inside every sampled footprint (>=1e-9 from edges), on 8 outside "
                "directions from 1e-9 to 1e6 cells away, NaN/inf; non-trivial = distinct (kind, class) signature")
    ctx.trusted = cm.STD_TRUST + ["x86-64 cvttsd2si semantics for out-of-range casts (model returns -1)"]
    ctx.tested_not_proved = ["binary64 rounding never moves a point across a cell edge when it is 1e-9 "
                             "(relative) away from it - tested with an exact rational oracle"]
    proved = cm.prove_with_kernels(ctx, ["getnxy", "getcoord", "c_coord2cell", "c_cell2rowcol", "c_cell2coord", "c_neighbours"])
    cm.use_impl()
    rng = ctx.rng
    terms, replays = [], []
    orc_fail = set()

    def add(term, replay, sig):
        terms.append(term)
        replays.append(replay)
        ctx.count(sig)
        if len(terms) % 700 == 1:
            ctx.sample(replay)
        return len(terms) - 1

    def fail(idx, key, what):
        orc_fail.add(idx)
        ctx.failure(key, replays[idx], what)

    # ---- integer operations, exhaustive on small shapes
    S = ctx.scale(5, 8)
    for nrows in range(1, S + 1):
        for ncols in range(1, S + 1):
            g = mkgrid(nrows, ncols, 0., 0., 1.)
            n = nrows * ncols
            ids = list(range(-2, n + 2))
            rc = g.cell2rowcol(np.array(ids))
            for idx, (r, c) in zip(ids, rc):
                i = add(f"GRowcol {cm.coq_z(nrows)} {cm.coq_z(ncols)} {cm.coq_z(idx)} {cm.coq_z(r)} {cm.coq_z(c)}",
                        {"call": "cell2rowcol", "shape": [nrows, ncols], "idx": idx, "impl": [int(r), int(c)]},
                        ("rowcol", 0 <= idx < n, nrows == 1, ncols == 1))
                want = (idx // ncols, idx % ncols) if 0 <= idx < n else (-1, -1)
                if (int(r), int(c)) != want:
                    fail(i, "C07/cell2rowcol/wrong", f"cell2rowcol({idx}) on {nrows}x{ncols} -> {(int(r), int(c))}")
            for idx in ids:
                try:
                    ng = [int(v) for v in g.neighbours(idx)]
                except ValueError:
                    ng = None
                i = add(f"GNeigh {cm.coq_z(nrows)} {cm.coq_z(ncols)} {cm.coq_z(idx)} "
                        f"{cm.coq_option(ng, cm.coq_zlist)}",
                        {"call": "neighbours", "shape": [nrows, ncols], "idx": idx, "impl": ng},
                        ("neigh", ng is None, nrows == 1, ncols == 1))
                if (ng is None) != (not 0 <= idx < n):
                    fail(i, "C07/neighbours/invalid-cell", f"neighbours({idx}) on {nrows}x{ncols} -> {ng}")
                elif ng is not None:
                    r0, c0 = idx // ncols, idx % ncols
                    want = []
                    for iy in (-1, 0, 1):
                        for ix in (-1, 0, 1):
                            r, c = r0 + iy, c0 + ix
                            want.append(-1 if (ix == 0 and iy == 0) or not (0 <= r < nrows and 0 <= c < ncols)
                                        else r * ncols + c)
                    if ng != want:
                        fail(i, "C07/neighbours/wrong", f"neighbours({idx}) on {nrows}x{ncols} -> {ng}")

    # ---- coordinates
    ngrids = ctx.scale(60, 600)
    for _ in range(ngrids):
        nrows = rng.choice([1, 2, 3, rng.randint(1, 40)])
        ncols = rng.choice([1, 2, 3, rng.randint(1, 40)])
        csz = rng.choice([1.0, 0.5, 2.0, 0.05, 10 ** rng.uniform(-4, 4), 0.025, 1e-4, 1e4])
        off = rng.choice([0, 1, 10, 1e2, 1e4])
        xll = rng.choice([0.0, rng.uniform(-1, 1) * off * csz, float(round(rng.uniform(-1, 1) * off)) * csz])
        yll = rng.choice([0.0, rng.uniform(-1, 1) * off * csz, -off * csz])
        g = mkgrid(nrows, ncols, xll, yll, csz)
        n = nrows * ncols
        head = f"{cm.coq_z(nrows)} {cm.coq_z(ncols)} {cm.coq_float(xll)} {cm.coq_float(yll)} {cm.coq_float(csz)}"
        geom = {"nrows": nrows, "ncols": ncols, "xll": xll, "yll": yll, "csz": csz}
        # cell2coord of valid and invalid cells
        ids = sorted(set([-1, 0, n - 1, n, n + 3] + [rng.randrange(n) for _ in range(6)]))
        xy = g.cell2coord(np.array(ids))
        for idx, (x, y) in zip(ids, xy):
            i = add(f"GCell2coord {head} {cm.coq_z(idx)} {cm.coq_float(x)} {cm.coq_float(y)}",
                    dict(geom, call="cell2coord", idx=idx, impl=[float(x), float(y)]),
                    ("c2c", 0 <= idx < n, nrows == 1, ncols == 1))
            if 0 <= idx < n:
                r, c = idx // ncols, idx % ncols
                ex = Fr(xll) + Fr(csz) * (c + Fr(1, 2))
                ey = Fr(yll) + Fr(csz) * (nrows - 1 - r + Fr(1, 2))
                tol = 1e-12 * (abs(xll) + abs(yll) + csz * (nrows + ncols))
                if not (abs(Fr(float(x)) - ex) <= tol and abs(Fr(float(y)) - ey) <= tol):
                    fail(i, "C07/cell2coord/not-centre", f"cell2coord({idx}) = {(x, y)} is not the cell centre")
                back = int(g.coord2cell(np.array([[x, y]]))[0])
                ctx.count()
                if back != idx:
                    fail(i, "C07/roundtrip", f"coord2cell(cell2coord({idx})) = {back}")
            elif not (math.isnan(x) and math.isnan(y)):
                fail(i, "C07/cell2coord/invalid-cell", f"cell2coord({idx}) = {(x, y)} for an invalid cell")
        # points
        pts = []
        for _k in range(10):  # inside footprints
            r, c = rng.randrange(nrows), rng.randrange(ncols)
            u = rng.choice([1e-9, 1e-6, 0.5, rng.random(), 1 - 1e-9, 1 - 1e-6])
            v = rng.choice([1e-9, 1e-6, 0.5, rng.random(), 1 - 1e-9, 1 - 1e-6])
            pts.append((xll + csz * (c + u), yll + csz * (nrows - 1 - r + v)))
        for _k in range(16):  # outside, eight directions
            d = rng.choice([1e-9, 1e-6, 1e-3, 0.3, 0.5, 0.999, 1.0, 1.5, 7.0, 1e3, 1e6])
            sx, sy = rng.choice([(-1, 0), (1, 0), (0, -1), (0, 1), (-1, -1), (-1, 1), (1, -1), (1, 1)])
            u, v = rng.random() * ncols, rng.random() * nrows
            px = xll + csz * (-d if sx < 0 else ncols + d if sx > 0 else u)
            py = yll + csz * (-d if sy < 0 else nrows + d if sy > 0 else v)
            pts.append((px, py))
        pts += [(float("nan"), yll), (xll + csz / 2, float("inf")), (-float("inf"), yll + csz / 2),
                (1e300, 1e300), (-1e300, yll + csz / 2)]
        with np.errstate(all="ignore"):
            got = g.coord2cell(np.array(pts))
        for (x, y), cell in zip(pts, got):
            cell = int(cell)
            want, margin = exact_cell(nrows, ncols, xll, yll, csz, x, y)
            cls = ("nonfinite" if margin is None else "outside" if want < 0 else "inside",
                   None if margin is None else margin < 1e-5, nrows == 1, ncols == 1)
            i = add(f"GCoord2cell {head} {cm.coq_float(x)} {cm.coq_float(y)} {cm.coq_z(cell)}",
                    dict(geom, call="coord2cell", point=[x, y], impl=cell, exact=want), ("p2c",) + cls)
            scale = max(abs(xll), abs(yll), abs(x) if math.isfinite(x) else 0,
                        abs(y) if math.isfinite(y) else 0) / csz
            safe = margin is None or margin > 1e-9 + 4e-16 * scale
            if safe and cell != want:
                side = "outside-maps-to-cell" if want < 0 else "inside-wrong-cell"
                fail(i, f"C07/coord2cell/{side}",
                     f"coord2cell({x!r},{y!r}) = {cell}, exact answer {want} "
                     f"(grid {nrows}x{ncols} xll={xll!r} yll={yll!r} csz={csz!r})")
        # derived properties
        xv, yv = g.xvalues, g.yvalues
        ctx.count(("xvalues", nrows == 1, ncols == 1))
        okx = len(xv) == ncols and all(abs(Fr(float(xv[c])) - (Fr(xll) + Fr(csz) * (c + Fr(1, 2)))) <= 1e-12 * (abs(xll) + csz * ncols)
                  for c in range(ncols))
        oky = len(yv) == nrows and all(abs(Fr(float(yv[r])) - (Fr(yll) + Fr(csz) * (nrows - 1 - r + Fr(1, 2)))) <= 1e-12 * (abs(yll) + csz * nrows)
                  for r in range(nrows))
        if not (okx and oky):
            i = add(f"GRowcol 1%Z 1%Z 0%Z 0%Z 0%Z", dict(geom, call="xvalues/yvalues"), ("xv",))
            fail(i, "C07/xvalues-yvalues", "xvalues/yvalues are not the column/row centres")

    bad, nshards, failed = cm.run_case_files(PID, HEADER, "gcase", "g_ok", terms, shard=1500)
    ctx.notes["correspondence_cases"] = len(terms)
    ctx.notes["correspondence_mismatches"] = len(bad)
    for k in range(nshards):
        ctx.obligation(f"Cases_{PID}_{k}.agree (model = implementation on the shard)", True)
    cm.settle(ctx, proved, bad, failed, orc_fail, lambda i: replays[i],
              "Model/Grid.v (geometry) vs c_grid.c + grid.py")
    return ctx.finish()
