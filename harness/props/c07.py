"""C07 - grid cell numbers, rows/columns and coordinates are mutually consistent."""
import math
from fractions import Fraction as Fr

import numpy as np

from harness import common as cm

PID = "C07"
HEADER = "From Coq Require Import ZArith List PrimFloat.\nFrom Hy Require Import Base.Num Model.Grid."


def mkgrid(nrows, ncols, xll, yll, csz):
    from hydrodiy.gis.grid import Grid
    return Grid("g", ncols, nrows, cellsize=csz, xllcorner=xll, yllcorner=yll)


def exact_cell(nrows, ncols, xll, yll, csz, x, y):
    """Exact (rational) answer and the distance to the nearest cell edge in cell units."""
    if not (math.isfinite(x) and math.isfinite(y)):
        return -1, None
    qx = (Fr(x) - Fr(xll)) / Fr(csz)
    qy = (Fr(y) - Fr(yll)) / Fr(csz)
    fx, fy = math.floor(qx), math.floor(qy)
    margin = min(qx - fx, fx + 1 - qx, qy - fy, fy + 1 - qy)
    if fx < 0 or fx >= ncols or fy < 0 or fy >= nrows:
        # outside: margin = distance to the extent in cell units
        dx = max(-qx, qx - ncols, 0)
        dy = max(-qy, qy - nrows, 0)
        return -1, max(dx, dy)
    return (nrows - 1 - fy) * ncols + fx, margin


def run(ctx):
    ctx.rule = ("integer operations: every shape 1..5 x 1..5 (thorough 1..8) and every cell number -2..n+1 "
                "(exhaustive); coordinates: random shapes up to 40x40, cell sizes 1e-4..1e4, origins up to 1e4 "
                "cells from zero, points inside every sampled footprint (>=1e-9 from edges), on 8 outside "
                "directions from 1e-9 to 1e6 cells away, NaN/inf; non-trivial = distinct (kind, class) signature")
    ctx.trusted = cm.STD_TRUST + ["x86-64 cvttsd2si semantics for out-of-range casts (model returns -1)"]
    ctx.tested_not_proved = ["binary64 rounding never moves a point across a cell edge when it is 1e-9 "
                             "(relative) away from it - tested with an exact rational oracle"]
    proved = cm.prove_with_kernels(ctx, ["getnxy", "getcoord", "c_coord2cell", "c_cell2rowcol", "c_cell2coord", "c_neighbours"])
    cm.use_impl()
    rng = ctx.rng
    terms, replays = [], []
    orc_fail = set()

    def add(term, replay, sig):
        terms.append(term)
        replays.append(replay)
        ctx.count(sig)
        if len(terms) % 700 == 1:
            ctx.sample(replay)
        return len(terms) - 1

    def fail(idx, key, what):
        orc_fail.add(idx)
        ctx.failure(key, replays[idx], what)

    # ---- integer operations, exhaustive on small shapes
    S = ctx.scale(5, 8)
    for nrows in range(1, S + 1):
        for ncols in range(1, S + 1):
            g = mkgrid(nrows, ncols, 0., 0., 1.)
            n = nrows * ncols
            ids = list(range(-2, n + 2))
            rc = g.cell2rowcol(np.array(ids))
            for idx, (r, c) in zip(ids, rc):
                i = add(f"GRowcol {cm.coq_z(nrows)} {cm.coq_z(ncols)} {cm.coq_z(idx)} {cm.coq_z(r)} {cm.coq_z(c)}",
                        {"call": "cell2rowcol", "shape": [nrows, ncols], "idx": idx, "impl": [int(r), int(c)]},
                        ("rowcol", 0 <= idx < n, nrows == 1, ncols == 1))
                want = (idx // ncols, idx % ncols) if 0 <= idx < n else (-1, -1)
                if (int(r), int(c)) != want:
                    fail(i, "C07/cell2rowcol/wrong", f"cell2rowcol({idx}) on {nrows}x{ncols} -> {(int(r), int(c))}")
            for idx in ids:
                try:
                    ng = [int(v) for v in g.neighbours(idx)]
                except ValueError:
                    ng = None
                i = add(f"GNeigh {cm.coq_z(nrows)} {cm.coq_z(ncols)} {cm.coq_z(idx)} "
                        f"{cm.coq_option(ng, cm.coq_zlist)}",
                        {"call": "neighbours", "shape": [nrows, ncols], "idx": idx, "impl": ng},
                        ("neigh", ng is None, nrows == 1, ncols == 1))
                if (ng is None) != (not 0 <= idx < n):
                    fail(i, "C07/neighbours/invalid-cell", f"neighbours({idx}) on {nrows}x{ncols} -> {ng}")
                elif ng is not None:
                    r0, c0 = idx // ncols, idx % ncols
                    want = []
                    for iy in (-1, 0, 1):
                        for ix in (-1, 0, 1):
                            r, c = r0 + iy, c0 + ix
                            want.append(-1 if (ix == 0 and iy == 0) or not (0 <= r < nrows and 0 <= c < ncols)
                                        else r * ncols + c)
                    if ng != want:
                        fail(i, "C07/neighbours/wrong", f"neighbours({idx}) on {nrows}x{ncols} -> {ng}")

    # ---- coordinates
    ngrids = ctx.scale(60, 600)
    for _ in range(ngrids):
        nrows = rng.choice([1, 2, 3, rng.randint(1, 40)])
        ncols = rng.choice([1, 2, 3, rng.randint(1, 40)])
        csz = rng.choice([1.0, 0.5, 2.0, 0.05, 10 ** rng.uniform(-4, 4), 0.025, 1e-4, 1e4])
        off = rng.choice([0, 1, 10, 1e2, 1e4])
        xll = rng.choice([0.0, rng.uniform(-1, 1) * off * csz, float(round(rng.uniform(-1, 1) * off)) * csz])
        yll = rng.choice([0.0, rng.uniform(-1, 1) * off * csz, -off * csz])
        g = mkgrid(nrows, ncols, xll, yll, csz)
        n = nrows * ncols
        head = f"{cm.coq_z(nrows)} {cm.coq_z(ncols)} {cm.coq_float(xll)} {cm.coq_float(yll)} {cm.coq_float(csz)}"
        geom = {"nrows": nrows, "ncols": ncols, "xll": xll, "yll": yll, "csz": csz}
        # cell2coord of valid and invalid cells
        ids = sorted(set([-1, 0, n - 1, n, n + 3] + [rng.randrange(n) for _ in range(6)]))
        xy = g.cell2coord(np.array(ids))
        for idx, (x, y) in zip(ids, xy):
            i = add(f"GCell2coord {head} {cm.coq_z(idx)} {cm.coq_float(x)} {cm.coq_float(y)}",
                    dict(geom, call="cell2coord", idx=idx, impl=[float(x), float(y)]),
                    ("c2c", 0 <= idx < n, nrows == 1, ncols == 1))
            if 0 <= idx < n:
                r, c = idx // ncols, idx % ncols
                ex = Fr(xll) + Fr(csz) * (c + Fr(1, 2))
                ey = Fr(yll) + Fr(csz) * (nrows - 1 - r + Fr(1, 2))
                tol = 1e-12 * (abs(xll) + abs(yll) + csz * (nrows + ncols))
                if not (abs(Fr(float(x)) - ex) <= tol and abs(Fr(float(y)) - ey) <= tol):
                    fail(i, "C07/cell2coord/not-centre", f"cell2coord({idx}) = {(x, y)} is not the cell centre")
                back = int(g.coord2cell(np.array([[x, y]]))[0])
                ctx.count()
                if back != idx:
                    fail(i, "C07/roundtrip", f"coord2cell(cell2coord({idx})) = {back}")
            elif not (math.isnan(x) and math.isnan(y)):
                fail(i, "C07/cell2coord/invalid-cell", f"cell2coord({idx}) = {(x, y)} for an invalid cell")
        # points
        pts = []
        for _k in range(10):  # inside footprints
            r, c = rng.randrange(nrows), rng.randrange(ncols)
            u = rng.choice([1e-9, 1e-6, 0.5, rng.random(), 1 - 1e-9, 1 - 1e-6])
            v = rng.choice([1e-9, 1e-6, 0.5, rng.random(), 1 - 1e-9, 1 - 1e-6])
            pts.append((xll + csz * (c + u), yll + csz * (nrows - 1 - r + v)))
        for _k in range(16):  # outside, eight directions
            d = rng.choice([1e-9, 1e-6, 1e-3, 0.3, 0.5, 0.999, 1.0, 1.5, 7.0, 1e3, 1e6])
            sx, sy = rng.choice([(-1, 0), (1, 0), (0, -1), (0, 1), (-1, -1), (-1, 1), (1, -1), (1, 1)])
            u, v = rng.random() * ncols, rng.random() * nrows
            px = xll + csz * (-d if sx < 0 else ncols + d if sx > 0 else u)
            py = yll + csz * (-d if sy < 0 else nrows + d if sy > 0 else v)
            pts.append((px, py))
        pts += [(float("nan"), yll), (xll + csz / 2, float("inf")), (-float("inf"), yll + csz / 2),
                (1e300, 1e300), (-1e300, yll + csz / 2)]
        with np.errstate(all="ignore"):
            got = g.coord2cell(np.array(pts))
        for (x, y), cell in zip(pts, got):
            cell = int(cell)
            want, margin = exact_cell(nrows, ncols, xll, yll, csz, x, y)
            cls = ("nonfinite" if margin is None else "outside" if want < 0 else "inside",
                   None if margin is None else margin < 1e-5, nrows == 1, ncols == 1)
            i = add(f"GCoord2cell {head} {cm.coq_float(x)} {cm.coq_float(y)} {cm.coq_z(cell)}",
                    dict(geom, call="coord2cell", point=[x, y], impl=cell, exact=want), ("p2c",) + cls)
            scale = max(abs(xll), abs(yll), abs(x) if math.isfinite(x) else 0,
                        abs(y) if math.isfinite(y) else 0) / csz
            safe = margin is None or margin > 1e-9 + 4e-16 * scale
            if safe and cell != want:
                side = "outside-maps-to-cell" if want < 0 else "inside-wrong-cell"
                fail(i, f"C07/coord2cell/{side}",
                     f"coord2cell({x!r},{y!r}) = {cell}, exact answer {want} "
                     f"(grid {nrows}x{ncols} xll={xll!r} yll={yll!r} csz={csz!r})")
        # derived properties
        xv, yv = g.xvalues, g.yvalues
        ctx.count(("xvalues", nrows == 1, ncols == 1))
        okx = len(xv) == ncols and all(abs(Fr(float(xv[c])) - (Fr(xll) + Fr(csz) * (c + Fr(1, 2)))) <= 1e-12 * (abs(xll) + csz * ncols)
                  for c in range(ncols))
        oky = len(yv) == nrows and all(abs(Fr(float(yv[r])) - (Fr(yll) + Fr(csz) * (nrows - 1 - r + Fr(1, 2)))) <= 1e-12 * (abs(yll) + csz * nrows)
                  for r in range(nrows))
        if not (okx and oky):
            i = add(f"GRowcol 1%Z 1%Z 0%Z 0%Z 0%Z", dict(geom, call="xvalues/yvalues"), ("xv",))
            fail(i, "C07/xvalues-yvalues", "xvalues/yvalues are not the column/row centres")

    bad, nshards, failed = cm.run_case_files(PID, HEADER, "gcase", "g_ok", terms, shard=1500)
    ctx.notes["correspondence_cases"] = len(terms)
    ctx.notes["correspondence_mismatches"] = len(bad)
    for k in range(nshards):
        ctx.obligation(f"Cases_{PID}_{k}.agree (model = implementation on the shard)", True)
    cm.settle(ctx, proved, bad, failed, orc_fail, lambda i: replays[i],
              "Model/Grid.v (geometry) vs c_grid.c + grid.py")
    return ctx.finish()
