"""C07 - grid cell numbers, rows/columns and coordinates are mutually consistent."""
import math
from fractions import Fraction as Fr

import numpy as np

from harness import common as cm

PID = "C07"
HEADER = "From Coq Require Import ZArith List PrimFloat.\nFrom Hy Require Import Base.Num Model.Grid."


def mkgrid(nrows, ncols, xll, yll, csz):
    from hydrodiy.gis.grid import Grid
    return Grid("g", ncols, nrows, cellsize=csz, xllcorner=xll, yllcorner=yll)


def exact_cell(nrows, ncols, xll, yll, csz, x, y):
    """Exact (rational) answer and the distance to the nearest cell edge in cell units."""
    if not (math.isfinite(x) and math.isfinite(y)):
        return -1, None
    qx = (Fr(x) - Fr(xll)) / Fr(csz)
    qy = (Fr(y) - Fr(yll)) / Fr(csz)
    fx, fy = math.floor(qx), math.floor(qy)
    margin = min(qx - fx, fx + 1 - qx, qy - fy, fy + 1 - qy)
    if fx < 0 or fx >= ncols or fy < 0 or fy >= nrows:
        # outside: margin = distance to the extent in cell units
        dx = max(-qx, qx - ncols, 0)
        dy = max(-qy, qy - nrows, 0)
        return -1, max(dx, dy)
    return (nrows - 1 - fy) * ncols + fx, margin


_BAND = Fr(4, 10 ** 16)


def outside_decisive(nrows, ncols, xll, yll, csz, x, y):
    """The property: -1 for EVERY point outside the extent, "from just outside".  A point is outside when it is
    outside in exact arithmetic on the binary64 values held (half-open extent: x < xll or x >= xll + ncols*csz,
    same in y).  It is judged as soon as, on one axis at least, its exact distance to the extent (cell units)
    exceeds what ANY binary64 evaluation of the offset can err by - 4e-16 x the largest magnitude involved on that
    axis (|origin|, |coordinate|, extent; cell units), i.e. <= 4e-12 cell in the property's quantifier.  No other
    band is excluded on the outside (the 1e-9 of the property's text qualifies the points INSIDE a footprint)."""
    c = Fr(csz)
    for p, o, n in ((x, xll, ncols), (y, yll, nrows)):
        fp, fo = Fr(p), Fr(o)
        q = (fp - fo) / c
        d = max(-q, q - n)
        if d > _BAND * (max(abs(fp), abs(fo)) / c + n):
            return True
    return False


def _step(v, k):
    """The k-th binary64 number after v (k > 0: towards +inf, k < 0: towards -inf)."""
    import struct
    i = struct.unpack("<q", struct.pack("<d", v))[0]
    if i < 0:
        i = -(i & 0x7fffffffffffffff)
    i += k
    bits = i if i >= 0 else ((-i) | (1 << 63))
    return struct.unpack("<d", struct.pack("<Q", bits))[0]


def edge_neighbour(o, csz, n, side, k):
    """The k-th binary64 number outside the extent [o, o + n*csz) beyond its lower (side < 0) or upper (side > 0)
    edge, the edge being taken in exact arithmetic (k = 1 on the upper side may be the edge itself: half-open)."""
    if side < 0:
        return _step(o, -k)
    e = Fr(o) + n * Fr(csz)
    v = float(e)
    if Fr(v) < e:
        v = _step(v, 1)
    return _step(v, k - 1)


def inner_neighbour(o, csz, n, side, k):
    """The k-th binary64 number inside the extent next to its lower / upper edge (exact arithmetic)."""
    if side < 0:
        return _step(o, k - 1)          # the lower edge itself belongs to the extent
    e = Fr(o) + n * Fr(csz)
    v = float(e)
    if Fr(v) >= e:
        v = _step(v, -1)
    return _step(v, -(k - 1))


# distances to the extent, cell units ("from just outside to far away")
OUT_DISTS = [1e-15, 1e-14, 1e-13, 1e-12, 1e-11, 1e-10, 1e-9, 2e-9, 1e-8, 1e-7, 1e-6, 1e-5, 1e-4, 1e-3, 0.01, 0.3,
             0.5, 0.999, 1.0, 1.5, 7.0, 1e3, 1e6, 1e9, 1e12]
# depth inside the border cells, cell units (the quantifier: >= 1e-9 from the edges)
IN_DISTS = [2e-9, 1e-8, 1e-7, 1e-6, 1e-4, 0.01, 0.5]
# binary64 neighbours of the exact edges
ULPS = [1, 2, 3, 4, 7, 64, 1000, 10 ** 6, 10 ** 9]
# far away, at the distances where a narrower integer type or the 53-bit mantissa would wrap / saturate
FAR = [2.0 ** 31, 2.0 ** 32, 2.0 ** 33, 2.0 ** 52, 2.0 ** 53, 2.0 ** 63, 2.0 ** 64, 2.0 ** 70]
DIRS = [(-1, 0), (1, 0), (0, -1), (0, 1), (-1, -1), (-1, 1), (1, -1), (1, 1)]


def border_points(rng, G, keep=1.0):
    """The extent's border seen from both sides, on the four sides and the four diagonals: points outside at every
    distance of OUT_DISTS, the binary64 neighbours of the exact edges (ULPS), far points (FAR), and the mirrored
    points just inside the border cells (IN_DISTS, and ULPS from 64 on when that is >= 1e-9 cell deep - the oracle
    decides).  keep < 1: a random subset."""
    nrows, ncols, xll, yll, csz = G

    def along(n):
        # position along a side, cell units: in the first / last cell, near a corner, anywhere
        return rng.choice([0.5, n - 0.5, 2e-9, n - 2e-9, rng.random() * n])

    pts = []
    for sx, sy in DIRS:
        for kind, vals in (("out", OUT_DISTS), ("in", IN_DISTS), ("ulp", ULPS), ("ulp-in", ULPS[5:]), ("far", FAR)):
            for d in vals:
                if rng.random() >= keep:
                    continue
                u, v = along(ncols), along(nrows)
                if kind == "out":
                    px = xll + csz * (-d if sx < 0 else ncols + d if sx > 0 else u)
                    py = yll + csz * (-d if sy < 0 else nrows + d if sy > 0 else v)
                elif kind == "in":
                    px = xll + csz * (d if sx < 0 else ncols - d if sx > 0 else u)
                    py = yll + csz * (d if sy < 0 else nrows - d if sy > 0 else v)
                elif kind == "ulp":
                    px = edge_neighbour(xll, csz, ncols, sx, d) if sx else xll + csz * u
                    py = edge_neighbour(yll, csz, nrows, sy, d) if sy else yll + csz * v
                elif kind == "ulp-in":
                    px = inner_neighbour(xll, csz, ncols, sx, d) if sx else xll + csz * u
                    py = inner_neighbour(yll, csz, nrows, sy, d) if sy else yll + csz * v
                else:
                    px = xll + csz * (u + sx * d)
                    py = yll + csz * (v + sy * d)
                pts.append((px, py))
    return pts


# ----------------------------------------------------------------------------
# Stored representations of the arguments (the quantifier's "all valid and invalid cell
# numbers", "points"): the same number / point handed over as a Python scalar, a numpy scalar
# of any integer type, a 0-d array, a list, a tuple, arrays of every integer / float type,
# byte order and memory layout.  `core` = representations the library itself uses when it calls
# these functions (Grid.clip, xvalues, catchment code): an exception there for a valid cell or a
# finite point is a failure; elsewhere an exception only means "representation not accepted".

def _fits(vals, dt):
    if dt is None:
        return all(-2 ** 63 <= v < 2 ** 63 for v in vals)
    info = np.iinfo(dt)
    return all(info.min <= v <= info.max for v in vals)


def _strided(a, k=3):
    buf = np.zeros((len(a) * k,) + a.shape[1:], dtype=a.dtype)
    buf[::k] = a
    return buf[::k]


def _readonly(a):
    a = np.array(a)
    a.setflags(write=False)
    return a


def _colstrided(P):
    buf = np.full((len(P), 5), -7.25)
    buf[:, 1::2] = P
    return buf[:, 1::2]


# name, integer type limiting the values (None = int64 range), builder(int), core
SCALAR_REPS = [
    ("python int", None, int, True),
    ("numpy.int64 scalar", np.int64, np.int64, True),
    ("numpy.int32 scalar", np.int32, np.int32, False),
    ("numpy.int16 scalar", np.int16, np.int16, False),
    ("numpy.int8 scalar", np.int8, np.int8, False),
    ("numpy.uint8 scalar", np.uint8, np.uint8, False),
    ("numpy.uint16 scalar", np.uint16, np.uint16, False),
    ("numpy.uint32 scalar", np.uint32, np.uint32, False),
    ("numpy.uint64 scalar", np.int64, lambda c: np.uint64(c) if c >= 0 else np.int64(c), False),
    ("numpy.intp scalar", np.intp, np.intp, False),
    ("0-d int64 array", np.int64, lambda c: np.array(c, dtype=np.int64), False),
    ("0-d int32 array", np.int32, lambda c: np.array(c, dtype=np.int32), False),
    ("0-d big-endian int64 array", np.int64, lambda c: np.array(c, dtype=">i8"), False),
]

# name, integer type limiting the values, builder(list of int), core
ARRAY_REPS = [
    ("int64 array", np.int64, lambda L: np.array(L, dtype=np.int64), True),
    ("list", None, list, True),
    ("tuple", None, tuple, False),
    ("list of numpy.int64 scalars", np.int64, lambda L: [np.int64(v) for v in L], False),
    ("int32 array", np.int32, lambda L: np.array(L, dtype=np.int32), False),
    ("int16 array", np.int16, lambda L: np.array(L, dtype=np.int16), False),
    ("int8 array", np.int8, lambda L: np.array(L, dtype=np.int8), False),
    ("uint8 array", np.uint8, lambda L: np.array(L, dtype=np.uint8), False),
    ("uint32 array", np.uint32, lambda L: np.array(L, dtype=np.uint32), False),
    ("big-endian int64 array", np.int64, lambda L: np.array(L, dtype=">i8"), False),
    ("big-endian int32 array", np.int32, lambda L: np.array(L, dtype=">i4"), False),
    ("strided int64 view", np.int64, lambda L: _strided(np.array(L, dtype=np.int64)), False),
    ("strided int32 view", np.int32, lambda L: _strided(np.array(L, dtype=np.int32), 2), False),
    ("reversed int64 view", np.int64, lambda L: np.array(L[::-1], dtype=np.int64)[::-1], False),
    ("read-only int64 array", np.int64, lambda L: _readonly(np.array(L, dtype=np.int64)), False),
    ("object array of python ints", None, lambda L: np.array(L, dtype=object), False),
]

# name, builder(float64 C array of shape (k, 2)), core.  The oracle is evaluated on the values the
# representation holds (np.asarray(obj, float64)): float32 rounds the points, everything else is exact.
COORD_REPS = [
    ("float64 array", lambda P: np.array(P), True),
    ("nested list", lambda P: P.tolist(), True),
    ("tuple of tuples", lambda P: tuple(map(tuple, P.tolist())), False),
    ("list of 1-d arrays", lambda P: [row.copy() for row in P], False),
    ("Fortran-ordered array", lambda P: np.asfortranarray(P), False),
    ("transposed view", lambda P: np.ascontiguousarray(P.T).T, False),
    ("row-strided view", lambda P: _strided(np.array(P), 2), False),
    ("column-strided view", _colstrided, False),
    ("reversed rows view", lambda P: np.array(P[::-1])[::-1], False),
    ("big-endian float64 array", lambda P: P.astype(">f8"), False),
    ("read-only array", _readonly, False),
    ("float32 array", lambda P: P.astype(np.float32), False),
    ("longdouble array", lambda P: P.astype(np.longdouble), False),
    ("object array of python floats", lambda P: np.array(P.tolist(), dtype=object), False),
]

# one point
POINT_REPS = [
    ("1-d float64 array", lambda x, y: np.array([x, y]), True),
    ("list [x, y]", lambda x, y: [x, y], True),
    ("tuple (x, y)", lambda x, y: (x, y), False),
    ("list of numpy.float64 scalars", lambda x, y: [np.float64(x), np.float64(y)], False),
    ("1-d strided view", lambda x, y: np.array([x, 0., y, 0.])[::2], False),
    ("nested list [[x, y]]", lambda x, y: [[x, y]], True),
]


def draw_geometry(rng, csz=None):
    """A geometry inside the property's quantifier (cell size, origin relative to the cell size)."""
    if csz is None:
        csz = rng.choice([1.0, 0.5, 2.0, 0.05, 10 ** rng.uniform(-4, 4), 0.025, 1e-4, 1e4])
    off = rng.choice([0, 1, 10, 1e2, 1e4])
    xll = rng.choice([0.0, rng.uniform(-1, 1) * off * csz, float(round(rng.uniform(-1, 1) * off)) * csz])
    yll = rng.choice([0.0, rng.uniform(-1, 1) * off * csz, -off * csz])
    return xll, yll, csz


def live_geometry(g):
    """The geometry of a Grid object = its public attributes, as they are now."""
    return int(g.nrows), int(g.ncols), float(g.xllcorner), float(g.yllcorner), float(g.cellsize)


def draw_points(rng, G, nin, nout, special=True):
    nrows, ncols, xll, yll, csz = G
    pts = []
    for _k in range(nin):  # inside footprints
        r, c = rng.randrange(nrows), rng.randrange(ncols)
        u = rng.choice([1e-9, 2e-9, 1e-8, 1e-6, 0.5, rng.random(), 1 - 1e-9, 1 - 2e-9, 1 - 1e-8, 1 - 1e-6])
        v = rng.choice([1e-9, 2e-9, 1e-8, 1e-6, 0.5, rng.random(), 1 - 1e-9, 1 - 2e-9, 1 - 1e-8, 1 - 1e-6])
        pts.append((xll + csz * (c + u), yll + csz * (nrows - 1 - r + v)))
    for _k in range(nout):  # outside, eight directions, from the binary64 neighbours of the edges to far away
        sx, sy = rng.choice(DIRS)
        u = rng.choice([0.5, ncols - 0.5, rng.random() * ncols, rng.random() * ncols])
        v = rng.choice([0.5, nrows - 0.5, rng.random() * nrows, rng.random() * nrows])
        how = rng.random()
        if how < 0.15:
            k = rng.choice(ULPS)
            px = edge_neighbour(xll, csz, ncols, sx, k) if sx else xll + csz * u
            py = edge_neighbour(yll, csz, nrows, sy, k) if sy else yll + csz * v
        elif how < 0.22:
            d = rng.choice(FAR)
            px, py = xll + csz * (u + sx * d), yll + csz * (v + sy * d)
        else:
            d = rng.choice(OUT_DISTS + [10 ** rng.uniform(-13, -8), 10 ** rng.uniform(-8, 0)])
            px = xll + csz * (-d if sx < 0 else ncols + d if sx > 0 else u)
            py = yll + csz * (-d if sy < 0 else nrows + d if sy > 0 else v)
        pts.append((px, py))
    if special:
        pts += [(float("nan"), yll), (xll + csz / 2, float("inf")), (-float("inf"), yll + csz / 2),
                (1e300, 1e300), (-1e300, yll + csz / 2)]
    return pts


def draw_ids(rng, G, nvalid, ninvalid, far=True):
    nrows, ncols = G[0], G[1]
    n = nrows * ncols
    inv = [-1, -2, -ncols, -n, n, n + 1, n + ncols, 10 * n + 3]
    if far:
        inv += [-2 ** 40, 2 ** 40, 2 ** 63 - 1, -2 ** 63, 2 ** 31, -2 ** 31 - 1]
    val = [0, ncols - 1, n - ncols, n - 1, n // 2]
    return ([rng.choice(val + [rng.randrange(n)] * 3) for _ in range(nvalid)]
            + [rng.choice(inv) for _ in range(ninvalid)])


class Obs:
    """Observers: one call of a cell function on one Grid object, the correspondence case(s) for the
    geometry the object has NOW, and the oracle of the property's clauses."""

    def __init__(self, ctx):
        self.ctx = ctx
        self.terms, self.replays = [], []
        self.orc_fail = set()
        self.unsupported = {}

    def add(self, term, replay, sig):
        self.terms.append(term)
        self.replays.append(replay)
        self.ctx.count(sig)
        if len(self.terms) % 700 == 1:
            self.ctx.sample(replay)
        return len(self.terms) - 1

    def fail(self, idx, key, what):
        self.orc_fail.add(idx)
        rp = self.replays[idx]
        if isinstance(rp, dict) and rp.get("history"):
            h = rp["history"]
            what += (f" - object {rp.get('object')} of a history of {len(h)} steps, after: "
                     + "; ".join(h[-3:]))[:400]
        self.ctx.failure(key, rp, what)

    def fail_plain(self, key, replay, what, sig):
        """A failure with no model case of its own (exception, malformed result)."""
        i = self.add("GRowcol 1%Z 1%Z 0%Z 0%Z 0%Z", replay, sig)
        self.fail(i, key, what)

    def _call(self, fn, name, f, arg, values, all_invalid, G, rep, core, extra):
        """Run f(arg).  Returns (True, result) or (False, None) when the call raised and that is
        acceptable (an error is a way of flagging invalid numbers; a representation that is not one of
        the library's own may be refused)."""
        geom = {"nrows": G[0], "ncols": G[1], "xll": G[2], "yll": G[3], "csz": G[4]}
        try:
            with np.errstate(all="ignore"):
                return True, f(arg)
        except Exception as e:
            self.ctx.count((name, "raised", all_invalid, rep))
            if all_invalid:
                return False, None
            if core:
                self.fail_plain(f"C07/{name}/error",
                                dict(geom, call=name, arg=repr(arg)[:300], values=values, representation=rep,
                                     error=f"{type(e).__name__}: {e}"[:300], **extra),
                                f"{name}({values!r} given as {rep}) raised {type(e).__name__}: {str(e)[:120]} "
                                f"on a {G[0]}x{G[1]} grid", (name, "error"))
            else:
                self.unsupported[(name, rep)] = self.unsupported.get((name, rep), 0) + 1
            return False, None

    # ---- cell2coord
    def cell2coord(self, g, G, arg, ids, rep="int64 array", core=True, extra=None, roundtrip=True):
        extra = extra or {}
        nrows, ncols, xll, yll, csz = G
        n = nrows * ncols
        ok, res = self._call(g, "cell2coord", g.cell2coord, arg, ids,
                             all(not 0 <= i < n for i in ids), G, rep, core, extra)
        if not ok:
            return
        geom = {"nrows": nrows, "ncols": ncols, "xll": xll, "yll": yll, "csz": csz}
        try:
            xy = np.asarray(res, dtype=np.float64).reshape(-1, 2)
        except Exception:
            xy = np.zeros((0, 2))
        if len(xy) != len(ids):
            self.fail_plain("C07/cell2coord/not-centre",
                            dict(geom, call="cell2coord", idx=ids, representation=rep, impl=repr(res)[:300], **extra),
                            f"cell2coord({ids!r} given as {rep}) does not return one (x, y) per cell: {res!r}"[:300],
                            ("c2c", "shape"))
            return
        head = f"{cm.coq_z(nrows)} {cm.coq_z(ncols)} {cm.coq_float(xll)} {cm.coq_float(yll)} {cm.coq_float(csz)}"
        for idx, (x, y) in zip(ids, xy):
            x, y = float(x), float(y)
            i = self.add(f"GCell2coord {head} {cm.coq_z(idx)} {cm.coq_float(x)} {cm.coq_float(y)}",
                         dict(geom, call="cell2coord", idx=idx, representation=rep, impl=[x, y], **extra),
                         ("c2c", 0 <= idx < n, nrows == 1, ncols == 1, rep, bool(extra)))
            as_rep = "" if rep == "int64 array" else f" given as {rep}"
            if 0 <= idx < n:
                r, c = idx // ncols, idx % ncols
                ex = Fr(xll) + Fr(csz) * (c + Fr(1, 2))
                ey = Fr(yll) + Fr(csz) * (nrows - 1 - r + Fr(1, 2))
                tol = 1e-12 * (abs(xll) + abs(yll) + csz * (nrows + ncols))
                if not (math.isfinite(x) and math.isfinite(y)
                        and abs(Fr(x) - ex) <= tol and abs(Fr(y) - ey) <= tol):
                    self.fail(i, "C07/cell2coord/not-centre",
                              f"cell2coord({idx}{as_rep}) = {(x, y)} is not the cell centre {(float(ex), float(ey))} "
                              f"(grid {nrows}x{ncols} xll={xll!r} yll={yll!r} csz={csz!r})")
                elif roundtrip:
                    back = int(g.coord2cell(np.array([[x, y]]))[0])
                    self.ctx.count()
                    if back != idx:
                        self.fail(i, "C07/roundtrip", f"coord2cell(cell2coord({idx}{as_rep})) = {back}")
            elif not (math.isnan(x) and math.isnan(y)):
                self.fail(i, "C07/cell2coord/invalid-cell",
                          f"cell2coord({idx}{as_rep}) = {(x, y)} for an invalid cell "
                          f"(grid {nrows}x{ncols}: cells 0..{n - 1})")

    # ---- cell2rowcol
    def cell2rowcol(self, g, G, arg, ids, rep="int64 array", core=True, extra=None):
        extra = extra or {}
        nrows, ncols = G[0], G[1]
        n = nrows * ncols
        ok, res = self._call(g, "cell2rowcol", g.cell2rowcol, arg, ids,
                             all(not 0 <= i < n for i in ids), G, rep, core, extra)
        if not ok:
            return
        try:
            rc = np.asarray(res).reshape(-1, 2)
            rc = [(int(r), int(c)) for r, c in rc]
        except Exception:
            rc = []
        if len(rc) != len(ids):
            self.fail_plain("C07/cell2rowcol/wrong",
                            {"call": "cell2rowcol", "shape": [nrows, ncols], "idx": ids, "representation": rep,
                             "impl": repr(res)[:300], **extra},
                            f"cell2rowcol({ids!r} given as {rep}) does not return one (row, col) per cell: {res!r}"[:300],
                            ("rowcol", "shape"))
            return
        for idx, (r, c) in zip(ids, rc):
            i = self.add(f"GRowcol {cm.coq_z(nrows)} {cm.coq_z(ncols)} {cm.coq_z(idx)} {cm.coq_z(r)} {cm.coq_z(c)}",
                         {"call": "cell2rowcol", "shape": [nrows, ncols], "idx": idx, "representation": rep,
                          "impl": [r, c], **extra},
                         ("rowcol", 0 <= idx < n, nrows == 1, ncols == 1, rep, bool(extra)))
            want = (idx // ncols, idx % ncols) if 0 <= idx < n else (-1, -1)
            if (r, c) != want:
                as_rep = "" if rep == "int64 array" else f" given as {rep}"
                self.fail(i, "C07/cell2rowcol/wrong", f"cell2rowcol({idx}{as_rep}) on {nrows}x{ncols} -> {(r, c)}")

    # ---- neighbours
    def neighbours(self, g, G, arg, idx, rep="python int", extra=None):
        extra = extra or {}
        nrows, ncols = G[0], G[1]
        n = nrows * ncols
        try:
            ng = [int(v) for v in g.neighbours(arg)]
        except ValueError:
            ng = None
        except Exception:
            if 0 <= idx < n and rep not in ("python int", "numpy.int64 scalar"):
                self.unsupported[("neighbours", rep)] = self.unsupported.get(("neighbours", rep), 0) + 1
                return
            ng = None
        i = self.add(f"GNeigh {cm.coq_z(nrows)} {cm.coq_z(ncols)} {cm.coq_z(idx)} "
                     f"{cm.coq_option(ng, cm.coq_zlist)}",
                     {"call": "neighbours", "shape": [nrows, ncols], "idx": idx, "representation": rep,
                      "impl": ng, **extra},
                     ("neigh", ng is None, nrows == 1, ncols == 1, rep, bool(extra)))
        as_rep = "" if rep == "python int" else f" given as {rep}"
        if (ng is None) != (not 0 <= idx < n):
            self.fail(i, "C07/neighbours/invalid-cell", f"neighbours({idx}{as_rep}) on {nrows}x{ncols} -> {ng}")
        elif ng is not None:
            r0, c0 = idx // ncols, idx % ncols
            want = []
            for iy in (-1, 0, 1):
                for ix in (-1, 0, 1):
                    r, c = r0 + iy, c0 + ix
                    want.append(-1 if (ix == 0 and iy == 0) or not (0 <= r < nrows and 0 <= c < ncols)
                                else r * ncols + c)
            if ng != want:
                self.fail(i, "C07/neighbours/wrong", f"neighbours({idx}{as_rep}) on {nrows}x{ncols} -> {ng}")

    # ---- coord2cell
    def coord2cell(self, g, G, arg, pts, rep="float64 array", core=True, extra=None):
        """pts = the points as the representation holds them (float64 values)."""
        extra = extra or {}
        nrows, ncols, xll, yll, csz = G
        geom = {"nrows": nrows, "ncols": ncols, "xll": xll, "yll": yll, "csz": csz}
        ok, res = self._call(g, "coord2cell", g.coord2cell, arg, [list(p) for p in pts], False, G, rep, core, extra)
        if not ok:
            return
        try:
            got = [int(v) for v in np.asarray(res).reshape(-1)]
        except Exception:
            got = []
        if len(got) != len(pts):
            self.fail_plain("C07/coord2cell/inside-wrong-cell",
                            dict(geom, call="coord2cell", points=[list(p) for p in pts], representation=rep,
                                 impl=repr(res)[:300], **extra),
                            f"coord2cell of {len(pts)} point(s) given as {rep} does not return one cell per point: "
                            f"{res!r}"[:300], ("p2c", "shape"))
            return
        head = f"{cm.coq_z(nrows)} {cm.coq_z(ncols)} {cm.coq_float(xll)} {cm.coq_float(yll)} {cm.coq_float(csz)}"
        for (x, y), cell in zip(pts, got):
            x, y = float(x), float(y)
            want, margin = exact_cell(nrows, ncols, xll, yll, csz, x, y)
            if margin is None:
                safe = True
            elif want < 0:
                # outside in exact arithmetic: judged down to the rounding of binary64 (no 1e-9 band here)
                safe = outside_decisive(nrows, ncols, xll, yll, csz, x, y)
            else:
                # inside a footprint: the property's quantifier keeps 1e-9 (relative to the cell) from the edges
                scale = max(abs(xll), abs(yll), abs(x), abs(y)) / csz
                safe = margin > 1e-9 + 4e-16 * scale
            cls = ("nonfinite" if margin is None else "outside" if want < 0 else "inside",
                   None if margin is None else "1e-9" if margin < 1.5e-9 else "1e-5" if margin < 1e-5 else
                   "1" if margin <= 1 else "1e6" if margin <= 1e6 else "far", safe,
                   nrows == 1, ncols == 1, rep, bool(extra))
            i = self.add(f"GCoord2cell {head} {cm.coq_float(x)} {cm.coq_float(y)} {cm.coq_z(cell)}",
                         dict(geom, call="coord2cell", point=[x, y], representation=rep, impl=cell, exact=want,
                              **extra), ("p2c",) + cls)
            if safe and cell != want:
                side = "outside-maps-to-cell" if want < 0 else "inside-wrong-cell"
                as_rep = "" if rep == "float64 array" else f" given as {rep}"
                self.fail(i, f"C07/coord2cell/{side}",
                          f"coord2cell({x!r},{y!r}{as_rep}) = {cell}, exact answer {want} "
                          f"(grid {nrows}x{ncols} xll={xll!r} yll={yll!r} csz={csz!r})")

    # ---- xvalues / yvalues
    def xyvalues(self, g, G, extra=None):
        extra = extra or {}
        nrows, ncols, xll, yll, csz = G
        geom = {"nrows": nrows, "ncols": ncols, "xll": xll, "yll": yll, "csz": csz}
        self.ctx.count(("xvalues", nrows == 1, ncols == 1, bool(extra)))
        try:
            xv, yv = g.xvalues, g.yvalues
        except Exception as e:
            self.fail_plain("C07/xvalues-yvalues", dict(geom, call="xvalues/yvalues",
                                                        error=f"{type(e).__name__}: {e}"[:300], **extra),
                            f"xvalues/yvalues raise {type(e).__name__}: {str(e)[:120]} on the grid {nrows}x{ncols} "
                            f"xll={xll!r} yll={yll!r} csz={csz!r}", ("xv", "error"))
            return
        okx = len(xv) == ncols and all(
            math.isfinite(float(xv[c])) and abs(Fr(float(xv[c])) - (Fr(xll) + Fr(csz) * (c + Fr(1, 2)))) <= 1e-12 * (abs(xll) + csz * ncols)
            for c in range(ncols))
        oky = len(yv) == nrows and all(
            math.isfinite(float(yv[r])) and abs(Fr(float(yv[r])) - (Fr(yll) + Fr(csz) * (nrows - 1 - r + Fr(1, 2)))) <= 1e-12 * (abs(yll) + csz * nrows)
            for r in range(nrows))
        if not (okx and oky):
            self.fail_plain("C07/xvalues-yvalues",
                            dict(geom, call="xvalues/yvalues", xvalues=[float(v) for v in xv][:50],
                                 yvalues=[float(v) for v in yv][:50], **extra),
                            f"xvalues/yvalues are not the column/row centres of the grid {nrows}x{ncols} "
                            f"xll={xll!r} yll={yll!r} csz={csz!r}", ("xv",))


# ----------------------------------------------------------------------------
# Object histories ("for any grid geometry" = the geometry the object has when the function is
# called): ONE Grid object - and the objects derived from it - taken through a sequence of public
# operations; after every step every live object is observed and must answer for the geometry its
# public attributes (nrows, ncols, xllcorner, yllcorner, cellsize) show at that moment.

def _new_value(rng, v):
    """The same number in the types a caller assigns to an attribute."""
    k = rng.randrange(3)
    if k == 0 or (k == 2 and float(v) != int(v)):
        return float(v), "float"
    if k == 1:
        return np.float64(v), "numpy.float64"
    return int(v), "int"


def run_history(ctx, obs, rng, hid, nsteps):
    import copy
    import pickle
    from hydrodiy.gis.grid import Grid
    nrows = rng.choice([1, 2, 3, rng.randint(1, 12)])
    ncols = rng.choice([1, 2, 3, rng.randint(1, 12)])
    xll, yll, csz = draw_geometry(rng)
    objs = [mkgrid(nrows, ncols, xll, yll, csz)]
    if rng.random() < 0.5:
        objs[0].data = np.arange(nrows * ncols, dtype=np.float64).reshape(nrows, ncols)
    trail = [f"g0 = Grid('g', ncols={ncols}, nrows={nrows}, cellsize={csz!r}, xllcorner={xll!r}, yllcorner={yll!r})"]

    def observe(k, full):
        """All cell functions of object k against its present geometry."""
        g = objs[k]
        G = live_geometry(g)
        n = G[0] * G[1]
        extra = {"history": list(trail), "object": f"g{k}", "history_id": hid}
        # cell2coord: array of valid and invalid numbers, and single numbers as scalars
        ids = sorted(set([-1, 0, n - 1, n] + draw_ids(rng, G, 2, 1, far=False)))
        name, lim, mk, core = rng.choice(ARRAY_REPS[:2] + [rng.choice(ARRAY_REPS)])
        if not _fits(ids, lim):
            name, lim, mk, core = ARRAY_REPS[0]
        obs.cell2coord(g, G, mk(list(ids)), ids, name, core, extra)
        for idx in draw_ids(rng, G, 1, 1):
            name, lim, mk, core = rng.choice(SCALAR_REPS[:2] + [rng.choice(SCALAR_REPS)])
            if _fits([idx], lim):
                obs.cell2coord(g, G, mk(idx), [idx], name, core, extra)
        # coord2cell
        pts = draw_points(rng, G, 5 if full else 3, 4 if full else 2, special=False)
        name, mk, core = rng.choice(COORD_REPS[:2] + [rng.choice(COORD_REPS)])
        arg = mk(np.array(pts, dtype=np.float64))
        obs.coord2cell(g, G, arg, np.asarray(arg, dtype=np.float64).reshape(-1, 2).tolist(), name, core, extra)
        # cell2rowcol, neighbours
        ids = draw_ids(rng, G, 2, 1, far=False)
        obs.cell2rowcol(g, G, np.array(ids), ids, extra=extra)
        idx = draw_ids(rng, G, 1, 0)[0] if rng.random() < 0.8 else draw_ids(rng, G, 0, 1, far=False)[0]
        obs.neighbours(g, G, idx, idx, extra=extra)
        if full:
            obs.xyvalues(g, G, extra)

    def quiet(f):
        """An operation that is not under test here (it only has to leave the cell functions right)."""
        try:
            with np.errstate(all="ignore"):
                return f()
        except Exception:
            return None

    observe(0, True)
    for _step in range(nsteps):
        k = rng.randrange(len(objs))
        g = objs[k]
        nr, nc, xl, yl, cs = live_geometry(g)
        op = rng.choice(["origin", "origin", "xll", "yll", "cellsize", "cellsize+origin", "shape", "derive", "derive",
                         "use", "data"])
        cm.mark({"history": list(trail), "next": op, "object": f"g{k}"})
        if op in ("origin", "xll", "yll", "cellsize+origin", "cellsize"):
            if op == "cellsize":
                m = max(abs(xl), abs(yl))
                lo = max(1e-4, m / 1e4)
                ncs = rng.choice([v for v in (1.0, 0.5, 2.0, 0.05, 0.025, 1e-4, 1e4) if v >= lo and v != cs]
                                 + [10 ** rng.uniform(math.log10(lo), 4)])
                todo = [("cellsize", ncs)]
            else:
                nxl, nyl, ncs = draw_geometry(rng, None if op == "cellsize+origin" else cs)
                if nxl == xl:
                    nxl = xl + rng.choice([-3, 1, 7]) * ncs
                if nyl == yl:
                    nyl = yl + rng.choice([-5, 2, 11]) * ncs
                todo = {"origin": [("xllcorner", nxl), ("yllcorner", nyl)], "xll": [("xllcorner", nxl)],
                        "yll": [("yllcorner", nyl)],
                        "cellsize+origin": [("cellsize", ncs), ("xllcorner", nxl), ("yllcorner", nyl)]}[op]
                rng.shuffle(todo)
            for j, (attr, v) in enumerate(todo):
                v, tname = _new_value(rng, v)
                setattr(g, attr, v)
                trail.append(f"g{k}.{attr} = {tname}({v!r})")
                # between two assignments the object may be used as well (its geometry is then the
                # half-updated one; it has to stay inside the quantifier to be observed)
                if j + 1 < len(todo) and rng.random() < 0.5:
                    G = live_geometry(g)
                    if max(abs(G[2]), abs(G[3])) <= 1.0001e4 * G[4]:
                        observe(k, False)
        elif op == "shape":
            nnr = rng.choice([1, 2, 3, rng.randint(1, 12)])
            nnc = rng.choice([1, 2, 3, rng.randint(1, 12)])
            try:
                todo = [("nrows", nnr), ("ncols", nnc)]
                rng.shuffle(todo)
                for attr, v in todo:
                    v = rng.choice([int, np.int64])(v)
                    setattr(g, attr, v)
                    trail.append(f"g{k}.{attr} = {type(v).__name__}({int(v)})")
                g.data = np.zeros((nnr, nnc))
                trail.append(f"g{k}.data = zeros(({nnr}, {nnc}))")
            except AttributeError:          # shape attributes that cannot be assigned: not this property's business
                trail.append(f"(g{k}: nrows/ncols cannot be assigned)")
        elif op == "derive":
            how = rng.choice(["clone", "clone", "clone(dtype)", "deepcopy", "copy", "pickle", "from_dict", "clip"])
            new = None
            if how == "clone":
                new = g.clone()
            elif how == "clone(dtype)":
                new = quiet(lambda: g.clone(rng.choice([np.float32, np.int32, np.float64])))
            elif how == "deepcopy":
                new = copy.deepcopy(g)
            elif how == "copy":
                new = copy.copy(g)
            elif how == "pickle":
                new = quiet(lambda: pickle.loads(pickle.dumps(g)))
            elif how == "from_dict":
                new = quiet(lambda: Grid.from_dict(g.to_dict()))
            elif how == "clip" and nr * nc > 1:
                r0, r1 = sorted([rng.randrange(nr), rng.randrange(nr)])
                c0, c1 = sorted([rng.randrange(nc), rng.randrange(nc)])
                new = quiet(lambda: g.clip(xl + cs * (c0 + 0.5), yl + cs * (nr - 1 - r1 + 0.5),
                                           xl + cs * (c1 + 0.5), yl + cs * (nr - 1 - r0 + 0.5)))
                how = f"clip(columns {c0}..{c1}, rows {r0}..{r1})"
            if new is not None:
                if len(objs) < 3:
                    objs.append(new)
                    j = len(objs) - 1
                else:
                    j = rng.choice([i for i in range(len(objs)) if i != k])
                    objs[j] = new
                trail.append(f"g{j} = g{k}.{how}" if how.startswith("cl") else f"g{j} = {how}(g{k})")
        elif op == "use":
            what = rng.choice(["slice", "str", "xlim/ylim", "same_geometry", "to_dict", "plot", "xvalues", "yvalues"])
            if what == "slice":
                quiet(lambda: g.slice([[xl + cs * 0.3, yl + cs * 0.3], [xl + cs * (nc - 0.3), yl + cs * (nr - 0.3)]]))
            elif what == "str":
                quiet(lambda: str(g))
            elif what == "xlim/ylim":
                quiet(lambda: (g.xlim, g.ylim, g.shape))
            elif what == "same_geometry":
                quiet(lambda: g.same_geometry(objs[0]))
            elif what == "to_dict":
                quiet(g.to_dict)
            elif what == "plot":
                def plot():
                    import matplotlib
                    matplotlib.use("Agg")
                    import matplotlib.pyplot as plt
                    fig, ax = plt.subplots()
                    try:
                        g.plot(ax)
                    finally:
                        plt.close(fig)
                quiet(plot)
            elif what == "xvalues":
                quiet(lambda: g.xvalues)
            else:
                quiet(lambda: g.yvalues)
            trail.append(f"g{k}: {what}")
        else:
            what = rng.choice(["fill", "setitem", "data", "nodata"])
            if what == "fill":
                quiet(lambda: g.fill(rng.randint(-3, 3)))
            elif what == "setitem":
                quiet(lambda: g.__setitem__(rng.randrange(nr * nc), 4.))
            elif what == "data":
                quiet(lambda: setattr(g, "data", np.full(g.shape, 2.)))
            else:
                quiet(lambda: setattr(g, "nodata", -9999))
            trail.append(f"g{k}: {what}")
        # every live object answers for its own present geometry
        for j in range(len(objs)):
            observe(j, j == k)
    return len(trail)


def run(ctx):
    ctx.rule = ("integer operations: every shape 1..5 x 1..5 (thorough 1..8) and every cell number -2..n+1 "
                "(exhaustive; cell2rowcol / cell2coord also with the number as a scalar of every integer type in turn); "
                "coordinates: random shapes up to 40x40, cell sizes 1e-4..1e4, origins up to 1e4 "
                "cells from zero, points inside every sampled footprint (>=1e-9 from edges), on 8 outside "
                "directions from the binary64 neighbours of the exact edges (1, 2, 3, ... 1e9 ulps), 1e-15 .. 1e12 "
                "cells and 2^31 .. 2^70 cells away, NaN/inf - an outside point (exact arithmetic on the binary64 values "
                "held) is judged as soon as it is farther out than 4e-16 x the magnitudes involved, no 1e-9 band on "
                "the outside; border sweep: every cell size decade 1e-4..1e4 (+ 0.05, 0.025, 1/3, ...) x 1x1 / 1-row "
                "/ 1-column / general shapes x origins 0..1e4 cells x 4 sides + 4 diagonals x those distances, and the "
                "mirrored points 2e-9 .. 0.5 cell inside the border cells; stored representations: cell numbers (valid, "
                "invalid, +-2^31, +-2^40, int64 limits) as Python int, numpy scalar of every integer type, 0-d array, "
                "list, tuple, arrays of every integer type / byte order / stride / read-only / object, points as "
                "nested lists, tuples, Fortran / strided / transposed / big-endian / float32 / longdouble / object "
                "arrays, single points as 1-d sequences; object histories: one Grid through random sequences of "
                "geometry-attribute assignments (float / numpy.float64 / int), shape changes, clone / deepcopy / copy "
                "/ pickle / from_dict / clip, data operations and uses (slice, str, plot, xvalues...), every live "
                "object observed after every step against its present attributes; non-trivial = distinct "
                "(kind, class, representation, in-history) signature")
    ctx.trusted = cm.STD_TRUST + ["x86-64 cvttsd2si semantics for out-of-range casts (model returns -1)"]
    ctx.tested_not_proved = ["binary64 rounding never moves a point across a cell edge when it is 1e-9 "
                             "(relative) away from it - tested with an exact rational oracle",
                             "a point outside the extent in exact arithmetic on the binary64 values held gets -1 as "
                             "soon as it is farther out than 4e-16 x (|origin|, |coordinate|, extent; cell units) - "
                             "tested with the exact rational oracle from the binary64 neighbours of the edges to 2^70 "
                             "cells (not judged: points closer than that rounding bound, e.g. on the right / top "
                             "edge itself or a subnormal distance left of a zero origin)",
                             "the Python wrappers hand the object's present geometry and the numbers / points, "
                             "whatever their stored representation, unchanged to the kernels - tested on "
                             "representations and object histories"]
    proved = cm.prove_with_kernels(ctx, ["getnxy", "getcoord", "c_coord2cell", "c_cell2rowcol", "c_cell2coord", "c_neighbours"])
    cm.use_impl()
    rng = ctx.rng
    obs = Obs(ctx)
    import time
    t0 = time.time()

    # ---- integer operations, exhaustive on small shapes
    S = ctx.scale(5, 8)
    turn = 0
    for nrows in range(1, S + 1):
        for ncols in range(1, S + 1):
            g = mkgrid(nrows, ncols, 0., 0., 1.)
            G = (nrows, ncols, 0., 0., 1.)
            n = nrows * ncols
            cm.mark({"grid": list(G), "calls": "cell2rowcol / neighbours / cell2coord, every cell number -2..n+1"})
            ids = list(range(-2, n + 2))
            obs.cell2rowcol(g, G, np.array(ids), ids)
            for idx in ids:
                obs.neighbours(g, G, idx, idx)
            # the same numbers one by one, as scalars of every type in turn
            for idx in ids:
                for fn in (obs.cell2rowcol, obs.cell2coord):
                    for _try in range(len(SCALAR_REPS)):
                        name, lim, mk, core = SCALAR_REPS[turn % len(SCALAR_REPS)]
                        turn += 1
                        if _fits([idx], lim):
                            fn(g, G, mk(idx), [idx], name, core)
                            break
                name, lim, mk, core = SCALAR_REPS[turn % len(SCALAR_REPS)]
                if name != "python int" and _fits([idx], lim):
                    obs.neighbours(g, G, mk(idx), idx, name)

    # ---- coordinates
    ngrids = ctx.scale(60, 600)
    for _ in range(ngrids):
        nrows = rng.choice([1, 2, 3, rng.randint(1, 40)])
        ncols = rng.choice([1, 2, 3, rng.randint(1, 40)])
        xll, yll, csz = draw_geometry(rng)
        g = mkgrid(nrows, ncols, xll, yll, csz)
        n = nrows * ncols
        G = (nrows, ncols, xll, yll, csz)
        cm.mark({"grid": list(G), "calls": "cell functions, all representations"})
        # cell2coord of valid and invalid cells
        ids = sorted(set([-1, 0, n - 1, n, n + 3] + [rng.randrange(n) for _ in range(6)]))
        obs.cell2coord(g, G, np.array(ids), ids)
        # points
        pts = draw_points(rng, G, 10, 16)
        obs.coord2cell(g, G, np.array(pts), pts)
        # derived properties
        obs.xyvalues(g, G)
        # ---- the same questions with the arguments stored in other ways
        for fn in (obs.cell2coord, obs.cell2rowcol):
            for name, lim, mk, core in rng.sample(SCALAR_REPS, 3):
                cand = [i for i in draw_ids(rng, G, 2, 4) if _fits([i], lim)]
                if cand:
                    idx = rng.choice(cand)
                    fn(g, G, mk(idx), [idx], name, core)
            for name, lim, mk, core in rng.sample(ARRAY_REPS, 2):
                ids = [i for i in draw_ids(rng, G, rng.randint(0, 3), rng.randint(0, 3)) if _fits([i], lim)]
                if ids:
                    rng.shuffle(ids)
                    fn(g, G, mk(list(ids)), ids, name, core)
        for name, lim, mk, core in rng.sample(SCALAR_REPS, 2):
            cand = [i for i in draw_ids(rng, G, 2, 2) if _fits([i], lim)]
            if cand:
                idx = rng.choice(cand)
                obs.neighbours(g, G, mk(idx), idx, name)
        for name, mk, core in rng.sample(COORD_REPS, 2):
            sub = rng.sample(pts, 10)
            arg = mk(np.array(sub, dtype=np.float64))
            obs.coord2cell(g, G, arg, np.asarray(arg, dtype=np.float64).reshape(-1, 2).tolist(), name, core)
        name, mk, core = rng.choice(POINT_REPS)
        x, y = rng.choice(pts[:26])
        obs.coord2cell(g, G, mk(x, y), [(x, y)], name, core)

    # ---- the border of the extent, from both sides: every cell size decade of the quantifier (and the sizes a
    # tolerance in coordinate units / in cell units / relative to the coordinates would single out) x 1-row, 1-column,
    # 1x1 and general shapes x origins from 0 to 1e4 cells x four sides and four diagonals x distances from the
    # binary64 neighbours of the exact edges to 2^70 cells
    sizes = [1e-4, 1e-3, 1e-2, 0.1, 1.0, 10.0, 1e2, 1e3, 1e4, 0.05, 0.025, 0.5, 2.0, 1 / 3, 3e-4,
             10 ** rng.uniform(-4, 0), 10 ** rng.uniform(0, 4)]
    njudged0 = len(obs.terms)
    for csz in sizes:
        for _ in range(ctx.scale(1, 5)):
            nrows, ncols = rng.choice([(1, 1), (1, rng.randint(2, 40)), (rng.randint(2, 40), 1), (2, 3),
                                       (rng.randint(2, 40), rng.randint(2, 40))])
            off = rng.choice([0, 1, 1e2, 1e4])
            xll = rng.choice([0.0, rng.uniform(-1, 1) * off * csz, float(round(rng.uniform(-1, 1) * off)) * csz,
                              rng.choice([-1, 1]) * off * csz])
            yll = rng.choice([0.0, rng.uniform(-1, 1) * off * csz, -off * csz, (off - nrows) * csz])
            g = mkgrid(nrows, ncols, xll, yll, csz)
            G = live_geometry(g)
            cm.mark({"grid": list(G), "calls": "coord2cell, border of the extent from both sides"})
            pts = border_points(rng, G, ctx.scale(0.45, 1.0))
            obs.coord2cell(g, G, np.array(pts), pts)
    ctx.notes["border_sweep_points"] = len(obs.terms) - njudged0

    # ---- object histories
    nhist = ctx.scale(16, 120)
    nsteps_run = 0
    for hid in range(nhist):
        nsteps_run += run_history(ctx, obs, rng, hid, rng.randint(4, 9))
    ctx.notes["histories_run"] = nhist
    ctx.notes["history_steps"] = nsteps_run
    ctx.obligation("object histories ran (generator not degenerate)", nsteps_run >= 4 * nhist)
    if obs.unsupported:
        ctx.notes["representations_refused"] = {f"{k[0]}: {k[1]}": v for k, v in sorted(obs.unsupported.items())}

    terms, replays, orc_fail = obs.terms, obs.replays, obs.orc_fail
    ctx.notes["generate_and_oracle_s"] = round(time.time() - t0, 1)
    t0 = time.time()
    bad, nshards, failed = cm.run_case_files(PID, HEADER, "gcase", "g_ok", terms, shard=1500)
    ctx.notes["correspondence_s"] = round(time.time() - t0, 1)
    ctx.notes["correspondence_cases"] = len(terms)
    ctx.notes["correspondence_mismatches"] = len(bad)
    for k in range(nshards):
        ctx.obligation(f"Cases_{PID}_{k}.agree (model = implementation on the shard)", True)
    cm.settle(ctx, proved, bad, failed, orc_fail, lambda i: replays[i],
              "Model/Grid.v (geometry) vs c_grid.c + grid.py")
    return ctx.finish()
